package load

import (
	"go/token"
	"go/types"

	"golang.org/x/tools/go/ssa"
)

// IsErrCtor: a library function that always returns a non-nil error.
func IsErrCtor(f *ssa.Function) bool {
	if f == nil {
		return false
	}
	switch f.String() {
	case "errors.New", "fmt.Errorf":
		return true
	}
	return false
}

// SentinelError reports whether g is a package-level error variable that holds
// one non-nil error for the whole life of the program: its only store is in
// its package's initialiser, stores a definitely non-nil error, and its
// address is used for nothing but loads.
func (p *Program) SentinelError(g *ssa.Global) bool {
	if v, ok := p.sentinel[g]; ok {
		return v
	}
	if p.sentinel == nil {
		p.sentinel = map[*ssa.Global]bool{}
	}
	p.sentinel[g] = false
	pt, ok := g.Type().(*types.Pointer)
	if !ok || !types.Identical(pt.Elem(), types.Universe.Lookup("error").Type()) {
		return false
	}
	stores := 0
	for _, f := range p.Funcs {
		for _, b := range f.Blocks {
			for _, in := range b.Instrs {
				for _, op := range in.Operands(nil) {
					if op == nil || *op != ssa.Value(g) {
						continue
					}
					switch x := in.(type) {
					case *ssa.UnOp:
						if x.Op != token.MUL {
							return false
						}
					case *ssa.Store:
						if x.Addr != ssa.Value(g) || !IsInitFunc(f) || p.ErrNil(x.Val) != 1 {
							return false
						}
						stores++
					default:
						return false
					}
				}
			}
		}
	}
	p.sentinel[g] = stores == 1
	return stores == 1
}

// ErrNil classifies an error-typed value: 0 = definitely nil, 1 = definitely
// non-nil, 2 = unknown.
func (p *Program) ErrNil(v ssa.Value) int {
	return p.errNil(v, 0)
}

func (p *Program) errNil(v ssa.Value, depth int) int {
	if depth > 6 {
		return 2
	}
	switch x := v.(type) {
	case *ssa.Const:
		if x.Value == nil {
			return 0
		}
	case *ssa.Call:
		if IsErrCtor(x.Common().StaticCallee()) {
			return 1
		}
	case *ssa.MakeInterface:
		// a concrete pointer to a fresh object, or a non-pointer concrete value, is a non-nil interface
		switch y := x.X.(type) {
		case *ssa.Alloc:
			return 1
		default:
			if _, isPtr := y.Type().Underlying().(*types.Pointer); !isPtr {
				if _, isIface := y.Type().Underlying().(*types.Interface); !isIface {
					return 1
				}
			}
		}
	case *ssa.UnOp:
		if x.Op == token.MUL {
			if g, ok := x.X.(*ssa.Global); ok && p.SentinelError(g) {
				return 1
			}
		}
	case *ssa.Phi:
		r := -1
		for _, e := range x.Edges {
			k := p.errNil(e, depth+1)
			if r == -1 {
				r = k
			} else if r != k {
				return 2
			}
		}
		if r >= 0 {
			return r
		}
	case *ssa.ChangeInterface:
		return p.errNil(x.X, depth+1)
	}
	return 2
}

// IsInitFunc: the synthetic package initialiser or a declared `func init()`
// (go/ssa names them init#1, init#2, …; Go allows no other caller than the
// package initialiser). Both run single-threaded before any API call.
func IsInitFunc(f *ssa.Function) bool {
	if f == nil || f.Parent() != nil || f.Signature.Recv() != nil {
		return false
	}
	if f.Synthetic != "" && f.Name() == "init" {
		return true
	}
	return f.Synthetic == "" && len(f.Name()) > 5 && f.Name()[:5] == "init#"
}

// Sizes returns the type sizes of the analysed configuration.
func (p *Program) Sizes() types.Sizes {
	for _, pk := range p.Pkgs {
		if pk.TypesSizes != nil {
			return pk.TypesSizes
		}
	}
	return types.SizesFor("gc", "amd64")
}

// IsOnceLiteral: f is run (only) as the function argument of a (*sync.Once).Do call.
func (p *Program) IsOnceLiteral(f *ssa.Function) bool {
	if p.onceLits == nil {
		p.onceLits = map[*ssa.Function]bool{}
		for _, g := range p.Funcs {
			for _, b := range g.Blocks {
				for _, in := range b.Instrs {
					if c, ok := in.(ssa.CallInstruction); ok {
						if _, lit := StaticCallee(c); lit != nil {
							p.onceLits[lit] = true
						}
					}
				}
			}
		}
	}
	return p.onceLits[f]
}
