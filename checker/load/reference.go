package load

import (
	_ "embed"
	"encoding/json"
	"fmt"
	"go/types"
	"sort"

	"golang.org/x/tools/go/ssa"
)

// The reference table records, for every non-API function of the tree the
// rules were written against, its receiver, signature and callers. When a
// name the table knows is missing from the analysed program and exactly one
// function unknown to the table has the same receiver and signature (and, if
// that is ambiguous, shares a caller), that function is the renamed helper: it
// is registered under the canonical name so that rules anchored on it still
// apply. Anchors only add obligations, so a wrong identification can cause a
// report, never hide one.

//go:embed reference.json
var referenceJSON []byte

type RefFn struct {
	Recv    string   `json:"recv"`
	Sig     string   `json:"sig"`
	Callers []string `json:"callers"`
	Configs []string `json:"configs"`
}

var reference map[string]*RefFn

func init() {
	reference = map[string]*RefFn{}
	if len(referenceJSON) > 0 {
		_ = json.Unmarshal(referenceJSON, &reference)
	}
}

func qual(p *types.Package) string {
	if p == nil {
		return ""
	}
	return p.Name()
}

func sigStrings(f *ssa.Function) (recv, sig string) {
	if r := f.Signature.Recv(); r != nil {
		recv = types.TypeString(r.Type(), qual)
	}
	// parameter and result names are not part of the identity
	sig = "("
	ps := f.Signature.Params()
	for i := 0; i < ps.Len(); i++ {
		if i > 0 {
			sig += ", "
		}
		if f.Signature.Variadic() && i == ps.Len()-1 {
			sig += "..."
		}
		sig += types.TypeString(ps.At(i).Type(), qual)
	}
	sig += ") ("
	rs := f.Signature.Results()
	for i := 0; i < rs.Len(); i++ {
		if i > 0 {
			sig += ", "
		}
		sig += types.TypeString(rs.At(i).Type(), qual)
	}
	return recv, sig + ")"
}

func (p *Program) callersOf() map[*ssa.Function][]*ssa.Function {
	out := map[*ssa.Function][]*ssa.Function{}
	for _, f := range p.Funcs {
		for _, g := range p.Callees(f) {
			out[g] = append(out[g], f)
		}
	}
	return out
}

// ReferenceTable describes the non-API top-level functions of the loaded program.
func (p *Program) ReferenceTable() map[string]*RefFn {
	out := map[string]*RefFn{}
	callers := p.callersOf()
	for _, f := range p.Funcs {
		if f.Parent() != nil || p.IsAPIRoot(f) || f.Synthetic != "" {
			continue
		}
		r, s := sigStrings(f)
		e := &RefFn{Recv: r, Sig: s, Configs: []string{p.Config.Name}}
		seen := map[string]bool{}
		for _, c := range callers[f] {
			for c.Parent() != nil {
				c = c.Parent()
			}
			if n := ShortName(c); !seen[n] {
				seen[n] = true
				e.Callers = append(e.Callers, n)
			}
		}
		sort.Strings(e.Callers)
		out[ShortName(f)] = e
	}
	return out
}

func (p *Program) resolveByReference() {
	if len(reference) == 0 {
		return
	}
	inCfg := func(e *RefFn) bool {
		for _, c := range e.Configs {
			if c == p.Config.Name {
				return true
			}
		}
		return false
	}
	for round := 0; round < 3; round++ {
		var missing []string
		for n, e := range reference {
			if p.ByName[n] == nil && inCfg(e) {
				missing = append(missing, n)
			}
		}
		if len(missing) == 0 {
			return
		}
		sort.Strings(missing)
		var news []*ssa.Function
		for _, f := range p.Funcs {
			if f.Parent() != nil || p.IsAPIRoot(f) || f.Synthetic != "" {
				continue
			}
			if _, taken := aliasOf[f]; taken {
				continue
			}
			if _, known := reference[ShortName(f)]; known {
				continue
			}
			news = append(news, f)
		}
		callers := p.callersOf()
		progress := false
		for _, m := range missing {
			e := reference[m]
			var cands []*ssa.Function
			for _, f := range news {
				if _, taken := aliasOf[f]; taken {
					continue
				}
				r, s := sigStrings(f)
				if r == e.Recv && s == e.Sig && pkgPrefix(f) == pkgPrefixOfName(m) {
					cands = append(cands, f)
				}
			}
			if len(cands) > 1 {
				var narrowed []*ssa.Function
				for _, f := range cands {
					shared := false
					for _, c := range callers[f] {
						for c.Parent() != nil {
							c = c.Parent()
						}
						for _, rc := range e.Callers {
							if ShortName(c) == rc {
								shared = true
							}
						}
					}
					if shared {
						narrowed = append(narrowed, f)
					}
				}
				cands = narrowed
			}
			if len(cands) != 1 {
				continue
			}
			f := cands[0]
			old := ShortName(f)
			aliasOf[f] = m
			p.ByName[m] = f
			p.Notes = append(p.Notes, fmt.Sprintf("internal helper %s is identified by receiver, signature and callers as %s (renamed)", old, m))
			progress = true
		}
		if !progress {
			return
		}
	}
}

func pkgPrefix(f *ssa.Function) string {
	if f.Pkg != nil && f.Pkg.Pkg.Path() == FieldPath {
		return "field."
	}
	return ""
}

func pkgPrefixOfName(n string) string {
	if len(n) > 6 && n[:6] == "field." {
		return "field."
	}
	return ""
}
