// Package load loads /repo (or $VERIF_REPO) for one build configuration,
// type-checks it, lowers it to go/ssa, parses the selected assembly files and
// asserts the structural facts the engines rely on (DESIGN §1).
package load

import (
	"fmt"
	"go/ast"
	"go/token"
	"go/types"
	"os"
	"path/filepath"
	"sort"
	"strings"

	"golang.org/x/tools/go/packages"
	"golang.org/x/tools/go/ssa"
	"golang.org/x/tools/go/ssa/ssautil"

	"verif/checker/asm"
)

const RootPath = "filippo.io/edwards25519"
const FieldPath = "filippo.io/edwards25519/field"

type Config struct {
	Name string
	Env  []string
	Tags string
}

var Configs = map[string]Config{
	"amd64":  {Name: "amd64", Env: []string{"GOARCH=amd64", "GOOS=linux"}},
	"purego": {Name: "purego", Env: []string{"GOARCH=amd64", "GOOS=linux"}, Tags: "purego"},
	"arm64":  {Name: "arm64", Env: []string{"GOARCH=arm64", "GOOS=linux"}},
	"386":    {Name: "386", Env: []string{"GOARCH=386", "GOOS=linux"}},
}

func RepoDir() string {
	if d := os.Getenv("VERIF_REPO"); d != "" {
		return d
	}
	return "/repo"
}

type Program struct {
	Config   Config
	Dir      string
	Fset     *token.FileSet
	Pkgs     []*packages.Package
	Prog     *ssa.Program
	Root     *ssa.Package
	Field    *ssa.Package
	Funcs    []*ssa.Function          // every function with a body or an asm stub in the two packages
	ByName   map[string]*ssa.Function // by RelString-like short name, e.g. "(*Point).Add", "field.(*Element).Add"
	Asm      map[*ssa.Function]*asm.Summary
	AsmFile  []*asm.File
	Files    []string // all source files analysed (Go + .s)
	Problems []string // structural assertion failures (fail closed)
	// FnProblems: structural problems located in one function (scoped by the property drivers)
	FnProblems []FnProblem
	NInstr     int
	guardSem   *GuardSem
	sentinel   map[*ssa.Global]bool
	onceLits   map[*ssa.Function]bool
	Notes      []string
}

type FnProblem struct {
	Fn  *ssa.Function
	Msg string
}

// ShortName gives a stable construct key for a function: "(*Point).Add",
// "field.(*Element).Multiply", "isOnCurve", "basepointTable$1".
func ShortName(f *ssa.Function) string {
	if f == nil {
		return "<nil>"
	}
	if a, ok := aliasOf[f]; ok {
		return a
	}
	if f.Parent() != nil {
		// anonymous function: name is parent$N
		return ShortName(f.Parent()) + strings.TrimPrefix(f.Name(), f.Parent().Name())
	}
	prefix := ""
	if f.Pkg != nil && f.Pkg.Pkg.Path() == FieldPath {
		prefix = "field."
	} else if f.Pkg != nil && f.Pkg.Pkg.Path() != RootPath {
		prefix = f.Pkg.Pkg.Path() + "."
	} else if f.Pkg == nil {
		return f.String()
	}
	if recv := f.Signature.Recv(); recv != nil {
		t := recv.Type()
		star := ""
		if p, ok := t.(*types.Pointer); ok {
			t = p.Elem()
			star = "*"
		}
		name := "?"
		if n, ok := t.(*types.Named); ok {
			name = n.Obj().Name()
		}
		return fmt.Sprintf("%s(%s%s).%s", prefix, star, name, f.Name())
	}
	return prefix + f.Name()
}

func Load(cfgName string) (*Program, error) {
	cfg, ok := Configs[cfgName]
	if !ok {
		return nil, fmt.Errorf("unknown configuration %q", cfgName)
	}
	dir := RepoDir()
	env := []string{}
	for _, e := range os.Environ() {
		if strings.HasPrefix(e, "GOWORK=") || strings.HasPrefix(e, "GOFLAGS=") || strings.HasPrefix(e, "GOARCH=") || strings.HasPrefix(e, "GOOS=") {
			continue
		}
		env = append(env, e)
	}
	env = append(env, "GOWORK=off", "GOFLAGS=-mod=mod", "GOPROXY=off", "GOSUMDB=off", "GOTOOLCHAIN=local", "CGO_ENABLED=0")
	env = append(env, cfg.Env...)
	pc := &packages.Config{
		Mode: packages.NeedName | packages.NeedFiles | packages.NeedCompiledGoFiles | packages.NeedImports |
			packages.NeedTypes | packages.NeedTypesSizes | packages.NeedSyntax | packages.NeedTypesInfo | packages.NeedModule,
		Dir:   dir,
		Env:   env,
		Tests: false,
	}
	if cfg.Tags != "" {
		pc.BuildFlags = []string{"-tags=" + cfg.Tags}
	}
	pkgs, err := packages.Load(pc, "./...")
	if err != nil {
		return nil, fmt.Errorf("packages.Load: %v", err)
	}
	p := &Program{Config: cfg, Dir: dir, Pkgs: pkgs, ByName: map[string]*ssa.Function{}, Asm: map[*ssa.Function]*asm.Summary{}}
	if len(pkgs) < 2 {
		return nil, fmt.Errorf("expected >= 2 packages under %s, got %d", dir, len(pkgs))
	}
	nerr := 0
	for _, pk := range pkgs {
		for _, e := range pk.Errors {
			nerr++
			p.Problems = append(p.Problems, fmt.Sprintf("load error in %s: %v", pk.PkgPath, e))
		}
		if pk.Fset != nil {
			p.Fset = pk.Fset
		}
	}
	if nerr > 0 {
		return p, fmt.Errorf("%d load/type errors: %s", nerr, strings.Join(p.Problems, "; "))
	}
	// generic functions are analysed as their instantiations (monomorphised bodies with statically resolved calls)
	prog, spkgs := ssautil.Packages(pkgs, ssa.InstantiateGenerics)
	p.Prog = prog
	for i, sp := range spkgs {
		if sp == nil {
			return p, fmt.Errorf("no SSA package for %s", pkgs[i].PkgPath)
		}
		switch sp.Pkg.Path() {
		case RootPath:
			p.Root = sp
		case FieldPath:
			p.Field = sp
		default:
			p.Problems = append(p.Problems, "unexpected package in module: "+sp.Pkg.Path()+" (not analysed)")
		}
	}
	if p.Root == nil || p.Field == nil {
		return p, fmt.Errorf("packages %s and %s not both found", RootPath, FieldPath)
	}
	prog.Build()

	// source files
	for _, pk := range pkgs {
		p.Files = append(p.Files, pk.CompiledGoFiles...)
		for _, of := range pk.OtherFiles {
			p.Files = append(p.Files, of)
			if strings.HasSuffix(of, ".s") {
				af, err := asm.ParseFile(of)
				if err != nil {
					return p, err
				}
				p.AsmFile = append(p.AsmFile, af)
			}
		}
	}
	sort.Strings(p.Files)

	// functions
	seen := map[*ssa.Function]bool{}
	var add func(f *ssa.Function)
	add = func(f *ssa.Function) {
		if f == nil || seen[f] || f.Synthetic != "" && f.Name() != "init" {
			return
		}
		seen[f] = true
		p.Funcs = append(p.Funcs, f)
		for _, a := range f.AnonFuncs {
			add(a)
		}
	}
	for _, sp := range []*ssa.Package{p.Field, p.Root} {
		var names []string
		for n := range sp.Members {
			names = append(names, n)
		}
		sort.Strings(names)
		for _, n := range names {
			switch m := sp.Members[n].(type) {
			case *ssa.Function:
				add(m)
			case *ssa.Type:
				for _, t := range []types.Type{m.Type(), types.NewPointer(m.Type())} {
					ms := prog.MethodSets.MethodSet(t)
					for i := 0; i < ms.Len(); i++ {
						fn := prog.MethodValue(ms.At(i))
						if fn != nil && fn.Synthetic == "" {
							add(fn)
						}
					}
				}
			}
		}
	}
	// instantiations of generic functions and of methods of generic types belong to the package of their origin
	var insts []*ssa.Function
	for fn := range ssautil.AllFunctions(prog) {
		if o := fn.Origin(); o != nil && o != fn && (o.Pkg == p.Root || o.Pkg == p.Field) {
			insts = append(insts, fn)
		}
	}
	sort.Slice(insts, func(i, j int) bool { return insts[i].String() < insts[j].String() })
	for _, fn := range insts {
		if fn.Pkg == nil {
			fn.Pkg = fn.Origin().Pkg
		}
		add(fn)
	}
	// the uninstantiated generic bodies are not code that runs
	kept := p.Funcs[:0]
	for _, f := range p.Funcs {
		if isGenericOrigin(f) {
			continue
		}
		kept = append(kept, f)
	}
	p.Funcs = kept
	sort.SliceStable(p.Funcs, func(i, j int) bool { return ShortName(p.Funcs[i]) < ShortName(p.Funcs[j]) })
	for _, f := range p.Funcs {
		bindConvertedCallees(f)
	}
	for _, f := range p.Funcs {
		p.ByName[ShortName(f)] = f
		for _, b := range f.Blocks {
			p.NInstr += len(b.Instrs)
		}
	}
	// bind asm bodies to stubs
	asmByName := map[string]*asm.Func{}
	for _, af := range p.AsmFile {
		for _, fn := range af.Funcs {
			fn.Undecided = append(fn.Undecided, af.Undecided...)
			asmByName[fn.Name] = fn
		}
	}
	for _, f := range p.Funcs {
		if len(f.Blocks) == 0 {
			af, ok := asmByName[f.Name()]
			if !ok || f.Pkg != p.Field {
				p.Problems = append(p.Problems, fmt.Sprintf("function %s has no body and no assembly in the selected files", ShortName(f)))
				continue
			}
			p.Asm[f] = asm.Summarize(af)
			delete(asmByName, f.Name())
		}
	}
	for n := range asmByName {
		p.Problems = append(p.Problems, "assembly TEXT "+n+" has no Go declaration")
	}
	p.resolveReceiverKinds()
	p.resolveAliases()
	p.resolveByReference()
	p.assertStructure()
	return p, nil
}

func (p *Program) InRepo(f *ssa.Function) bool {
	return f != nil && f.Pkg != nil && (f.Pkg == p.Root || f.Pkg == p.Field)
}

// APIRoots are the exported package-level functions and the exported-name
// methods on exported named types.
func (p *Program) APIRoots() []*ssa.Function {
	var out []*ssa.Function
	for _, f := range p.Funcs {
		if p.IsAPIRoot(f) {
			out = append(out, f)
		}
	}
	return out
}

func (p *Program) IsAPIRoot(f *ssa.Function) bool {
	if f.Parent() != nil || !p.InRepo(f) || f.Synthetic != "" {
		return false
	}
	if !ast.IsExported(f.Name()) {
		return false
	}
	if recv := f.Signature.Recv(); recv != nil {
		t := recv.Type()
		if pt, ok := t.(*types.Pointer); ok {
			t = pt.Elem()
		}
		n, ok := t.(*types.Named)
		if !ok || !n.Obj().Exported() {
			return false
		}
	}
	return true
}

func (p *Program) Rel(pos token.Pos) string {
	if !pos.IsValid() {
		return "-"
	}
	ps := p.Fset.Position(pos)
	rel, err := filepath.Rel(p.Dir, ps.Filename)
	if err != nil {
		rel = ps.Filename
	}
	return fmt.Sprintf("%s:%d", rel, ps.Line)
}

func (p *Program) RelFile(path string) string {
	rel, err := filepath.Rel(p.Dir, path)
	if err != nil {
		return path
	}
	return rel
}

// StaticCallee resolves the callee of a call instruction; (*sync.Once).Do(f)
// with a function-literal or method-value argument resolves to (Do, f). Bound
// method wrappers (method values) are resolved to the method itself.
func StaticCallee(c ssa.CallInstruction) (callee *ssa.Function, onceLit *ssa.Function) {
	cc := c.Common()
	callee = unbound(cc.StaticCallee())
	if callee != nil && callee.Pkg != nil && callee.Pkg.Pkg.Path() == "sync" && callee.Name() == "Do" && len(cc.Args) == 2 {
		switch a := cc.Args[1].(type) {
		case *ssa.Function:
			onceLit = a
		case *ssa.MakeClosure:
			onceLit, _ = a.Fn.(*ssa.Function)
		}
		onceLit = unbound(onceLit)
	}
	return
}

func isBound(f *ssa.Function) bool {
	return f != nil && strings.HasPrefix(f.Synthetic, "bound method wrapper")
}

// unbound maps a bound method wrapper to the method it wraps.
func unbound(f *ssa.Function) *ssa.Function {
	if !isBound(f) {
		return f
	}
	if m, ok := f.Object().(*types.Func); ok {
		if real := f.Prog.FuncValue(m); real != nil {
			return real
		}
	}
	return f
}

// Formals are the values a function body starts from: its parameters followed
// by its free variables. Closures are analysed as if lambda-lifted: a free
// variable is a pointer parameter bound at the MakeClosure site.
func Formals(f *ssa.Function) []ssa.Value {
	out := make([]ssa.Value, 0, len(f.Params)+len(f.FreeVars))
	for _, p := range f.Params {
		out = append(out, p)
	}
	for _, v := range f.FreeVars {
		out = append(out, v)
	}
	return out
}

func closureActuals(fn *ssa.Function, args []ssa.Value, bindings []ssa.Value) []ssa.Value {
	if isBound(fn) {
		// wrapper(args...) calls method(recv, args...) with recv = the single binding
		return append(append([]ssa.Value{}, bindings...), args...)
	}
	return append(append([]ssa.Value{}, args...), bindings...)
}

// Actuals are the caller's values matching Formals(callee) of StaticCallee(c).
func Actuals(c ssa.CallInstruction) []ssa.Value {
	cc := c.Common()
	if mc, ok := cc.Value.(*ssa.MakeClosure); ok {
		fn, _ := mc.Fn.(*ssa.Function)
		return closureActuals(fn, cc.Args, mc.Bindings)
	}
	return cc.Args
}

// OnceActuals are the caller's values matching Formals(lit) for the function passed to (*sync.Once).Do.
func OnceActuals(c ssa.CallInstruction) []ssa.Value {
	cc := c.Common()
	if len(cc.Args) == 2 {
		if mc, ok := cc.Args[1].(*ssa.MakeClosure); ok {
			fn, _ := mc.Fn.(*ssa.Function)
			return closureActuals(fn, nil, mc.Bindings)
		}
	}
	return nil
}

// assertStructure checks the facts of DESIGN §1 that the engines rely on.
func (p *Program) assertStructure() {
	bad := func(f *ssa.Function, in ssa.Instruction, what string) {
		p.FnProblems = append(p.FnProblems, FnProblem{Fn: f, Msg: fmt.Sprintf("STRUCTURE %s %s: %s", p.Rel(in.Pos()), ShortName(f), what)})
	}
	for _, pk := range p.Pkgs {
		for imp := range pk.Imports {
			if imp == "unsafe" || imp == "reflect" || imp == "C" {
				p.Problems = append(p.Problems, fmt.Sprintf("STRUCTURE package %s imports %s", pk.PkgPath, imp))
			}
		}
	}
	for _, f := range p.Funcs {
		for _, b := range f.Blocks {
			for _, in := range b.Instrs {
				switch x := in.(type) {
				case *ssa.Go:
					bad(f, in, "go statement")
				case *ssa.Defer:
					if cal := x.Common().StaticCallee(); cal == nil || cal.Pkg == nil || cal.Pkg.Pkg.Path() != "sync" {
						bad(f, in, "defer statement (only deferred sync unlocks are modelled)")
					}
				case *ssa.Send, *ssa.Select, *ssa.MakeChan:
					bad(f, in, "channel operation")
				case *ssa.MapUpdate, *ssa.MakeMap, *ssa.Lookup, *ssa.Range, *ssa.Next:
					bad(f, in, "map/range-over-map/string operation")
				case *ssa.TypeAssert:
					bad(f, in, "type assertion")
				case *ssa.MakeClosure:
					// closures are analysed lambda-lifted (Formals/Actuals); the closure value itself must only be
					// called directly or handed to sync.Once.Do
					for _, ref := range *x.Referrers() {
						switch r := ref.(type) {
						case *ssa.DebugRef:
						case ssa.CallInstruction:
							if r.Common().Value == ssa.Value(x) {
								continue
							}
							if cal := r.Common().StaticCallee(); cal != nil && cal.Pkg != nil && cal.Pkg.Pkg.Path() == "sync" && cal.Name() == "Do" {
								continue
							}
							bad(f, in, "closure passed to a function other than sync.Once.Do")
						default:
							bad(f, in, "closure value stored or combined (only direct calls are modelled)")
						}
					}
				case *ssa.Call:
					cc := x.Common()
					if cc.IsInvoke() && IsErrorMethodCall(cc) {
						// err.Error(): the text of an error value (to put it into a panic message); the error values of
						// these packages are errors.New / fmt.Errorf values, whose Error method only reads its own string
						continue
					}
					if cc.IsInvoke() {
						bad(f, in, "interface method call")
					} else if cc.StaticCallee() == nil {
						if _, ok := cc.Value.(*ssa.Builtin); !ok {
							bad(f, in, "dynamic call")
						}
					}
				}
			}
		}
	}
}

// Callees returns the static in-repo callees of f (Once literals included).
func (p *Program) Callees(f *ssa.Function) []*ssa.Function {
	var out []*ssa.Function
	seen := map[*ssa.Function]bool{}
	for _, b := range f.Blocks {
		for _, in := range b.Instrs {
			c, ok := in.(ssa.CallInstruction)
			if !ok {
				continue
			}
			callee, lit := StaticCallee(c)
			for _, g := range []*ssa.Function{callee, lit} {
				if g != nil && p.InRepo(g) && !seen[g] {
					seen[g] = true
					out = append(out, g)
				}
			}
		}
	}
	return out
}

// TopoOrder returns the functions callees-first; it reports recursion.
func (p *Program) TopoOrder() ([]*ssa.Function, error) {
	state := map[*ssa.Function]int{}
	var order []*ssa.Function
	var cyc error
	var visit func(f *ssa.Function)
	visit = func(f *ssa.Function) {
		switch state[f] {
		case 1:
			cyc = fmt.Errorf("recursion through %s", ShortName(f))
			return
		case 2:
			return
		}
		state[f] = 1
		for _, g := range p.Callees(f) {
			visit(g)
		}
		state[f] = 2
		order = append(order, f)
	}
	for _, f := range p.Funcs {
		visit(f)
	}
	return order, cyc
}

// Reachable returns the set of in-repo functions reachable from roots.
func (p *Program) Reachable(roots []*ssa.Function) map[*ssa.Function]bool {
	seen := map[*ssa.Function]bool{}
	var visit func(f *ssa.Function)
	visit = func(f *ssa.Function) {
		if seen[f] {
			return
		}
		seen[f] = true
		for _, g := range p.Callees(f) {
			visit(g)
		}
	}
	for _, r := range roots {
		visit(r)
	}
	return seen
}

// ShortName0 is the key prefix of a package ("" for the root package, "field." for field).
func ShortName0(sp *ssa.Package) string {
	if sp.Pkg.Path() == FieldPath {
		return "field."
	}
	return ""
}

// isGenericOrigin: a generic function or method as declared (with type parameters not yet bound).
func isGenericOrigin(f *ssa.Function) bool {
	if f.Parent() != nil {
		return isGenericOrigin(f.Parent())
	}
	if f.TypeParams().Len() > 0 && len(f.TypeArgs()) == 0 {
		return true
	}
	if recv := f.Signature.Recv(); recv != nil && len(f.TypeArgs()) == 0 {
		t := recv.Type()
		if pt, ok := t.(*types.Pointer); ok {
			t = pt.Elem()
		}
		if n, ok := t.(*types.Named); ok && n.TypeParams().Len() > 0 && n.TypeArgs().Len() == 0 {
			return true
		}
	}
	return false
}

// IsErrorMethodCall: the call is err.Error() on a value of the predeclared interface type error.
func IsErrorMethodCall(cc *ssa.CallCommon) bool {
	return cc.IsInvoke() && cc.Method != nil && cc.Method.Name() == "Error" && len(cc.Args) == 0 &&
		types.Identical(cc.Value.Type(), types.Universe.Lookup("error").Type())
}

// bindConvertedCallees: a call through a function value that is a known function converted to a named function
// type (`type adder func(...)`; `var add adder = (*T).M`; `add(x)`) is a static call of that function — the
// conversion changes the type's name only. The call is rebound to the function so that every engine resolves it.
func bindConvertedCallees(f *ssa.Function) {
	for _, b := range f.Blocks {
		for _, in := range b.Instrs {
			ci, ok := in.(ssa.CallInstruction)
			if !ok {
				continue
			}
			cc := ci.Common()
			if cc.IsInvoke() {
				continue
			}
			v := cc.Value
			for {
				ct, isCT := v.(*ssa.ChangeType)
				if !isCT {
					break
				}
				v = ct.X
			}
			if fn, isFn := v.(*ssa.Function); isFn && v != cc.Value {
				if m := thunkTarget(fn); m != nil {
					fn = m
				}
				cc.Value = fn
			}
		}
	}
}

// thunkTarget: for the synthetic wrapper of a method expression ((*T).M as a function value: "M$thunk"), the
// method it forwards all its parameters to, in order; nil if f is not such a wrapper.
func thunkTarget(f *ssa.Function) *ssa.Function {
	if f.Synthetic == "" || !strings.HasSuffix(f.Name(), "$thunk") || len(f.Blocks) != 1 {
		return nil
	}
	var call *ssa.Call
	for _, in := range f.Blocks[0].Instrs {
		switch x := in.(type) {
		case *ssa.Call:
			if call != nil {
				return nil
			}
			call = x
		case *ssa.Return, *ssa.DebugRef:
		default:
			return nil
		}
	}
	if call == nil || call.Call.IsInvoke() {
		return nil
	}
	m := call.Call.StaticCallee()
	if m == nil || len(call.Call.Args) != len(f.Params) {
		return nil
	}
	for i, a := range call.Call.Args {
		if a != ssa.Value(f.Params[i]) {
			return nil
		}
	}
	return m
}
