package load

import (
	"go/constant"
	"go/token"
	"go/types"

	"golang.org/x/tools/go/ssa"
)

// Guard semantics. The initialisation guard of the library ("a Point whose x
// and y are both the zero Element was never set: panic") may be written in any
// shape: one variadic function with a loop, a predicate plus a per-point
// method plus a slice helper, an inline test. What every rule needs to know is
// semantic: *if the inspected Point has the zero pattern, which instructions
// can still be reached?* This file answers that by a conditional constant
// propagation over go/ssa in which the only unknowns that are given values are
// the two atoms of ONE inspected Point:
//
//	X0 = "its x coordinate compares equal to the zero Element"
//	Y0 = "its y coordinate compares equal to the zero Element"
//
// Everything else is unknown (both successors of a branch are feasible). Calls
// into the two packages are summarised by running the callee with the
// corresponding subject (the call graph is a DAG).

type GAssign struct{ X0, Y0 bool }

var GZero = GAssign{true, true}
var GAll = []GAssign{{true, true}, {true, false}, {false, true}, {false, false}}

// GSubject names the inspected Point inside a function.
type GSubject struct {
	Param int     // index into f.Params
	Elem  bool    // "some element of the []*Point parameter" (its atoms are not observable through loads; only whole-slice guards decide)
	Loop  *ssa.If // loop mode: the subject is the element fetched at the index this loop condition tests; the loop is entered and back edges end the run
}

type gkind uint8

const (
	gBot gkind = iota
	gTop
	gInt
	gSubj
	gAddrX
	gAddrY
	gAddrZero
	gElemX
	gElemY
	gElemZero
	gVarargs
	gVarSlice
	gSliceParam
)

type gval struct {
	k  gkind
	n  int64
	al *ssa.Alloc
}

func gmeet(a, b gval) gval {
	if a.k == gBot {
		return b
	}
	if b.k == gBot {
		return a
	}
	if a == b {
		return a
	}
	return gval{k: gTop}
}

type gedge struct{ from, to *ssa.BasicBlock }

// GRun is the result of one run: what is reachable under the assignment.
type GRun struct {
	F         *ssa.Function
	Subj      GSubject
	A         GAssign
	Reach     map[*ssa.BasicBlock]bool
	cut       map[*ssa.BasicBlock]int // index of the instruction at which the block stops (a call that cannot return); -1 = runs to its end
	MayReturn bool
	ret       gval
	Continued bool              // loop mode: a back edge to the loop header was taken
	Panics    []ssa.Instruction // reachable panic instructions and calls that cannot return
	feas      map[gedge]bool
	vals      map[ssa.Value]gval
	inprog    map[ssa.Value]bool
	g         *GuardSem
}

// Reachable reports whether instruction in can execute under the run's assignment.
func (r *GRun) Reachable(in ssa.Instruction) bool {
	b := in.Block()
	if b == nil || !r.Reach[b] {
		return false
	}
	c, ok := r.cut[b]
	if !ok || c < 0 {
		return true
	}
	for i, x := range b.Instrs {
		if x == in {
			return i <= c
		}
	}
	return false
}

// Val returns the value of a boolean/integer SSA value under the run, if determined.
func (r *GRun) Val(v ssa.Value) (int64, bool) {
	x := r.eval(v)
	return x.n, x.k == gInt
}

// Ret returns the (boolean/integer) result 0 of the function under the run, if determined.
func (r *GRun) Ret() (int64, bool) { return r.ret.n, r.ret.k == gInt && r.MayReturn }

type grunKey struct {
	f    *ssa.Function
	subj GSubject
	a    GAssign
}

// LoopInfo describes a loop `for idx := 0; idx < len(param); idx++` with respect to the guard.
type LoopInfo struct {
	Param     int
	IsLoop    bool   // the branch is such a loop header over a []*Point parameter
	Candidate bool   // its body takes decisions on the element's atoms
	OK        bool   // and is exactly the guard: panics iff x and y are both zero, otherwise goes on to the next element; no other exit
	Why       string // when Candidate && !OK
	Runs      map[GAssign]*GRun
}

type GuardSem struct {
	p     *Program
	memo  map[grunKey]*GRun
	loops map[*ssa.If]*LoopInfo
	pure  map[*ssa.Function]int
}

func (p *Program) Guards() *GuardSem {
	if p.guardSem == nil {
		p.guardSem = &GuardSem{p: p, memo: map[grunKey]*GRun{}, loops: map[*ssa.If]*LoopInfo{}, pure: map[*ssa.Function]int{}}
	}
	return p.guardSem
}

func IsPointPtr(t types.Type) bool { return isPtrToNamed(t, RootPath, "Point") }

func IsPointSlice(t types.Type) bool {
	s, ok := t.Underlying().(*types.Slice)
	return ok && IsPointPtr(s.Elem())
}

func isElementType(t types.Type) bool {
	n, ok := t.(*types.Named)
	return ok && n.Obj().Name() == "Element" && n.Obj().Pkg() != nil && n.Obj().Pkg().Path() == FieldPath
}

// Run evaluates f with the given subject under assignment a.
func (g *GuardSem) Run(f *ssa.Function, subj GSubject, a GAssign) *GRun {
	k := grunKey{f, subj, a}
	if r, ok := g.memo[k]; ok {
		return r
	}
	r := &GRun{F: f, Subj: subj, A: a, feas: map[gedge]bool{}, g: g, MayReturn: true, ret: gval{k: gTop}}
	g.memo[k] = r // a (non-existent) recursive cycle sees "may return, unknown"
	if len(f.Blocks) == 0 {
		r.Reach = map[*ssa.BasicBlock]bool{}
		return r
	}
	for pass := 0; pass < 4*len(f.Blocks)+8; pass++ {
		n := len(r.feas)
		r.pass()
		if len(r.feas) == n {
			break
		}
	}
	return r
}

func (r *GRun) pass() {
	f := r.F
	r.vals = map[ssa.Value]gval{}
	r.inprog = map[ssa.Value]bool{}
	r.Reach = map[*ssa.BasicBlock]bool{}
	r.cut = map[*ssa.BasicBlock]int{}
	r.MayReturn = false
	r.ret = gval{}
	r.Continued = false
	r.Panics = nil
	var header *ssa.BasicBlock
	if r.Subj.Loop != nil {
		header = r.Subj.Loop.Block()
	}
	work := []*ssa.BasicBlock{f.Blocks[0]}
	r.Reach[f.Blocks[0]] = true
	edge := func(from, to *ssa.BasicBlock) {
		if header != nil && to == header && header.Dominates(from) {
			r.Continued = true
			return
		}
		r.feas[gedge{from, to}] = true
		if !r.Reach[to] {
			r.Reach[to] = true
			work = append(work, to)
		}
	}
	for len(work) > 0 {
		b := work[len(work)-1]
		work = work[:len(work)-1]
		r.cut[b] = -1
	instrs:
		for i, in := range b.Instrs {
			switch x := in.(type) {
			case *ssa.Call:
				_, noReturn := r.call(x)
				if noReturn {
					r.cut[b] = i
					r.Panics = append(r.Panics, in)
					break instrs
				}
			case *ssa.Panic:
				r.Panics = append(r.Panics, in)
			case *ssa.Return:
				r.MayReturn = true
				if len(x.Results) > 0 {
					r.ret = gmeet(r.ret, r.eval(x.Results[0]))
				} else {
					r.ret = gval{k: gTop}
				}
			case *ssa.Jump:
				edge(b, b.Succs[0])
			case *ssa.If:
				if r.Subj.Loop == x {
					edge(b, b.Succs[r.g.inRangeSide(x)])
					continue
				}
				if r.Subj.Elem && r.Subj.Loop == nil && r.A == GZero {
					if li := r.g.GuardLoop(f, x); li.OK && li.Param == r.Subj.Param {
						// some element has the zero pattern and this loop panics on it: the loop never ends normally
						edge(b, b.Succs[r.g.inRangeSide(x)])
						continue
					}
				}
				c := r.eval(x.Cond)
				if c.k == gInt {
					if c.n != 0 {
						edge(b, b.Succs[0])
					} else {
						edge(b, b.Succs[1])
					}
				} else if c.k != gBot {
					edge(b, b.Succs[0])
					edge(b, b.Succs[1])
				}
			}
		}
	}
}

func (g *GuardSem) inRangeSide(ifi *ssa.If) int {
	bo := ifi.Cond.(*ssa.BinOp)
	_ = bo
	return 0 // idx < len(param) and len(param) > idx are both true when in range
}

func (r *GRun) eval(v ssa.Value) gval {
	if x, ok := r.vals[v]; ok {
		return x
	}
	if r.inprog[v] {
		return gval{}
	}
	r.inprog[v] = true
	x := r.eval1(v)
	delete(r.inprog, v)
	r.vals[v] = x
	return x
}

func (r *GRun) atom(k gkind) gval {
	b := r.A.X0
	if k == gElemY {
		b = r.A.Y0
	}
	if b {
		return gval{k: gInt, n: 1}
	}
	return gval{k: gInt, n: 0}
}

func gbool(b bool) gval {
	if b {
		return gval{k: gInt, n: 1}
	}
	return gval{k: gInt, n: 0}
}

func (r *GRun) eval1(v ssa.Value) gval {
	top := gval{k: gTop}
	f := r.F
	switch x := v.(type) {
	case *ssa.Const:
		if x.Value == nil {
			if isElementType(x.Type()) {
				return gval{k: gElemZero}
			}
			return top
		}
		switch x.Value.Kind() {
		case constant.Bool:
			return gbool(constant.BoolVal(x.Value))
		case constant.Int:
			if n, ok := constant.Int64Val(x.Value); ok {
				return gval{k: gInt, n: n}
			}
		}
		return top
	case *ssa.Parameter:
		if r.Subj.Param < len(f.Params) && x == f.Params[r.Subj.Param] {
			if r.Subj.Elem || r.Subj.Loop != nil {
				return gval{k: gSliceParam}
			}
			return gval{k: gSubj}
		}
		return top
	case *ssa.Alloc:
		if x.Comment == "varargs" {
			return gval{k: gVarargs, al: x}
		}
		if isElementType(x.Type().(*types.Pointer).Elem()) && neverWritten(x) {
			return gval{k: gAddrZero}
		}
		return top
	case *ssa.FieldAddr:
		if r.eval(x.X).k == gSubj {
			switch FieldName(x.X.Type().Underlying().(*types.Pointer).Elem(), x.Field) {
			case "x":
				return gval{k: gAddrX}
			case "y":
				return gval{k: gAddrY}
			}
		}
		return top
	case *ssa.UnOp:
		switch x.Op {
		case token.MUL:
			if r.Subj.Loop != nil && r.g.isLoopElem(f, r.Subj, x) {
				return gval{k: gSubj}
			}
			switch r.eval(x.X).k {
			case gAddrX:
				return gval{k: gElemX}
			case gAddrY:
				return gval{k: gElemY}
			case gAddrZero:
				return gval{k: gElemZero}
			case gBot:
				return gval{}
			}
		case token.NOT:
			c := r.eval(x.X)
			if c.k == gInt {
				return gbool(c.n == 0)
			}
			if c.k == gBot {
				return c
			}
		}
		return top
	case *ssa.BinOp:
		l, rr := r.eval(x.X), r.eval(x.Y)
		if l.k == gBot || rr.k == gBot {
			return gval{}
		}
		switch x.Op {
		case token.EQL, token.NEQ:
			var res gval
			switch {
			case (l.k == gElemX || l.k == gElemY) && rr.k == gElemZero:
				res = r.atom(l.k)
			case (rr.k == gElemX || rr.k == gElemY) && l.k == gElemZero:
				res = r.atom(rr.k)
			case l.k == gElemZero && rr.k == gElemZero:
				res = gbool(true)
			case l.k == gInt && rr.k == gInt:
				res = gbool(l.n == rr.n)
			default:
				return top
			}
			if x.Op == token.NEQ {
				res = gbool(res.n == 0)
			}
			return res
		case token.AND:
			if l.k == gInt && rr.k == gInt {
				return gval{k: gInt, n: l.n & rr.n}
			}
			if (l.k == gInt && l.n == 0) || (rr.k == gInt && rr.n == 0) {
				return gval{k: gInt, n: 0}
			}
		case token.OR:
			if l.k == gInt && rr.k == gInt {
				return gval{k: gInt, n: l.n | rr.n}
			}
		case token.XOR:
			if l.k == gInt && rr.k == gInt {
				return gval{k: gInt, n: l.n ^ rr.n}
			}
		}
		return top
	case *ssa.Phi:
		var acc gval
		for i, e := range x.Edges {
			if r.feas[gedge{x.Block().Preds[i], x.Block()}] {
				acc = gmeet(acc, r.eval(e))
			}
		}
		return acc
	case *ssa.Slice:
		if b := r.eval(x.X); b.k == gVarargs && x.Low == nil && x.High == nil {
			return gval{k: gVarSlice, al: b.al}
		}
		return top
	case *ssa.Call:
		ret, _ := r.call(x)
		return ret
	}
	return top
}

// NeverWritten: the local is only ever read (it holds the zero value of its type).
func NeverWritten(a *ssa.Alloc) bool { return neverWritten(a) }

func neverWritten(a *ssa.Alloc) bool {
	for _, ref := range *a.Referrers() {
		switch x := ref.(type) {
		case *ssa.UnOp:
			if x.Op != token.MUL {
				return false
			}
		case *ssa.DebugRef:
		case *ssa.Call:
			// only as the "other" operand of a read-only comparison
			h := x.Common().StaticCallee()
			if h == nil || ShortName(h) != "field.(*Element).Equal" {
				return false
			}
		default:
			return false
		}
	}
	return true
}

// slots returns the values stored into a varargs array.
func (r *GRun) slots(al *ssa.Alloc) []gval {
	var out []gval
	for _, ref := range *al.Referrers() {
		ia, ok := ref.(*ssa.IndexAddr)
		if !ok {
			continue
		}
		for _, ref2 := range *ia.Referrers() {
			if st, ok := ref2.(*ssa.Store); ok && st.Addr == ssa.Value(ia) {
				out = append(out, r.eval(st.Val))
			}
		}
	}
	return out
}

// call evaluates a call: its (first) result, and whether it can return at all.
func (r *GRun) call(c *ssa.Call) (gval, bool) {
	top := gval{k: gTop}
	cc := c.Common()
	if _, ok := cc.Value.(*ssa.Builtin); ok {
		return top, false
	}
	h := cc.StaticCallee()
	if h == nil {
		return top, false
	}
	h = unbound(h)
	args := cc.Args
	if ShortName(h) == "field.(*Element).Equal" && len(args) == 2 {
		a, b := r.eval(args[0]).k, r.eval(args[1]).k
		if (a == gAddrX || a == gAddrY) && b == gAddrZero {
			return r.atom(map[gkind]gkind{gAddrX: gElemX, gAddrY: gElemY}[a]), false
		}
		if (b == gAddrX || b == gAddrY) && a == gAddrZero {
			return r.atom(map[gkind]gkind{gAddrX: gElemX, gAddrY: gElemY}[b]), false
		}
		return top, false
	}
	if !r.g.p.InRepo(h) || len(h.Blocks) == 0 || len(args) != len(h.Params) {
		return top, false
	}
	ret := top
	noReturn := false
	n := 0
	for j, a := range args {
		v := r.eval(a)
		var sub *GRun
		switch v.k {
		case gSubj:
			sub = r.g.Run(h, GSubject{Param: j}, r.A)
		case gVarSlice:
			has := false
			for _, s := range r.slots(v.al) {
				if s.k == gSubj {
					has = true
				}
			}
			if has && IsPointSlice(h.Params[j].Type()) {
				sub = r.g.Run(h, GSubject{Param: j, Elem: true}, r.A)
			}
		case gSliceParam:
			if r.Subj.Elem && r.Subj.Loop == nil && IsPointSlice(h.Params[j].Type()) {
				sub = r.g.Run(h, GSubject{Param: j, Elem: true}, r.A)
			}
		}
		if sub == nil {
			continue
		}
		n++
		if !sub.MayReturn {
			noReturn = true
		}
		if n == 1 {
			ret = sub.ret
			if ret.k == gBot {
				ret = top
			}
		} else {
			ret = top
		}
	}
	return ret, noReturn
}

// isLoopElem: x loads the element of the slice parameter at the loop's index.
func (g *GuardSem) isLoopElem(f *ssa.Function, subj GSubject, x *ssa.UnOp) bool {
	ia, ok := x.X.(*ssa.IndexAddr)
	if !ok || ia.X != ssa.Value(f.Params[subj.Param]) {
		return false
	}
	idx, _, ok := loopShape(f, subj.Loop)
	return ok && ia.Index == idx
}

// loopShape recognises `idx < len(param)` (either operand order) with idx an
// induction variable 0,1,2,… and param a []*Point parameter.
func loopShape(f *ssa.Function, ifi *ssa.If) (idx ssa.Value, param int, ok bool) {
	bo, isB := ifi.Cond.(*ssa.BinOp)
	if !isB {
		return nil, 0, false
	}
	cx, cy := bo.X, bo.Y
	switch bo.Op {
	case token.LSS:
	case token.GTR:
		cx, cy = cy, cx
	default:
		return nil, 0, false
	}
	lc, isC := cy.(*ssa.Call)
	if !isC {
		return nil, 0, false
	}
	bi, isBi := lc.Common().Value.(*ssa.Builtin)
	if !isBi || bi.Name() != "len" {
		return nil, 0, false
	}
	param = -1
	for i, p := range f.Params {
		if lc.Common().Args[0] == ssa.Value(p) && IsPointSlice(p.Type()) {
			param = i
		}
	}
	if param < 0 {
		return nil, 0, false
	}
	start, step, isInd := Induction(cx)
	if !isInd || start != 0 || step != 1 {
		return nil, 0, false
	}
	return cx, param, true
}

// GuardLoop classifies a branch as a guard loop over a []*Point parameter.
func (g *GuardSem) GuardLoop(f *ssa.Function, ifi *ssa.If) *LoopInfo {
	if li, ok := g.loops[ifi]; ok {
		return li
	}
	li := &LoopInfo{}
	g.loops[ifi] = li
	_, param, ok := loopShape(f, ifi)
	if !ok {
		return li
	}
	li.IsLoop, li.Param = true, param
	li.Runs = map[GAssign]*GRun{}
	exit := ifi.Block().Succs[1]
	for _, a := range GAll {
		li.Runs[a] = g.Run(f, GSubject{Param: param, Loop: ifi}, a)
	}
	// only what happens inside the loop body counts (a panic before the loop, e.g. the length check, does not)
	body := ifi.Block().Succs[0]
	for _, a := range GAll {
		var in []ssa.Instruction
		for _, p := range li.Runs[a].Panics {
			if body == p.Block() || body.Dominates(p.Block()) {
				in = append(in, p)
			}
		}
		r := *li.Runs[a]
		r.Panics = in
		li.Runs[a] = &r
	}
	z := li.Runs[GZero]
	for _, a := range GAll {
		if len(li.Runs[a].Panics) != len(z.Panics) || li.Runs[a].Continued != z.Continued {
			li.Candidate = true
		}
	}
	if !li.Candidate {
		return li
	}
	fail := func(s string) *LoopInfo { li.Why = s; return li }
	if len(z.Panics) == 0 {
		return fail("an element with x and y both zero does not panic")
	}
	if z.Continued || z.MayReturn || z.Reach[exit] {
		return fail("an element with x and y both zero can be passed over without a panic")
	}
	for _, a := range GAll[1:] {
		r := li.Runs[a]
		what := map[GAssign]string{{true, false}: "x zero, y non-zero", {false, true}: "x non-zero, y zero", {false, false}: "x and y non-zero"}[a]
		if len(r.Panics) > 0 {
			return fail("panics on an initialised element (" + what + ") at " + g.p.Rel(r.Panics[0].Pos()))
		}
		if r.MayReturn || r.Reach[exit] {
			return fail("leaves the loop early after an initialised element (" + what + "): later elements are not inspected")
		}
		if !r.Continued {
			return fail("does not go on to the next element (" + what + ")")
		}
	}
	li.OK = true
	return li
}

// Pure: the function (transitively) writes nothing but its own locals and varargs arrays.
func (g *GuardSem) Pure(f *ssa.Function) bool {
	switch g.pure[f] {
	case 1:
		return true
	case 2:
		return false
	}
	g.pure[f] = 2
	if len(f.Blocks) == 0 {
		return false
	}
	localRoot := func(v ssa.Value) bool {
		for {
			switch x := v.(type) {
			case *ssa.Alloc:
				return true
			case *ssa.FieldAddr:
				v = x.X
			case *ssa.IndexAddr:
				v = x.X
			default:
				return false
			}
		}
	}
	for _, b := range f.Blocks {
		for _, in := range b.Instrs {
			switch x := in.(type) {
			case *ssa.Store:
				if !localRoot(x.Addr) {
					return false
				}
			case *ssa.MapUpdate, *ssa.Send, *ssa.Go, *ssa.Defer:
				return false
			case *ssa.Call:
				if _, ok := x.Common().Value.(*ssa.Builtin); ok {
					continue
				}
				h := x.Common().StaticCallee()
				if h == nil {
					return false
				}
				h = unbound(h)
				if !g.p.InRepo(h) {
					if h.Pkg != nil && (h.Pkg.Pkg.Path() == "sync" || h.Pkg.Pkg.Path() == "sync/atomic") {
						return false
					}
					continue
				}
				if ShortName(h) == "field.(*Element).Equal" {
					continue
				}
				if !g.Pure(h) {
					return false
				}
			}
		}
	}
	g.pure[f] = 1
	return true
}

// pointParams lists the Point-typed parameter positions of f; all reports whether f has no other parameters.
func pointParams(f *ssa.Function) (subs []GSubject, all bool) {
	all = len(f.Params) > 0
	for i, p := range f.Params {
		switch {
		case IsPointPtr(p.Type()):
			subs = append(subs, GSubject{Param: i})
		case IsPointSlice(p.Type()):
			subs = append(subs, GSubject{Param: i, Elem: true})
		default:
			all = false
		}
	}
	return
}

// IsExactGuard: f is nothing but the initialisation guard applied to every one
// of its arguments — no results, Point-typed parameters only, no writes, it
// cannot return when one of them has the zero pattern and always returns
// otherwise. Such a function is a primitive for the value domains.
func (g *GuardSem) IsExactGuard(f *ssa.Function) bool {
	if f == nil || f.Pkg != g.p.Root || f.Signature.Results().Len() != 0 || len(f.Blocks) == 0 || g.p.IsAPIRoot(f) {
		return false
	}
	subs, all := pointParams(f)
	if !all || !g.Pure(f) {
		return false
	}
	for _, s := range subs {
		if g.Run(f, s, GZero).MayReturn {
			return false
		}
		if s.Elem {
			// every decision taken on elements must be inside an exact guard loop, and every panic must be one of its
			okPanic := map[ssa.Instruction]bool{}
			for _, b := range f.Blocks {
				if ifi, ok := b.Instrs[len(b.Instrs)-1].(*ssa.If); ok {
					li := g.GuardLoop(f, ifi)
					if li.IsLoop && li.Candidate && !li.OK {
						return false
					}
					if li.OK {
						for _, p := range li.Runs[GZero].Panics {
							okPanic[p] = true
						}
					}
				}
			}
			r := g.Run(f, s, GAssign{})
			if !r.MayReturn {
				return false
			}
			for _, p := range r.Panics {
				if !okPanic[p] {
					return false
				}
			}
			continue
		}
		for _, a := range GAll[1:] {
			r := g.Run(f, s, a)
			if !r.MayReturn || len(r.Panics) > 0 {
				return false
			}
		}
	}
	return true
}

// PredValue: f is a pure predicate on one Point (results: one bool or int)
// whose value is determined by the two atoms; returns its value on initialised
// points if that is one constant.
func (g *GuardSem) IsPredicate(f *ssa.Function) bool {
	if f == nil || f.Pkg != g.p.Root || f.Signature.Results().Len() != 1 || len(f.Blocks) == 0 || g.p.IsAPIRoot(f) {
		return false
	}
	subs, all := pointParams(f)
	if !all || len(subs) != 1 || subs[0].Elem || !g.Pure(f) {
		return false
	}
	dep := false
	v0, _ := g.Run(f, subs[0], GZero).Ret()
	for _, a := range GAll {
		r := g.Run(f, subs[0], a)
		v, ok := r.Ret()
		if !ok || len(r.Panics) > 0 {
			return false
		}
		if v != v0 {
			dep = true
		}
	}
	return dep
}

// PredOnInitialised returns the value of predicate f on initialised points, if constant.
func (g *GuardSem) PredOnInitialised(f *ssa.Function) (int64, bool) {
	if !g.IsPredicate(f) {
		return 0, false
	}
	subs, _ := pointParams(f)
	v1, _ := g.Run(f, subs[0], GAll[1]).Ret()
	for _, a := range GAll[2:] {
		if v, _ := g.Run(f, subs[0], a).Ret(); v != v1 {
			return 0, false
		}
	}
	return v1, true
}

// InGuardFamily: f is part of the initialisation guard (an exact guard or a predicate it is built from).
func (g *GuardSem) InGuardFamily(f *ssa.Function) bool {
	return g.IsExactGuard(f) || g.IsPredicate(f)
}

// CondAtoms: inside a guard-family function, does the branch condition depend
// only on the atoms of the inspected point, and on which?
func (g *GuardSem) CondAtoms(f *ssa.Function, cond ssa.Value) (depX, depY, ok bool) {
	var runs map[GAssign]*GRun
	subs, _ := pointParams(f)
	for _, s := range subs {
		if !s.Elem {
			runs = map[GAssign]*GRun{}
			for _, a := range GAll {
				runs[a] = g.Run(f, s, a)
			}
			break
		}
	}
	if runs == nil {
		for _, b := range f.Blocks {
			if ifi, isIf := b.Instrs[len(b.Instrs)-1].(*ssa.If); isIf {
				if li := g.GuardLoop(f, ifi); li.OK {
					runs = li.Runs
				}
			}
		}
	}
	if runs == nil {
		return false, false, false
	}
	val := map[GAssign]int64{}
	have := map[GAssign]bool{}
	for _, a := range GAll {
		if v, det := runs[a].Val(cond); det {
			val[a], have[a] = v, true
		} else if in, isI := cond.(ssa.Instruction); isI && runs[a].Reachable(in) {
			return false, false, false
		}
	}
	differ := func(a, b GAssign) bool { return have[a] && have[b] && val[a] != val[b] }
	depX = differ(GAssign{true, true}, GAssign{false, true}) || differ(GAssign{true, false}, GAssign{false, false})
	depY = differ(GAssign{true, true}, GAssign{true, false}) || differ(GAssign{false, true}, GAssign{false, false})
	// a condition evaluated only when the other atom has one value (short circuit) still depends on its own atom
	if !depX && !depY {
		if bo, isB := cond.(*ssa.BinOp); isB {
			r := runs[GZero]
			l, rr := r.eval(bo.X).k, r.eval(bo.Y).k
			if l == gElemX || rr == gElemX {
				depX = true
			}
			if l == gElemY || rr == gElemY {
				depY = true
			}
		}
	}
	return depX, depY, depX || depY
}

func phiParts(ph *ssa.Phi) (c *ssa.Const, other ssa.Value, ok bool) {
	for _, e := range ph.Edges {
		if k, isC := e.(*ssa.Const); isC && k.Value != nil {
			if c != nil && !constant.Compare(c.Value, token.EQL, k.Value) {
				return nil, nil, false
			}
			c = k
			continue
		}
		if other != nil && other != e {
			return nil, nil, false
		}
		other = e
	}
	return c, other, c != nil && other != nil
}

// Induction recognises v as an induction variable: returns (first value, step).
func Induction(v ssa.Value) (int64, int64, bool) {
	// form A: v = phi(c, v + s)
	if ph, ok := v.(*ssa.Phi); ok {
		if c, other, ok := phiParts(ph); ok {
			if inc, ok := other.(*ssa.BinOp); ok && inc.Op == token.ADD && inc.X == ssa.Value(ph) {
				if s, ok := inc.Y.(*ssa.Const); ok && s.Value != nil {
					c0, _ := constant.Int64Val(c.Value)
					s0, _ := constant.Int64Val(s.Value)
					return c0, s0, true
				}
			}
		}
	}
	// form B: v = phi(c, v) + s   (range loops)
	if inc, ok := v.(*ssa.BinOp); ok && inc.Op == token.ADD {
		ph, ok := inc.X.(*ssa.Phi)
		s, ok2 := inc.Y.(*ssa.Const)
		if ok && ok2 && s.Value != nil {
			if c, other, ok := phiParts(ph); ok && other == ssa.Value(inc) {
				c0, _ := constant.Int64Val(c.Value)
				s0, _ := constant.Int64Val(s.Value)
				return c0 + s0, s0, true
			}
		}
	}
	return 0, 0, false
}

// SpilledParam: v is a load from the cell a parameter was spilled into because a closure captures it, and neither
// the function nor any closure ever assigns the cell again — so v is the parameter. Returns the parameter or nil.
func SpilledParam(v ssa.Value) *ssa.Parameter {
	u, ok := v.(*ssa.UnOp)
	if !ok || u.Op != token.MUL {
		return nil
	}
	a, ok := u.X.(*ssa.Alloc)
	if !ok {
		return nil
	}
	var par *ssa.Parameter
	var readOnly func(cell ssa.Value, depth int) bool
	readOnly = func(cell ssa.Value, depth int) bool {
		if depth > 4 || cell.Referrers() == nil {
			return false
		}
		for _, ref := range *cell.Referrers() {
			switch x := ref.(type) {
			case *ssa.UnOp:
				if x.Op != token.MUL {
					return false
				}
			case *ssa.DebugRef:
			case *ssa.Store:
				if x.Addr != cell {
					return false // the cell's address escapes into memory
				}
				p, isParam := x.Val.(*ssa.Parameter)
				if !isParam || depth != 0 || par != nil || x.Block().Index != 0 {
					return false
				}
				par = p
			case *ssa.MakeClosure:
				fn, _ := x.Fn.(*ssa.Function)
				if fn == nil {
					return false
				}
				for i, b := range x.Bindings {
					if b == cell {
						if i >= len(fn.FreeVars) || !readOnly(fn.FreeVars[i], depth+1) {
							return false
						}
					}
				}
			default:
				return false
			}
		}
		return true
	}
	if !readOnly(a, 0) || par == nil {
		return nil
	}
	return par
}
