package load

import (
	"fmt"
	"go/types"

	"golang.org/x/tools/go/ssa"
)

// aliasOf maps a function that was identified structurally (because the
// unexported name the checker knows it by no longer exists) to that canonical
// name, so that a behaviour-preserving rename of an internal helper does not
// detach the rules anchored on it.
var aliasOf = map[*ssa.Function]string{}

func isPtrToNamed(t types.Type, pkgPath, name string) bool {
	p, ok := t.(*types.Pointer)
	if !ok {
		return false
	}
	n, ok := p.Elem().(*types.Named)
	return ok && n.Obj().Name() == name && n.Obj().Pkg() != nil && n.Obj().Pkg().Path() == pkgPath
}

func isPtrToByteArray(t types.Type, n int64) bool {
	p, ok := t.(*types.Pointer)
	if !ok {
		return false
	}
	a, ok := p.Elem().Underlying().(*types.Array)
	if !ok || a.Len() != n {
		return false
	}
	b, ok := a.Elem().Underlying().(*types.Basic)
	return ok && b.Kind() == types.Uint8
}

func resultIs(f *ssa.Function, pred func(types.Type) bool) bool {
	r := f.Signature.Results()
	return r.Len() == 1 && pred(r.At(0).Type())
}

func isBool(t types.Type) bool {
	b, ok := t.Underlying().(*types.Basic)
	return ok && b.Kind() == types.Bool
}

func isByteSlice(t types.Type) bool {
	s, ok := t.Underlying().(*types.Slice)
	if !ok {
		return false
	}
	b, ok := s.Elem().Underlying().(*types.Basic)
	return ok && b.Kind() == types.Uint8
}

func isInt8Array(n int64) func(types.Type) bool {
	return func(t types.Type) bool {
		a, ok := t.Underlying().(*types.Array)
		if !ok || a.Len() != n {
			return false
		}
		b, ok := a.Elem().Underlying().(*types.Basic)
		return ok && b.Kind() == types.Int8
	}
}

// resolveAliases registers structurally identified functions under the
// canonical names of internal helpers that are missing by name.
func (p *Program) resolveAliases() {
	unique := func(cands []*ssa.Function) *ssa.Function {
		if len(cands) == 1 {
			return cands[0]
		}
		return nil
	}
	calleesOf := func(name string, pred func(*ssa.Function) bool) []*ssa.Function {
		f := p.ByName[name]
		if f == nil {
			return nil
		}
		var out []*ssa.Function
		for _, g := range p.Callees(f) {
			if pred(g) {
				out = append(out, g)
			}
		}
		return out
	}
	all := func(pred func(*ssa.Function) bool) []*ssa.Function {
		var out []*ssa.Function
		for _, f := range p.Funcs {
			if pred(f) {
				out = append(out, f)
			}
		}
		return out
	}
	reg := func(canon string, f *ssa.Function) {
		if f == nil || p.ByName[canon] != nil {
			return
		}
		if _, taken := aliasOf[f]; taken {
			return
		}
		old := ShortName(f)
		aliasOf[f] = canon
		p.ByName[canon] = f
		p.Notes = append(p.Notes, fmt.Sprintf("internal helper %s is identified structurally as %s (renamed)", old, canon))
	}
	hasParam := func(f *ssa.Function, pred func(types.Type) bool) bool {
		for _, prm := range f.Params {
			if pred(prm.Type()) {
				return true
			}
		}
		return false
	}
	recvIs := func(f *ssa.Function, pkg, name string) bool {
		r := f.Signature.Recv()
		return r != nil && isPtrToNamed(r.Type(), pkg, name)
	}
	// checkInitialized: func(...*Point)
	reg("checkInitialized", unique(all(func(f *ssa.Function) bool {
		return f.Pkg == p.Root && f.Signature.Recv() == nil && f.Signature.Variadic() && f.Signature.Results().Len() == 0 && len(f.Params) == 1 &&
			func() bool {
				s, ok := f.Params[0].Type().(*types.Slice)
				return ok && isPtrToNamed(s.Elem(), RootPath, "Point")
			}()
	})))
	reg("isOnCurve", unique(calleesOf("(*Point).SetExtendedCoordinates", func(g *ssa.Function) bool { return g.Pkg == p.Root && resultIs(g, isBool) })))
	reg("isReduced", unique(calleesOf("(*Scalar).SetCanonicalBytes", func(g *ssa.Function) bool { return g.Pkg == p.Root && resultIs(g, isBool) })))
	outlined := func(exported, canon, pkg, typ string, argPred func(types.Type) bool) {
		reg(canon, unique(calleesOf(exported, func(g *ssa.Function) bool { return recvIs(g, pkg, typ) && hasParam(g, argPred) })))
	}
	buf32 := func(t types.Type) bool { return isPtrToByteArray(t, 32) }
	outlined("(*Point).Bytes", "(*Point).bytes", RootPath, "Point", buf32)
	outlined("(*Point).BytesMontgomery", "(*Point).bytesMontgomery", RootPath, "Point", buf32)
	outlined("(*Scalar).Bytes", "(*Scalar).bytes", RootPath, "Scalar", buf32)
	outlined("field.(*Element).Bytes", "field.(*Element).bytes", FieldPath, "Element", buf32)
	outlined("(*Point).ExtendedCoordinates", "(*Point).extendedCoordinates", RootPath, "Point", func(t types.Type) bool {
		pt, ok := t.(*types.Pointer)
		if !ok {
			return false
		}
		a, ok := pt.Elem().Underlying().(*types.Array)
		return ok && a.Len() == 4
	})
	elemMethodNoArgs := func(g *ssa.Function) bool {
		return recvIs(g, FieldPath, "Element") && len(g.Params) == 1 && resultIs(g, func(t types.Type) bool { return isPtrToNamed(t, FieldPath, "Element") })
	}
	reg("field.(*Element).reduce", unique(calleesOf("field.(*Element).bytes", elemMethodNoArgs)))
	reg("field.mask64Bits", unique(calleesOf("field.(*Element).Select", func(g *ssa.Function) bool {
		return g.Pkg == p.Field && g.Signature.Recv() == nil && len(g.Params) == 1 && resultIs(g, func(t types.Type) bool {
			b, ok := t.Underlying().(*types.Basic)
			return ok && b.Kind() == types.Uint64
		})
	})))
	reg("(*Scalar).signedRadix16", unique(all(func(f *ssa.Function) bool { return recvIs(f, RootPath, "Scalar") && resultIs(f, isInt8Array(64)) })))
	reg("(*Scalar).nonAdjacentForm", unique(all(func(f *ssa.Function) bool { return recvIs(f, RootPath, "Scalar") && resultIs(f, isInt8Array(256)) })))
	// portable limb routines: plain functions over *Element with a body that are not the dispatchers
	plainElems := func(n int) func(*ssa.Function) bool {
		return func(f *ssa.Function) bool {
			if f.Pkg != p.Field || f.Signature.Recv() != nil || len(f.Blocks) == 0 || len(f.Params) != n || f.Signature.Results().Len() != 0 {
				return false
			}
			for _, prm := range f.Params {
				if !isPtrToNamed(prm.Type(), FieldPath, "Element") {
					return false
				}
			}
			nm := ShortName(f)
			return nm != "field.feMul" && nm != "field.feSquare" && len(p.Callees(f)) > 0
		}
	}
	reg("field.feMulGeneric", unique(all(plainElems(3))))
	reg("field.feSquareGeneric", unique(all(plainElems(2))))
	// the portable carry propagation is what Element.Add finishes with
	reg("field.(*Element).carryPropagateGeneric", unique(calleesOf("field.(*Element).Add", func(g *ssa.Function) bool {
		return elemMethodNoArgs(g) && len(g.Blocks) > 0 && ShortName(g) != "field.(*Element).carryPropagate"
	})))
}

// BaseName is the (alias-aware) simple name of a function.
func BaseName(f *ssa.Function) string {
	if a, ok := aliasOf[f]; ok {
		for i := len(a) - 1; i >= 0; i-- {
			if a[i] == '.' {
				return a[i+1:]
			}
		}
		return a
	}
	return f.Name()
}

// CanonFields lists, for the struct types the rules talk about, the field
// names of the tree the rules were written against, in declaration order. A
// field the rules name is looked up by that name first; if the struct has no
// such field but still has the canonical number of fields, the field at the
// canonical position is meant (unexported fields were renamed). Keys built
// from field names use the canonical name, so that a rename changes no key.
var CanonFields = map[string][]string{
	"Point":             {"x", "y", "z", "t", "_"},
	"projP1xP1":         {"X", "Y", "Z", "T"},
	"projP2":            {"X", "Y", "Z"},
	"projCached":        {"YplusX", "YminusX", "Z", "T2d"},
	"affineCached":      {"YplusX", "YminusX", "T2d"},
	"Scalar":            {"s"},
	"Element":           {"l0", "l1", "l2", "l3", "l4"},
	"projLookupTable":   {"points"},
	"affineLookupTable": {"points"},
	"nafLookupTable5":   {"points"},
	"nafLookupTable8":   {"points"},
}

func canonOf(t types.Type) ([]string, *types.Struct) {
	st, ok := t.Underlying().(*types.Struct)
	if !ok {
		return nil, nil
	}
	n, ok := t.(*types.Named)
	if !ok {
		return nil, st
	}
	canon := CanonFields[n.Obj().Name()]
	if len(canon) != st.NumFields() {
		return nil, st
	}
	// the canonical names apply only if every actual name that is canonical sits at its canonical position
	for i := 0; i < st.NumFields(); i++ {
		for j, c := range canon {
			if st.Field(i).Name() == c && i != j {
				return nil, st
			}
		}
	}
	return canon, st
}

// FieldIndex resolves a (canonical) field name of a struct type; -1 if there is none.
func FieldIndex(t types.Type, name string) int {
	canon, st := canonOf(t)
	if st == nil {
		return -1
	}
	for i := 0; i < st.NumFields(); i++ {
		if st.Field(i).Name() == name {
			return i
		}
	}
	for i, c := range canon {
		if c == name {
			return i
		}
	}
	return -1
}

// FieldName is the canonical name of field i of struct type t.
func FieldName(t types.Type, i int) string {
	canon, st := canonOf(t)
	if st == nil || i < 0 || i >= st.NumFields() {
		return fmt.Sprintf("f%d", i)
	}
	if canon != nil {
		return canon[i]
	}
	return st.Field(i).Name()
}

// ResultOrigin follows result k of callee h through unexported helpers that
// merely forward another call's result: if every return of h yields, at
// position k, result j of a call to one and the same function g (directly or
// through phis), the origin is (g, j), followed recursively. Exported API
// functions are origins themselves (their names are the stable vocabulary of
// the rules).
func (p *Program) ResultOrigin(h *ssa.Function, k int) (*ssa.Function, int) {
	for depth := 0; depth < 5; depth++ {
		if h == nil || !p.InRepo(h) || p.IsAPIRoot(h) || len(h.Blocks) == 0 {
			return h, k
		}
		if _, known := reference[ShortName(h)]; known {
			return h, k // a helper of the reference tree: rules name it directly
		}
		var g *ssa.Function
		j := -1
		ok := true
		var visit func(v ssa.Value, seen map[ssa.Value]bool)
		visit = func(v ssa.Value, seen map[ssa.Value]bool) {
			if seen[v] || !ok {
				return
			}
			seen[v] = true
			switch x := v.(type) {
			case *ssa.Phi:
				for _, e := range x.Edges {
					visit(e, seen)
				}
			case *ssa.Extract:
				c, isCall := x.Tuple.(*ssa.Call)
				if !isCall {
					ok = false
					return
				}
				cal, _ := StaticCallee(c)
				if cal == nil || (g != nil && (g != cal || j != x.Index)) {
					ok = false
					return
				}
				g, j = cal, x.Index
			case *ssa.Call:
				cal, _ := StaticCallee(x)
				if cal == nil || (g != nil && (g != cal || j != 0)) {
					ok = false
					return
				}
				g, j = cal, 0
			default:
				ok = false
			}
		}
		n := 0
		for _, b := range h.Blocks {
			if len(b.Instrs) == 0 {
				continue
			}
			r, isRet := b.Instrs[len(b.Instrs)-1].(*ssa.Return)
			if !isRet {
				continue
			}
			n++
			if k >= len(r.Results) {
				return h, k
			}
			visit(r.Results[k], map[ssa.Value]bool{})
		}
		if !ok || g == nil || n == 0 {
			return h, k
		}
		h, k = g, j
	}
	return h, k
}

// resolveReceiverKinds: a method the rules know with a pointer receiver may have
// been given a value receiver (or the reverse); it is registered under the
// known form too, so that the change of receiver kind is not a missing anchor.
func (p *Program) resolveReceiverKinds() {
	for _, f := range p.Funcs {
		recv := f.Signature.Recv()
		if recv == nil || f.Parent() != nil {
			continue
		}
		t := recv.Type()
		isPtr := false
		if pt, ok := t.(*types.Pointer); ok {
			t, isPtr = pt.Elem(), true
		}
		n, ok := t.(*types.Named)
		if !ok {
			continue
		}
		prefix := ""
		if f.Pkg != nil && f.Pkg.Pkg.Path() == FieldPath {
			prefix = "field."
		}
		other := fmt.Sprintf("%s(*%s).%s", prefix, n.Obj().Name(), f.Name())
		if isPtr {
			other = fmt.Sprintf("%s(%s).%s", prefix, n.Obj().Name(), f.Name())
		}
		if p.ByName[other] != nil {
			continue
		}
		if _, known := reference[other]; !known {
			continue
		}
		old := ShortName(f)
		delete(p.ByName, old)
		aliasOf[f] = other
		p.ByName[other] = f
		p.Notes = append(p.Notes, fmt.Sprintf("method %s is known to the rules as %s (receiver kind changed)", old, other))
	}
}

// PointConstant identifies the package-level *Point variables the exported
// constructors hand out copies of: "generator" is the variable
// NewGeneratorPoint reads, "identity" the one NewIdentityPoint reads — whatever
// they are called. Falls back to the variable of that name.
func (p *Program) PointConstant(role string) *ssa.Global {
	ctor := map[string]string{"generator": "NewGeneratorPoint", "identity": "NewIdentityPoint"}[role]
	var found []*ssa.Global
	if f := p.ByName[ctor]; f != nil {
		seen := map[*ssa.Global]bool{}
		for _, b := range f.Blocks {
			for _, in := range b.Instrs {
				for _, op := range in.Operands(nil) {
					if g, ok := (*op).(*ssa.Global); ok && !seen[g] && g.Pkg == p.Root {
						if pt, ok := g.Type().(*types.Pointer); ok && isPtrToNamed(pt.Elem(), RootPath, "Point") {
							seen[g] = true
							found = append(found, g)
						}
					}
				}
			}
		}
	}
	if len(found) == 1 {
		return found[0]
	}
	if m, ok := p.Root.Members[role].(*ssa.Global); ok {
		return m
	}
	return nil
}

// FieldSteps resolves a (canonical) field name of a struct type to the sequence of field indices that
// reaches it, looking through embedded structs (`type projCached struct { cachedCoords; Z Element }`).
func FieldSteps(t types.Type, name string) []int {
	if i := FieldIndex(t, name); i >= 0 {
		return []int{i}
	}
	st, ok := t.Underlying().(*types.Struct)
	if !ok {
		return nil
	}
	for i := 0; i < st.NumFields(); i++ {
		f := st.Field(i)
		if !f.Embedded() {
			continue
		}
		if _, isStruct := f.Type().Underlying().(*types.Struct); !isStruct {
			continue
		}
		if sub := FieldSteps(f.Type(), name); sub != nil {
			return append([]int{i}, sub...)
		}
	}
	return nil
}
