package props

import (
	"fmt"
	"strings"

	"verif/checker/load"
	"verif/checker/report"
)

var trustedE9 = append([]string{
	"the abstract interpreter checker/absint (concrete control flow, ≈30 SSA forms) and the polynomial normal form checker/poly",
	"the algebraic transfer functions given to package field's exported methods in element mode (Add, Subtract, Negate, Multiply, Square, Invert with 0⁻¹=0, Select, Swap, Equal, IsNegative, Bytes, SetBytes, SqrtRatio, Pow22523, Absolute) — what limb mode (C09/C10) establishes for them; sound to compose because package edwards25519 cannot reach limbs",
	"the specification formulas written in checker/props (transcribed from the property statements, RFC 8032 §5.1, RFC 7748 §4.1, RFC 9496 §4.2)",
}, trustedCommon...)

func init() {
	register(&Prop{
		ID: "C02", Level: "other", Technique: "abstract interpretation of the loop-free group-law code in a field-expression domain (fractions of polynomials over GF(p)); identities decided by normal-form comparison against the affine twisted-Edwards law",
		Explanation: "Decides, as identities of rational functions valid for all coordinate assignments (not for sampled points): Negate = (−X:Y:Z:−T); Add and Subtract equal the affine law x3=(x1y2+y1x2)/(1+d·x1x2y1y2), y3=(y1y2+x1x2)/(1−d·x1x2y1y2) after T=XY/Z, with T3·Z3=X3·Y3; the dedicated doubling equals the law for P+P modulo the curve equation; MultByCofactor is three such doublings; Sub/AddAffine/SubAffine agree with Add on the corresponding cached forms; results are invariant under rescaling either input; d = −121665/121666 and d2 = 2d evaluated from their literals. NOT decided: completeness (that the denominators never vanish on curve points because d is a non-square — number theory), behaviour on the eight small-order points beyond what the identities imply, limb-form independence (that is C09).",
		Assumptions: []string{"denominators inverted by the code (Z1, Z2, 1±d·x1x2y1y2) are non-zero: rational-function identities hold wherever both sides are defined"},
		TrustedBase: trustedE9,
		Floors:      []report.Floor{{Rule: "E9", Min: 12}, {Rule: "E9-CONST", Min: 3}},
		Build: func(c *Ctx) {
			for _, cfg := range c.Configs() {
				c.e9GroupLaw(cfg)
				c.e9Neutral(cfg)
			}
		},
	})
	register(&Prop{
		ID: "C05", Level: "other", Technique: "abstract interpretation of Point.bytes in the field-expression domain; the encoded quantities are compared as rational functions and checked for homogeneity degree 0",
		Explanation: "Decides: Point.Bytes returns enc(Y·Z⁻¹) with bit 7 of byte 31 or-ed with IsNegative(X·Z⁻¹) — both arguments invariant under rescaling (X:Y:Z:T) — into a fresh buffer (R-FRESH). Canonicity of enc and of IsNegative is C10. NOT decided: the round trip SetBytes(Bytes(P)) = P and re-encoding of non-canonical inputs (needs r(y)² = x² reasoning about square roots).",
		TrustedBase: trustedE9,
		Floors:      []report.Floor{{Rule: "E9", Min: 2}, {Rule: "R-FRESH", Min: 1}},
		Build: func(c *Ctx) {
			for _, cfg := range c.Configs() {
				c.e9Bytes(cfg)
				c.ruleShape(cfg)
				// the field-level mechanisms C05 is anchored in: canonical serialisation and the sign predicate
				c.ruleFieldLayouts(cfg)
				c.ruleFieldPredicates(cfg)
				if res := c.limbInvariant(cfg); res != nil && len(res.problems) == 0 {
					c.ruleWideAndReduce(cfg, res.box)
				}
				// decode side of the round trip: the even root is chosen on the fully reduced value
				c.e9AbsoluteNegate(cfg)
				if a := c.Eff(cfg); a != nil {
					c.addAll(keep(a.RFresh(), func(o report.Obligation) bool { return keyHasFunc(o, nameSet([]string{"(*Point).Bytes"})) }))
					// no hidden state: the encoder reads the coordinates and writes nothing of the point
					c.addAll(keep(a.RReadOnly(), func(o report.Obligation) bool { return keyHasFunc(o, nameSet([]string{"(*Point).Bytes"})) }))
				}
				if g := c.Guards(cfg); g != nil {
					c.addAll(keep(g.GInit(), func(o report.Obligation) bool { return keyHasFunc(o, nameSet([]string{"(*Point).Bytes"})) }))
				}
			}
		},
	})
	register(&Prop{
		ID: "C06", Level: "other", Technique: "abstract interpretation of Point.Equal in the field-expression domain; the result is compared as a boolean polynomial over equality atoms",
		Explanation: "Decides: Equal(v,u) = [X1·Z2 = X2·Z1] ∧ [Y1·Z2 = Y2·Z1] exactly (both coordinates, cross-multiplied by the other point's Z, combined with AND), for all coordinate values; both operands are guarded (G-INIT). NOT decided: that field Equal decides equality of residues (C10) and that cross-multiplied equality is point equality, which needs Z ≠ 0 (C12).",
		TrustedBase: trustedE9,
		Floors:      []report.Floor{{Rule: "E9", Min: 1}, {Rule: "G-INIT", Min: 2}},
		Build: func(c *Ctx) {
			for _, cfg := range c.Configs() {
				c.e9Equal(cfg)
				c.ruleShape(cfg)
				c.ruleFieldPredicates(cfg) // field equality on fully reduced encodings (anchor field/fe.go Equal)
				if g := c.Guards(cfg); g != nil {
					c.addAll(keep(g.GInit(), func(o report.Obligation) bool { return keyHasFunc(o, nameSet([]string{"(*Point).Equal"})) }))
				}
			}
		},
	})
	register(&Prop{
		ID: "C17", Level: "other", Technique: "abstract interpretation of BytesMontgomery in the field-expression domain (with Invert(0)=0); comparison with (1+y)/(1−y) as a rational function, plus the specialisation Y=Z",
		Explanation: "Decides: BytesMontgomery returns enc((1+y)/(1−y)) with y = Y/Z, a quantity that depends on Y/Z only (hence equal for P and −P and for every projective representation); with Y = Z (y = 1, the identity) the inverted denominator is identically zero, Invert(0) = 0 and the output is 32 zero bytes; the input is guarded and the buffer fresh. NOT decided: equality with X25519 public keys (needs the ladder) and canonicity of enc (C10).",
		TrustedBase: trustedE9,
		Floors:      []report.Floor{{Rule: "E9", Min: 3}},
		Build: func(c *Ctx) {
			for _, cfg := range c.Configs() {
				c.e9Montgomery(cfg)
				names := nameSet([]string{"(*Point).BytesMontgomery"})
				if a := c.Eff(cfg); a != nil {
					c.addAll(keep(a.RFresh(), func(o report.Obligation) bool { return keyHasFunc(o, names) }))
				}
				if g := c.Guards(cfg); g != nil {
					c.addAll(keep(g.GInit(), func(o report.Obligation) bool { return keyHasFunc(o, names) }))
				}
			}
		},
	})
}

func init() {
	register(&Prop{
		ID: "C04", Level: "other", Technique: "control-dependence classification of the reject sites (G-ACCEPT) + path-partitioned abstract interpretation of Point.SetBytes in the field-expression domain + failed-setter atomicity (R-ATOMIC)",
		Explanation: "Decides the accept/reject structure and the decoded value for all inputs at once: error sites are control-dependent on exactly {len(x) ≠ 32 (through field SetBytes), wasSquare = 0}; for 32-byte inputs y is the low 255 bits (no range check), (r, ok) = SqrtRatio(y²−1, d·y²+1), rejected iff ok = 0, otherwise the receiver becomes (Select(−r, r, bit 255) : y : 1 : x·y); failed calls leave the receiver untouched and the input is never written. NOT decided: that ok = 1 iff (y²−1)/(d·y²+1) is a square and r its even root (C16's numeric content) — hence 'iff y is the y-coordinate of a curve point' rests on C16/C09/C10.",
		TrustedBase: trustedE9,
		Floors:      []report.Floor{{Rule: "E9", Min: 1}, {Rule: "G-ACCEPT", Min: 1}, {Rule: "R-ATOMIC", Min: 4}},
		Build: func(c *Ctx) {
			for _, cfg := range c.Configs() {
				names := []string{"(*Point).SetBytes"}
				c.ruleAccept(cfg, names)
				c.ruleSetterAtomic(cfg, nameSet(names))
				if a := c.Eff(cfg); a != nil {
					c.addAll(keep(a.RReadOnly(), func(o report.Obligation) bool { return keyHasFunc(o, nameSet(names)) }))
				}
				c.e9SetBytes(cfg)
				c.e9ConstD(cfg)
				c.ruleLengthSweep(cfg, "(*Point).SetBytes", 32, 80)
				// the field-level mechanisms C04 is anchored in: y = low 255 bits, SqrtRatio recipe, even root
				c.ruleFieldLayouts(cfg)
				c.e9SqrtRatio(cfg)
				c.e9AbsoluteNegate(cfg)
				c.ruleFieldPredicates(cfg)
			}
		},
	})
	register(&Prop{
		ID: "C13", Level: "other", Technique: "path-partitioned abstract interpretation of SetExtendedCoordinates/isOnCurve in the field-expression domain (path condition = set of equality atoms), zero-propagation for the Z≠0 clause, effect rules for atomicity/freshness",
		Explanation: "Decides: every success path of SetExtendedCoordinates requires exactly [−X²+Y² = Z²+d·T²] ∧ [X·Y = Z·T] (plus, if present, a zero-test of Z) and nothing else; the all-zero quadruple — by the argument of DESIGN C13.2 the only way a Z=0 input can satisfy both equations — does not reach the success site; on success the receiver becomes (X:Y:Z:T) position by position; failed calls leave the receiver untouched, inputs are never written; ExtendedCoordinates returns copies of (x,y,z,t) in this order in fresh storage after guarding its receiver. NOT decided: that field Equal decides equality of residues (C10).",
		Assumptions: []string{"d and −d are non-squares mod p (so that, given both equations, Z = 0 forces X = Y = T = 0)"},
		TrustedBase: trustedE9,
		Floors:      []report.Floor{{Rule: "E9", Min: 3}, {Rule: "ZERO-ACCEPT", Min: 1}, {Rule: "R-ATOMIC", Min: 3}},
		Build: func(c *Ctx) {
			for _, cfg := range c.Configs() {
				c.e9ExtendedCoordinates(cfg)
				c.e9ConstD(cfg)
				names := nameSet([]string{"(*Point).SetExtendedCoordinates", "(*Point).ExtendedCoordinates"})
				c.ruleAccept(cfg, []string{"(*Point).SetExtendedCoordinates"})
				c.ruleSetterAtomic(cfg, nameSet([]string{"(*Point).SetExtendedCoordinates"}))
				if a := c.Eff(cfg); a != nil {
					c.addAll(keep(a.RReadOnly(), func(o report.Obligation) bool { return keyHasFunc(o, names) }))
					c.addAll(keep(a.RFresh(), func(o report.Obligation) bool { return keyHasFunc(o, names) }))
				}
				if g := c.Guards(cfg); g != nil {
					c.addAll(keep(g.GInit(), func(o report.Obligation) bool { return keyHasFunc(o, names) }))
				}
			}
		},
	})
	register(&Prop{
		ID: "C16", Level: "other", Technique: "abstract interpretation of SqrtRatio's body in the field-expression domain against the RFC 9496 §4.2 recipe (term identity), exponent-domain check of the (p−5)/8 chain, literal audit of sqrt(−1), alias rule",
		Explanation: "Decides: SqrtRatio is SQRT_RATIO_M1 as a term identity — candidate r = u·v³·(u·v⁷)^((p−5)/8), check = v·r², wasSquare = [check = u] ∨ [check = −u], r multiplied by √−1 iff [check = −u] ∨ [check = −u·√−1], result Absolute(r) written to and returned as the receiver; the literal sqrtM1 is 2^((p−1)/4) mod p; Pow22523 is x^((p−5)/8) (exponent domain); r may alias u or v (R-ALIAS). NOT decided: that the recipe computes square roots (Euler criterion: number theory); evenness of Absolute rests on C10.",
		TrustedBase: trustedE9,
		Floors:      []report.Floor{{Rule: "E9", Min: 1}, {Rule: "E9-CONST", Min: 1}},
		Build: func(c *Ctx) {
			for _, cfg := range c.Configs() {
				c.e9SqrtRatio(cfg)
				c.e9AbsoluteNegate(cfg)
				c.ruleFieldExponents(cfg)
				names := nameSet([]string{"field.(*Element).SqrtRatio"})
				if a := c.Eff(cfg); a != nil {
					c.addAll(keep(a.RAlias(), func(o report.Obligation) bool { return keyHasFunc(o, names) }))
					c.addAll(keep(a.RFresh(), func(o report.Obligation) bool { return keyHasFunc(o, names) }))
				}
			}
		},
	})
}

var trustedLimb = append([]string{
	"the abstract interpreter checker/absint and its limb domain (intervals over ℕ × integer polynomials, 128-bit pairing of bits.Mul64/Add64 and MULQ/ADDQ/ADCQ/SHLQ)",
	"math/bits Mul64/Add64 semantics; the instruction semantics of the 9 amd64 and 8 arm64 mnemonics as modelled in checker/absint/asmrun.go",
}, trustedCommon...)

func init() {
	register(&Prop{
		ID: "C09", Level: "proof", Technique: "abstract interpretation of package field in a reduced product of intervals and integer polynomials: least inductive limb bound by fixpoint over all exported operations, machine-operation safety obligations at that bound, value congruences mod p by polynomial normal forms; exponent domain for the addition chains",
		Explanation: "(1) The representation invariant is computed, not assumed: the least limb bound closed under every exported Element operation (Go and assembly bodies, every build configuration of the tier) — by encapsulation this covers every representation any history of public calls can produce; at that bound every machine operation is free of wrap-around/underflow, the 128-bit accumulators stay below 2^(64+13), outputs stay within the bound, and the bound is < 2^52 and within Subtract's 2p margin. (2) Add, Subtract, Negate, Multiply, Square, Mult32 and carry propagation return limbs whose value is congruent to the specification mod p, as polynomial identities in the input limbs. (3) Invert = z^(p−2) and Pow22523 = x^((p−5)/8) by exponent arithmetic over their addition chains; Absolute = Select(−u, u, IsNegative(u)) with IsNegative the low bit of the fully reduced encoding (the layout, predicate and reduce obligations of C10 are part of this check); Negate = 0 − a.",
		TrustedBase: trustedLimb,
		Floors:      []report.Floor{{Rule: "E4-INV", Min: 4}, {Rule: "E4-OBL", Min: 1}, {Rule: "E5-CONG", Min: 10}, {Rule: "E8-PRED", Min: 2}, {Rule: "REDUCE-FORM", Min: 1}},
		Build: func(c *Ctx) {
			for _, cfg := range c.Configs() {
				res := c.ruleLimbInvariant(cfg)
				if res != nil && len(res.problems) == 0 {
					c.ruleCongruences(cfg, res.box)
					// Absolute is Select(−u, u, sign): exact only if Select chooses limb for limb for every reachable limb value
					c.ruleSelectSwap(cfg, res.box)
					// … and only if the sign it selects on is the low bit of the fully reduced value
					c.ruleWideAndReduce(cfg, res.box)
				}
				c.ruleFieldLayouts(cfg)
				c.ruleFieldPredicates(cfg)
				c.e9AbsoluteNegate(cfg)
				c.ruleFieldExponents(cfg)
				// premise of "for every history": the operations keep no state outside their operands
				if a := c.Eff(cfg); a != nil {
					c.addAll(keep(a.RGlobal(), func(o report.Obligation) bool {
						return strings.HasPrefix(o.Key, "R-GLOBAL/field.") || strings.HasPrefix(o.Key, "R-GLOBAL/var:field.")
					}))
				}
			}
		},
	})
}

func init() {
	register(&Prop{
		ID: "C20", Level: "translation_validation", Technique: "translation validation by abstract interpretation: polynomial normal forms and interval bounds extracted from the assembly text are compared with those of the portable Go bodies; build-constraint complementarity by exhaustive evaluation of the //go:build expressions",
		Explanation: "For feMul/feSquare (amd64) and carryPropagate (arm64, thorough tier) the limb polynomials extracted from the .s text and from the portable Go sibling are identical (value mod p and limb for limb, both carry chains), their output bounds at the representation invariant are equal and every assembly machine-operation obligation discharges; the //go:build expressions of every multiply-declared function select exactly one definition under every tag assignment and each body-less stub is selected exactly when its assembly body is; the assembly touches only its pointer arguments (effect events derived from the .s text). Every other function is the same source in both configurations, so byte-identical public behaviour follows. NOT decided: that the assembler emits what the mnemonics say.",
		TrustedBase: trustedLimb,
		Programs:    3,
		Floors:      []report.Floor{{Rule: "TV", Min: 1}, {Rule: "BUILD", Min: 1}},
		Build: func(c *Ctx) {
			c.ruleBuildConstraints()
			for _, cfg := range c.Configs() {
				res := c.limbInvariant(cfg)
				if res == nil {
					continue
				}
				for _, pr := range res.problems {
					c.Set.Problem("%s", pr)
				}
				if len(res.problems) > 0 {
					continue
				}
				c.Set.Note("[%s] representation invariant: %s", cfg, res.box)
				c.ruleAsmVsGeneric(cfg, res.box, "field.feMul", "field.feMulGeneric")
				c.ruleAsmVsGeneric(cfg, res.box, "field.feSquare", "field.feSquareGeneric")
				if cfg == "arm64" {
					c.ruleAsmVsGenericMethod(cfg, res.box)
				}
				if cfg != "purego" {
					// every other function that is defined differently in this configuration and in the portable one
					if rp := c.limbInvariant("purego"); rp != nil && len(rp.problems) == 0 {
						c.ruleBuildVariants(cfg, "purego", res.box)
					}
				}
				if a := c.Eff(cfg); a != nil {
					// configuration-specific code keeps no state of its own
					c.addAll(keep(a.RGlobal(), func(o report.Obligation) bool { return strings.HasPrefix(o.Key, "R-GLOBAL/field.") }))
					for f, s := range a.P.Asm {
						c.Set.Add(report.Obligation{Rule: "ASM-EFFECTS", Key: "ASM-EFFECTS/" + load.ShortName(f), Config: cfg, OK: len(s.Undecided) == 0,
							Detail: fmt.Sprintf("%d memory events, all through unmodified pointer arguments; writes only to %s", len(s.Events), f.Params[0].Name())})
					}
				}
			}
		},
	})
}

func init() {
	register(&Prop{
		ID: "C10", Level: "other", Technique: "abstract interpretation in a bit-provenance domain (exact layouts of SetBytes/bytes, which bits feed Equal and IsNegative), bit-level evaluation of the Select/Swap mask arithmetic, polynomial congruence of SetWideBytes, structural form of reduce",
		Explanation: "Decides: SetBytes places input bits [51k,51k+51) in limb k and ignores bit 255 (so 2^255−19…2^255−1 decode to 0…18 without a range check); bytes writes bit (n mod 51) of reduced limb ⌊n/51⌋ to output bit n, pieces disjoint, reduce applied once on a copy; Equal is ConstantTimeCompare over the two complete canonical encodings and IsNegative is bit 0 of the canonical encoding (limbs read only through Bytes — so representation cannot matter); Select/Swap with cond ∈ {0,1} choose/exchange limb for limb; SetWideBytes ≡ the 512-bit integer mod p; reduce masks every limb to 51 bits and changes the value only by 19·(c − final carry); failed setters are atomic and wrong lengths are rejected without reading data. NOT decided: that reduce's c equals the final carry (the nested-floor identity), i.e. that the encoded integer is the representative below p — one residue class argument beyond these domains.",
		TrustedBase: trustedLimb,
		Floors:      []report.Floor{{Rule: "E8-LAYOUT", Min: 2}, {Rule: "E8-PRED", Min: 2}, {Rule: "E6-MUX", Min: 4}, {Rule: "E5-CONG", Min: 1}, {Rule: "REDUCE-FORM", Min: 1}},
		Build: func(c *Ctx) {
			for _, cfg := range c.Configs() {
				c.ruleFieldLayouts(cfg)
				c.ruleFieldPredicates(cfg)
				res := c.limbInvariant(cfg)
				if res != nil {
					for _, pr := range res.problems {
						c.Set.Problem("%s", pr)
					}
					if len(res.problems) == 0 {
						c.ruleSelectSwap(cfg, res.box)
						c.ruleSelfSwap(cfg, res.box)
						c.ruleWideAndReduce(cfg, res.box)
					}
				}
				names := []string{"field.(*Element).SetBytes", "field.(*Element).SetWideBytes"}
				c.ruleAccept(cfg, names)
				c.ruleSetterAtomic(cfg, nameSet(names))
				c.ruleLengthSweep(cfg, "field.(*Element).SetBytes", 32, 80)
				c.ruleLengthSweep(cfg, "field.(*Element).SetWideBytes", 64, 80)
				if a := c.Eff(cfg); a != nil {
					all := nameSet([]string{"field.(*Element).SetBytes", "field.(*Element).SetWideBytes", "field.(*Element).Bytes", "field.(*Element).Equal", "field.(*Element).IsNegative", "field.(*Element).Select", "field.(*Element).Swap"})
					c.addAll(keep(a.RReadOnly(), func(o report.Obligation) bool { return keyHasFunc(o, all) }))
					c.addAll(keep(a.RFresh(), func(o report.Obligation) bool { return keyHasFunc(o, all) }))
				}
			}
		},
		Exceptions: []report.Exception{swapExceptions[1], swapRecvRO},
	})
}

var trustedScalar = append([]string{
	"the ten fiat-crypto routines of scalar_fiat.go as axioms with the contract printed in their generated doc comments (generated from a Coq-verified model): pre eval < m and saturated, post the stated congruence and eval < m",
	"the abstract interpreter checker/absint with the scalar ring-expression, bit-provenance, exponent and ordering domains; checker/poly",
}, trustedCommon...)

func init() {
	register(&Prop{
		ID: "C07", Level: "other", Technique: "abstract interpretation of the Scalar wrappers in a ring-expression domain over Z/l with the fiat routines as contracted primitives (all aliasing patterns), exponent domain for Invert, bit-provenance domain for Equal, constant audit of the modulus",
		Explanation: "Decides, given the fiat contracts: Add, Subtract, Negate, Multiply, MultiplyAdd, Set are x+y, x−y, −x, x·y, x·y+z, x in Z/l for every aliasing pattern of receiver and arguments (primitive binding, operand order, Montgomery-form discipline); Invert(t) = t^(l−2) by exponent arithmetic over the sliding-window chain (so Invert(0)=0); Equal returns ¬OR of all 256 bits of the reduced difference in bit 0 and nothing else (exactly 1 or 0); the words of l inside the generated routines and the literal l−1 agree with l = 2^252+27742317777372353535851937790883648493; the zero value is the zero words. NOT decided: the fiat routines themselves (Montgomery arithmetic) and the < l invariant they maintain.",
		TrustedBase: trustedScalar,
		Floors:      []report.Floor{{Rule: "RING", Min: 7}, {Rule: "E7-EXP", Min: 1}, {Rule: "E6-FOLD", Min: 1}, {Rule: "CONST", Min: 6}},
		Build: func(c *Ctx) {
			for _, cfg := range c.Configs() {
				c.ruleScalarArith(cfg)
				c.ruleFiatCongruences(cfg)
				c.ruleScalarInvertExponent(cfg)
				c.ruleScalarEqual(cfg)
				c.ruleScalarConstants(cfg)
				if a := c.Eff(cfg); a != nil {
					names := nameSet([]string{"(*Scalar).Add", "(*Scalar).Subtract", "(*Scalar).Negate", "(*Scalar).Multiply", "(*Scalar).MultiplyAdd", "(*Scalar).Invert", "(*Scalar).Equal", "(*Scalar).Set"})
					c.addAll(keep(a.RAlias(), func(o report.Obligation) bool { return keyHasFunc(o, names) }))
					c.addAll(keep(a.RReadOnly(), func(o report.Obligation) bool { return keyHasFunc(o, names) }))
					// purity premise: the operations keep no state between (or across concurrent) calls
					c.addAll(keep(a.RGlobal(), func(o report.Obligation) bool { return keyHasFunc(o, names) }))
				}
			}
		},
	})
	register(&Prop{
		ID: "C08", Level: "other", Technique: "control-dependence classification of reject sites, length sweep on opaque data, ring-expression abstract interpretation of the four codecs over the 512 input bits, ordering-domain enumeration of isReduced, constant audit",
		Explanation: "Decides, given the fiat contracts: error sites depend exactly on {len ≠ 32, ¬isReduced} / {len ≠ 64} / {len ≠ 32}; every other length is rejected without reading a byte; SetUniformBytes = Σ x[i]·256^i mod l over all 64 bytes (three slices each below l as from_bytes requires, recombined with 2^168 and 2^336 whose Montgomery literals are audited); SetBytesWithClamping = the RFC 8032 §5.1.5 clamped integer mod l, input untouched; SetCanonicalBytes accepts iff isReduced and then stores Σ x[i]·256^i; isReduced returns true exactly when the value is < l (all 50 feasible decision paths over the byte orderings {<,=,>} enumerated; its constant is l−1); Bytes = to_bytes∘from_montgomery; failed setters are atomic. NOT decided: the fiat from_bytes/to_bytes/Montgomery conversions themselves.",
		TrustedBase: trustedScalar,
		Floors:      []report.Floor{{Rule: "RING", Min: 4}, {Rule: "ORD", Min: 1}, {Rule: "G-ACCEPT", Min: 3}, {Rule: "LEN-SWEEP", Min: 3}, {Rule: "CONST", Min: 3}},
		Build: func(c *Ctx) {
			for _, cfg := range c.Configs() {
				names := []string{"(*Scalar).SetCanonicalBytes", "(*Scalar).SetUniformBytes", "(*Scalar).SetBytesWithClamping"}
				c.ruleAccept(cfg, names)
				c.ruleSetterAtomic(cfg, nameSet(names))
				c.ruleLengthSweep(cfg, "(*Scalar).SetCanonicalBytes", 32, 80)
				c.ruleLengthSweep(cfg, "(*Scalar).SetUniformBytes", 64, 80)
				c.ruleLengthSweep(cfg, "(*Scalar).SetBytesWithClamping", 32, 80)
				c.ruleScalarEncodings(cfg)
				c.ruleFiatCongruences(cfg)
				c.ruleIsReduced(cfg)
				c.ruleScalarConstants(cfg)
				if a := c.Eff(cfg); a != nil {
					all := nameSet(append(names, "(*Scalar).Bytes"))
					c.addAll(keep(a.RReadOnly(), func(o report.Obligation) bool { return keyHasFunc(o, all) }))
					c.addAll(keep(a.RFresh(), func(o report.Obligation) bool { return keyHasFunc(o, all) }))
				}
			}
		},
	})
}
