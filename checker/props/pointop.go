package props

import (
	"fmt"
	"go/types"
	"math/big"

	"golang.org/x/tools/go/ssa"

	"verif/checker/absint"
	"verif/checker/load"
	"verif/checker/poly"
	"verif/checker/report"
)

// Point-operation recognition. The group-expression domain (C01) knows the point
// operations of the library by the functions that implement them. A helper it
// does not know (a value-returning `addCached`, a conversion written as a
// function instead of a method) is not a reason to give up: this file decides
// WHAT such a helper computes, by running it once in the field-expression
// domain (E9) on symbolic valid inputs and comparing the result — as an
// identity of rational functions in the input coordinates, modulo the curve
// equation of each input — with the candidates ±P, ±P±Q, 2P and the neutral
// element. If exactly such an identity holds (and the result is a consistent
// representation in its coordinate system, and no input is modified) the
// helper IS that group operation, for every input.

var pointKinds = map[string]bool{"Point": true, "projP2": true, "projP1xP1": true, "projCached": true, "affineCached": true}

func pointKindOf(t types.Type) (name string, ptr bool) {
	if pt, ok := t.(*types.Pointer); ok {
		t, ptr = pt.Elem(), true
	}
	n, ok := t.(*types.Named)
	if !ok || n.Obj().Pkg() == nil || n.Obj().Pkg().Path() != load.RootPath || !pointKinds[n.Obj().Name()] {
		return "", false
	}
	return n.Obj().Name(), ptr
}

type symIn struct {
	x, y    *absint.FE // affine coordinates
	X, Y, Z string     // names of the projective variables (for the curve rule)
}

// symbolic valid input number i of the given kind: fields by canonical name
func (s *e9) symInput(kind string, i int) (map[string]absint.Val, symIn) {
	d := s.d
	n := fmt.Sprint(i + 1)
	X, Y, Z := d.Var("X"+n), d.Var("Y"+n), d.Var("Z"+n)
	zi := d.Inv(Z)
	in := symIn{x: d.Mul(X, zi), y: d.Mul(Y, zi), X: "X" + n, Y: "Y" + n, Z: "Z" + n}
	two := d.Const(bigInt(2))
	dd := d.Const(absint.DSpec())
	switch kind {
	case "Point":
		return map[string]absint.Val{"x": X, "y": Y, "z": Z, "t": d.Mul(d.Mul(X, Y), zi)}, in
	case "projP2":
		return map[string]absint.Val{"X": X, "Y": Y, "Z": Z}, in
	case "projP1xP1":
		a, b := d.Var("A"+n), d.Var("B"+n)
		return map[string]absint.Val{"X": d.Mul(X, a), "Z": d.Mul(Z, a), "Y": d.Mul(Y, b), "T": d.Mul(Z, b)}, in
	case "projCached":
		return map[string]absint.Val{"YplusX": d.Add(Y, X), "YminusX": d.Sub(Y, X), "Z": Z, "T2d": d.Mul(d.Mul(two, dd), d.Mul(d.Mul(X, Y), zi))}, in
	case "affineCached":
		return map[string]absint.Val{"YplusX": d.Add(in.y, in.x), "YminusX": d.Sub(in.y, in.x), "T2d": d.Mul(d.Mul(two, dd), d.Mul(in.x, in.y))}, in
	}
	return nil, in
}

// affine coordinates of an output value of the given kind, and whether its redundant coordinate is consistent
func (s *e9) affineOut(kind string, f func(string) *absint.FE, eq func(a, b *absint.FE) bool) (x, y *absint.FE, ok bool) {
	d := s.d
	two := d.Const(bigInt(2))
	dd := d.Const(absint.DSpec())
	switch kind {
	case "Point":
		zi := d.Inv(f("z"))
		x, y = d.Mul(f("x"), zi), d.Mul(f("y"), zi)
		return x, y, eq(d.Mul(f("t"), zi), d.Mul(x, y))
	case "projP2":
		zi := d.Inv(f("Z"))
		return d.Mul(f("X"), zi), d.Mul(f("Y"), zi), true
	case "projP1xP1":
		return d.Mul(f("X"), d.Inv(f("Z"))), d.Mul(f("Y"), d.Inv(f("T"))), true
	case "projCached":
		h := d.Inv(d.Mul(two, f("Z")))
		x, y = d.Mul(d.Sub(f("YplusX"), f("YminusX")), h), d.Mul(d.Add(f("YplusX"), f("YminusX")), h)
		return x, y, eq(d.Mul(f("T2d"), d.Inv(f("Z"))), d.Mul(d.Mul(two, dd), d.Mul(x, y)))
	case "affineCached":
		h := d.Inv(two)
		x, y = d.Mul(d.Sub(f("YplusX"), f("YminusX")), h), d.Mul(d.Add(f("YplusX"), f("YminusX")), h)
		return x, y, eq(f("T2d"), d.Mul(d.Mul(two, dd), d.Mul(x, y)))
	}
	return nil, nil, false
}

func (c *Ctx) recognisePointOp(cfg string, fn *ssa.Function) (*absint.PointOp, bool) {
	if c.pointOps == nil {
		c.pointOps = map[string]*absint.PointOp{}
	}
	key := cfg + "/" + fn.String()
	if op, ok := c.pointOps[key]; ok {
		return op, op != nil
	}
	c.pointOps[key] = nil
	if fn.Pkg == nil || fn.Pkg.Pkg.Path() != load.RootPath || len(fn.Blocks) == 0 || len(fn.Params) == 0 {
		return nil, false
	}
	res := fn.Signature.Results()
	if res.Len() > 1 {
		return nil, false
	}
	type prm struct {
		kind string
		ptr  bool
	}
	var ps []prm
	for _, p := range fn.Params {
		k, ptr := pointKindOf(p.Type())
		if k == "" {
			return nil, false
		}
		ps = append(ps, prm{k, ptr})
	}
	outKind, outPtr := "", false
	if res.Len() == 1 {
		outKind, outPtr = pointKindOf(res.At(0).Type())
		if outKind == "" {
			return nil, false
		}
	}
	// silent session: a failed recognition is not a problem of the property
	saved := c.Set
	c.Set = &report.Set{}
	s := c.newE9(cfg, nil)
	c.Set = saved
	if !s.ok {
		return nil, false
	}
	d := s.d
	// inputs: parameter 0 is the output when it is a pointer and the function returns nothing or that pointer
	outIsParam0 := ps[0].ptr && (res.Len() == 0 || outPtr)
	var ins []symIn
	var inIdx []int
	var args []absint.Val
	before := map[int]absint.Val{}
	var objs []absint.Ptr
	for i, p := range ps {
		t := s.namedType(s.p.Root, p.kind)
		if i == 0 && outIsParam0 {
			o := s.newStruct(p.kind, "out", nil)
			args = append(args, o)
			objs = append(objs, o)
			continue
		}
		fields, si := s.symInput(p.kind, len(ins))
		ins = append(ins, si)
		inIdx = append(inIdx, i)
		if p.ptr {
			o := s.newStruct(p.kind, fmt.Sprintf("in%d", i), fields)
			args = append(args, o)
			objs = append(objs, o)
			before[i] = absint.CopyVal(o.Obj.Val)
		} else {
			args = append(args, s.in.StructVal(t, fields))
			objs = append(objs, absint.Ptr{})
		}
	}
	if len(ins) > 2 {
		return nil, false
	}
	out := s.in.Run(fn, args)
	if out.Kind != absint.ExitReturn {
		return nil, false
	}
	// inputs passed by pointer must be unchanged
	for i, v := range before {
		if !absint.SameVal(v, objs[i].Obj.Val) {
			return nil, false
		}
	}
	// the output value
	var outVal absint.Val
	kind := outKind
	switch {
	case outIsParam0:
		outVal, kind = objs[0].Obj.Val, ps[0].kind
		if res.Len() == 1 {
			if pr, ok := out.Results[0].(absint.Ptr); !ok || pr.Obj != objs[0].Obj {
				return nil, false
			}
		}
	case res.Len() == 1 && !outPtr:
		outVal = out.Results[0]
	default:
		return nil, false
	}
	agg, ok := outVal.(*absint.Agg)
	if !ok {
		return nil, false
	}
	t := s.namedType(s.p.Root, kind)
	field := func(name string) *absint.FE {
		i := load.FieldIndex(t, name)
		if i < 0 || i >= len(agg.Elems) {
			return d.Var("?" + name)
		}
		fe, _ := agg.Elems[i].(*absint.FE)
		if fe == nil {
			return d.Var("?" + name)
		}
		return fe
	}
	// equality modulo the curve equation of every input: Z^4 -> Y²Z² − X²Z² − dX²Y²
	eq := func(a, b *absint.FE) bool {
		diff := a.Num.Mul(b.Den).Sub(b.Num.Mul(a.Den))
		R := d.R
		for _, si := range ins {
			X, Y, Z := R.Var(si.X), R.Var(si.Y), R.Var(si.Z)
			repl := Y.Mul(Y).Mul(Z).Mul(Z).Sub(X.Mul(X).Mul(Z).Mul(Z)).Sub(R.Const(absint.DSpec()).Mul(X).Mul(X).Mul(Y).Mul(Y))
			diff = diff.ReduceByRule(si.Z, 4, repl)
		}
		return diff.IsZero()
	}
	x, y, consistent := s.affineOut(kind, field, eq)
	if x == nil || !consistent {
		return nil, false
	}
	zero, one := d.Const(bigInt(0)), d.Const(bigInt(1))
	type cand struct {
		x, y  *absint.FE
		coeff []int
	}
	signed := func(si symIn, k int) (*absint.FE, *absint.FE) {
		if k < 0 {
			return d.Neg(si.x), si.y
		}
		return si.x, si.y
	}
	var cands []cand
	cands = append(cands, cand{zero, one, make([]int, len(ins))})
	for i, si := range ins {
		for _, k := range []int{1, -1} {
			cx, cy := signed(si, k)
			co := make([]int, len(ins))
			co[i] = k
			cands = append(cands, cand{cx, cy, co})
			dx, dy := s.addLaw(cx, cy, cx, cy)
			co2 := make([]int, len(ins))
			co2[i] = 2 * k
			cands = append(cands, cand{dx, dy, co2})
		}
	}
	if len(ins) == 2 {
		for _, k0 := range []int{1, -1} {
			for _, k1 := range []int{1, -1} {
				ax, ay := signed(ins[0], k0)
				bx, by := signed(ins[1], k1)
				sx, sy := s.addLaw(ax, ay, bx, by)
				cands = append(cands, cand{sx, sy, []int{k0, k1}})
			}
		}
	}
	// Non-degeneracy. Equality with the group law as rational functions (modulo the curve equation) says nothing
	// where the helper's own denominators vanish: an incomplete addition law — the "dedicated" one for distinct
	// points, any formula that divides by x1y2 − x2y1 — agrees with the law on generic inputs and yields Z = 0 on a
	// thin set related to the small-order points. The unified law of the library divides by 1 ± d·x1x2y1y2 only,
	// which never vanishes (d is a non-square). So a helper is recognised only if none of the polynomials it
	// effectively divides by (numerators of its Z-like output coordinates, denominators of all output
	// coordinates) vanishes identically on the loci where incomplete laws fail: an input at the neutral element,
	// at the order-2 point, at either order-4 point, and the second input equal to ±(first input) + S for S among
	// those four points.
	nondegenerate := func() bool {
		R := d.R
		im := R.Const(absint.SqrtM1Spec())
		type sub map[string]*poly.Poly
		var subs []sub
		for _, si := range ins {
			X, Y, Z := si.X, si.Y, si.Z
			subs = append(subs,
				sub{X: R.Int(0), Y: R.Var(Z)},               // neutral element (0:Z:Z)
				sub{X: R.Int(0), Y: R.Var(Z).Neg()},         // order 2 (0:−Z:Z)
				sub{X: im.Mul(R.Var(Z)), Y: R.Int(0)},       // order 4 (iZ:0:Z)
				sub{X: im.Mul(R.Var(Z)).Neg(), Y: R.Int(0)}, // order 4 (−iZ:0:Z)
			)
		}
		if len(ins) == 2 {
			a, b := ins[0], ins[1]
			X1, Y1, Z1 := R.Var(a.X), R.Var(a.Y), R.Var(a.Z)
			for _, sgn := range []int64{1, -1} {
				sg := R.Int(sgn)
				subs = append(subs,
					sub{b.X: X1.Mul(sg), b.Y: Y1, b.Z: Z1},                             // ±P
					sub{b.X: X1.Mul(sg).Neg(), b.Y: Y1.Neg(), b.Z: Z1},                 // ±P + (0,−1)
					sub{b.X: im.Mul(Y1).Mul(sg), b.Y: im.Mul(X1), b.Z: Z1},             // ±P + (i,0)  [(x,y)+(i,0) = (iy, ix)]
					sub{b.X: im.Mul(Y1).Mul(sg).Neg(), b.Y: im.Mul(X1).Neg(), b.Z: Z1}, // ±P + (−i,0)
				)
			}
		}
		var divisors []*poly.Poly
		zlike := map[string][]string{"Point": {"z"}, "projP2": {"Z"}, "projP1xP1": {"Z", "T"}, "projCached": {"Z"}, "affineCached": {}}[kind]
		for _, n := range zlike {
			divisors = append(divisors, field(n).Num)
		}
		for _, e := range agg.Elems {
			if fe, ok := e.(*absint.FE); ok {
				divisors = append(divisors, fe.Den)
			}
		}
		for _, sb := range subs {
			for _, dv := range divisors {
				q := dv
				for name, repl := range sb {
					q = q.Subst(name, repl)
				}
				for _, si := range ins {
					X, Y, Z := R.Var(si.X), R.Var(si.Y), R.Var(si.Z)
					repl := Y.Mul(Y).Mul(Z).Mul(Z).Sub(X.Mul(X).Mul(Z).Mul(Z)).Sub(R.Const(absint.DSpec()).Mul(X).Mul(X).Mul(Y).Mul(Y))
					q = q.ReduceByRule(si.Z, 4, repl)
				}
				if q.IsZero() {
					return false
				}
			}
		}
		return true
	}
	for _, cd := range cands {
		if eq(x, cd.x) && eq(y, cd.y) {
			if !nondegenerate() {
				c.Set.Note("[%s] %s agrees with a group operation on generic inputs but one of the quantities it divides by vanishes identically on a small-order locus (an incomplete formula): not recognised", cfg, load.ShortName(fn))
				return nil, false
			}
			op := &absint.PointOp{Coeff: make([]int, len(ps)), OutParam0: outIsParam0, ReturnsValue: res.Len() == 1 && !outPtr, ReturnsParam0: res.Len() == 1 && outPtr}
			for j, pi := range inIdx {
				op.Coeff[pi] = cd.coeff[j]
			}
			c.pointOps[key] = op
			c.Set.Note("[%s] %s is recognised as the group operation %s by evaluation in the field-expression domain (identity of rational functions modulo the curve equation)", cfg, load.ShortName(fn), op.Describe(fn))
			return op, true
		}
	}
	return nil, false
}

func bigInt(n int64) *big.Int { return big.NewInt(n) }
