package props

import (
	"fmt"
	"go/token"
	"go/types"
	"math/big"
	"sort"
	"strings"

	"golang.org/x/tools/go/ssa"

	"verif/checker/absint"
	"verif/checker/poly"
	"verif/checker/report"
)

func (c *Ctx) bitElem(in *absint.Interp, p types.Type, name string, width int) absint.Ptr {
	a := &absint.Agg{Elems: make([]absint.Val, 5)}
	for i := 0; i < 5; i++ {
		bv := absint.BVSym(fmt.Sprintf("%s.l%d", name, i), 0, 64)
		for j := width; j < 64; j++ {
			bv.Bits[j] = absint.Bit{Const: 0}
		}
		a.Elems[i] = bv
	}
	return absint.Ptr{Obj: in.NewObject(name, p, a)}
}

func bitBytes(in *absint.Interp, name string, n int) absint.SliceV {
	arr := &absint.Agg{Elems: make([]absint.Val, n)}
	for i := range arr.Elems {
		arr.Elems[i] = absint.BVSym(name, 8*i, 8)
	}
	obj := in.NewObject(name, types.NewArray(types.Typ[types.Uint8], int64(n)), arr)
	return absint.SliceV{Obj: obj, Len: n, Cap: n}
}

func bitOfVal(v absint.Val, i int) absint.Bit {
	switch x := v.(type) {
	case *absint.BV:
		if i < len(x.Bits) {
			return x.Bits[i]
		}
		return absint.Bit{Const: 0}
	case absint.Int:
		return absint.Bit{Const: int8(x.V.Bit(i))}
	}
	return absint.Bit{Const: -1, Top: true}
}

func symBit(src string, idx int) absint.Bit {
	return absint.Bit{Const: -1, Set: []string{fmt.Sprintf("%s:%d", src, idx)}}
}

// ruleFieldLayouts: E8 — bit layouts of Element.SetBytes and Element.bytes.
func (c *Ctx) ruleFieldLayouts(cfg string) {
	p := c.Prog(cfg)
	if p == nil {
		return
	}
	et := c.elementType(p)
	// SetBytes: limb k bit j = input bit 51k+j; bit 255 dropped
	{
		fname := "field.(*Element).SetBytes"
		o := report.Obligation{Rule: "E8-LAYOUT", Key: "E8-LAYOUT/" + fname, Config: cfg}
		if f := c.anchor(p, fname); f != nil {
			o.Pos = p.Rel(f.Pos())
			d := absint.NewBitDom(p)
			in := absint.New(p, d)
			v := c.bitElem(in, et, "old", 64)
			out := in.Run(f, []absint.Val{v, bitBytes(in, "x", 32)})
			if out.Kind != absint.ExitReturn {
				o.Detail = out.Undecided + out.PanicMsg
			} else {
				o.OK = true
				a := v.Obj.Val.(*absint.Agg)
				for k := 0; k < 5 && o.OK; k++ {
					for j := 0; j < 64; j++ {
						want := absint.Bit{Const: 0}
						if j < 51 {
							want = symBit("x", 51*k+j)
						}
						if got := bitOfVal(a.Elems[k], j); !got.Equal(want) {
							o.OK = false
							o.Detail = fmt.Sprintf("limb %d bit %d is %s, expected %s", k, j, got, want)
							break
						}
					}
				}
				if o.OK {
					o.Detail = "limb k = input bits [51k, 51k+51) exactly (little-endian), upper limb bits zero: the value is the low 255 bits of the input, bit 255 is ignored, no range check (2^255−19 … 2^255−1 decode to 0 … 18 mod p)"
				}
			}
		}
		c.Set.Add(o)
	}
	// bytes: output bit 8m+j = bit (8m+j−51k) of reduced limb k; given limbs < 2^51 the output integer is Σ l_k·2^(51k)
	{
		fname := "field.(*Element).bytes"
		o := report.Obligation{Rule: "E8-LAYOUT", Key: "E8-LAYOUT/" + fname, Config: cfg}
		if f := c.anchor(p, fname); f != nil {
			o.Pos = p.Rel(f.Pos())
			d := absint.NewBitDom(p)
			reduceCalls := 0
			d.Prims["field.(*Element).reduce"] = func(in *absint.Interp, site ssa.Instruction, args []absint.Val) []absint.Val {
				// reduce's contract (value < p, every limb < 2^51) is established in limb mode; here its output is named r.l0…r.l4
				reduceCalls++
				in.Store(site, args[0], c.bitElem(in, et, "r", 51).Obj.Val)
				return []absint.Val{args[0]}
			}
			in := absint.New(p, d)
			v := c.bitElem(in, et, "v", 64)
			buf := absint.Ptr{Obj: in.NewObject("out", types.NewArray(types.Typ[types.Uint8], 32), nil)}
			out := in.Run(f, []absint.Val{v, buf})
			if out.Kind != absint.ExitReturn {
				o.Detail = out.Undecided + out.PanicMsg
			} else if reduceCalls != 1 {
				o.Detail = fmt.Sprintf("reduce is applied %d times before serialising (expected once, on a copy)", reduceCalls)
			} else {
				o.OK = true
				el := in.SliceElems(nil, out.Results[0])
				if len(el) != 32 {
					o.OK = false
					o.Detail = "result is not 32 bytes"
				}
				for m := 0; m < 32 && o.OK; m++ {
					for j := 0; j < 8; j++ {
						pos := 8*m + j
						want := absint.Bit{Const: 0}
						if pos < 255 {
							want = symBit(fmt.Sprintf("r.l%d", pos/51), pos%51)
						}
						if got := bitOfVal(el[m], j); !got.Equal(want) {
							o.OK = false
							o.Detail = fmt.Sprintf("output bit %d (byte %d bit %d) is %s, expected %s", pos, m, j, got, want)
							break
						}
					}
				}
				// the source value is untouched (works on a copy)
				va := v.Obj.Val.(*absint.Agg)
				for k := 0; k < 5 && o.OK; k++ {
					if !bitOfVal(va.Elems[k], 0).Equal(symBit(fmt.Sprintf("v.l%d", k), 0)) {
						o.OK = false
						o.Detail = "bytes modifies its receiver (reduce must run on a copy)"
					}
				}
				if o.OK {
					o.Detail = "output bit n = bit (n mod 51) of reduced limb ⌊n/51⌋ for n < 255, bit 255 = 0, pieces pairwise disjoint: with every reduced limb < 2^51 the 32 bytes are the little-endian integer Σ l_k·2^(51k); reduce runs once, on a copy"
				}
			}
		}
		c.Set.Add(o)
	}
}

// ruleFieldPredicates: Equal compares the whole canonical encodings; IsNegative is bit 0 of the encoding.
func (c *Ctx) ruleFieldPredicates(cfg string) {
	p := c.Prog(cfg)
	if p == nil {
		return
	}
	et := c.elementType(p)
	// Both predicates are specified on the canonical bits can(X)_0…can(X)_254 of an operand X (the fully
	// reduced value). An implementation may obtain them through Bytes() (bit 8i+j of byte i; bit 255 is 0) or
	// through reduce() on a copy (bit j of limb k is can_(51k+j); both established by E8-LAYOUT / REDUCE-FORM).
	mk := func() (*absint.BitDom, *absint.Interp, *[]string) {
		d := absint.NewBitDom(p)
		var encoded []string
		nameOf := func(in *absint.Interp, site ssa.Instruction, ptr absint.Val) string {
			// the operand must still hold the pristine limbs of one input element
			a, _ := in.Load(site, ptr).(*absint.Agg)
			if a == nil || len(a.Elems) != 5 {
				in.Undecided(site, "canonical form of something that is not an Element")
			}
			name := ""
			for k := 0; k < 5; k++ {
				for j := 0; j < 64; j++ {
					b := bitOfVal(a.Elems[k], j)
					if len(b.Set) != 1 || b.Neg || b.Top {
						in.Undecided(site, "canonical form of an Element that is not an unmodified input (limb %d bit %d is %v)", k, j, b)
					}
					var src string
					var idx, lk int
					if n, _ := fmt.Sscanf(strings.Replace(b.Set[0], ":", " ", 1), "%s %d", &src, &idx); n != 2 || idx != j {
						in.Undecided(site, "canonical form of an Element whose limbs were rearranged")
					}
					dot := strings.LastIndex(src, ".l")
					if dot < 0 {
						in.Undecided(site, "canonical form of an Element whose limbs were rearranged")
					}
					fmt.Sscanf(src[dot+2:], "%d", &lk)
					if lk != k || (name != "" && src[:dot] != name) {
						in.Undecided(site, "canonical form of an Element whose limbs were rearranged")
					}
					name = src[:dot]
				}
			}
			return name
		}
		d.Prims["field.(*Element).Bytes"] = func(in *absint.Interp, site ssa.Instruction, args []absint.Val) []absint.Val {
			name := nameOf(in, site, args[0])
			encoded = append(encoded, name)
			s := bitBytes(in, "can("+name+")", 32)
			top := in.SliceElems(site, s)[31].(*absint.BV)
			top.Bits[7] = absint.Bit{Const: 0}
			in.SetSliceElem(site, s, 31, top)
			return []absint.Val{s}
		}
		d.Prims["field.(*Element).reduce"] = func(in *absint.Interp, site ssa.Instruction, args []absint.Val) []absint.Val {
			name := nameOf(in, site, args[0])
			encoded = append(encoded, name)
			a := &absint.Agg{Elems: make([]absint.Val, 5)}
			for k := 0; k < 5; k++ {
				bv := absint.BVSym("can("+name+")", 51*k, 64)
				for j := 51; j < 64; j++ {
					bv.Bits[j] = absint.Bit{Const: 0}
				}
				a.Elems[k] = bv
			}
			in.Store(site, args[0], a)
			return []absint.Val{args[0]}
		}
		return d, absint.New(p, d), &encoded
	}
	// Equal
	{
		fname := "field.(*Element).Equal"
		o := report.Obligation{Rule: "E8-PRED", Key: "E8-PRED/" + fname, Config: cfg}
		if f := c.anchor(p, fname); f != nil {
			o.Pos = p.Rel(f.Pos())
			_, in, _ := mk()
			v, u := c.bitElem(in, et, "v", 64), c.bitElem(in, et, "u", 64)
			out := in.Run(f, []absint.Val{v, u})
			if out.Kind != absint.ExitReturn {
				o.Detail = out.Undecided + out.PanicMsg
			} else {
				var want []string
				for k := 0; k < 255; k++ {
					want = append(want, absint.XorAtom(fmt.Sprintf("can(u):%d", k), fmt.Sprintf("can(v):%d", k)))
				}
				sort.Strings(want)
				spec := absint.Bit{Const: -1, Neg: true, Set: want}
				o.OK = bitOfVal(out.Results[0], 0).Equal(spec)
				for j := 1; j < 64; j++ {
					if !bitOfVal(out.Results[0], j).Equal(absint.Bit{Const: 0}) {
						o.OK = false
					}
				}
				o.Detail = "Equal(v,u) = ¬OR_{k<255}(can(v)_k ⊕ can(u)_k): 1 exactly when all 255 bits of the two fully reduced values agree (obtained through Bytes() or reduce(); every comparison primitive is interpreted bit for bit), all other result bits 0"
				if !o.OK {
					got := bitOfVal(out.Results[0], 0)
					o.Detail = fmt.Sprintf("Equal is not the comparison of all 255 canonical bits of both operands (bit 0 of the result is %v over %d difference atoms): a truncated or representation-level comparison distinguishes representations of one value or misses differing bits", got.Neg, len(got.Set))
				}
			}
		}
		c.Set.Add(o)
	}
	// IsNegative
	{
		fname := "field.(*Element).IsNegative"
		o := report.Obligation{Rule: "E8-PRED", Key: "E8-PRED/" + fname, Config: cfg}
		if f := c.anchor(p, fname); f != nil {
			o.Pos = p.Rel(f.Pos())
			_, in, _ := mk()
			v := c.bitElem(in, et, "v", 64)
			out := in.Run(f, []absint.Val{v})
			if out.Kind != absint.ExitReturn {
				o.Detail = out.Undecided + out.PanicMsg
			} else {
				o.OK = bitOfVal(out.Results[0], 0).Equal(symBit("can(v)", 0))
				for j := 1; j < 64; j++ {
					if !bitOfVal(out.Results[0], j).Equal(absint.Bit{Const: 0}) {
						o.OK = false
					}
				}
				o.Detail = "IsNegative(v) = can(v)_0, bit 0 of the fully reduced value (read from Bytes() or from reduce() on a copy), all other result bits 0"
				if !o.OK {
					o.Detail = fmt.Sprintf("IsNegative is %v, not bit 0 of the canonical encoding: it would differ between representations of the same value", out.Results[0])
				}
			}
		}
		c.Set.Add(o)
	}
}

// ruleSelectSwap: E6 — with cond ∈ {0,1} Select chooses and Swap exchanges, limb for limb.
func (c *Ctx) ruleSelectSwap(cfg string, box limbBox) {
	p := c.Prog(cfg)
	if p == nil {
		return
	}
	for _, fname := range []string{"field.(*Element).Select", "field.(*Element).Swap"} {
		f := c.anchor(p, fname)
		if f == nil {
			continue
		}
		for cond := int64(0); cond <= 1; cond++ {
			o := report.Obligation{Rule: "E6-MUX", Key: fmt.Sprintf("E6-MUX/%s/cond=%d", fname, cond), Config: cfg, Pos: p.Rel(f.Pos())}
			d := absint.NewLimbDom(p, true)
			in := absint.New(p, d)
			in.Exec(func() []absint.Val { in.RunInit(p.Field); return nil })
			et := c.elementType(p)
			v, a, b := newLimbElem(in, d, et, "v", box), newLimbElem(in, d, et, "a", box), newLimbElem(in, d, et, "b", box)
			var out absint.Outcome
			var want map[string]string
			if strings.HasSuffix(fname, "Select") {
				out = in.Run(f, []absint.Val{v, a, b, absint.MkInt(cond)})
				want = map[string]string{"v": "b"}
				if cond == 1 {
					want = map[string]string{"v": "a"}
				}
			} else {
				out = in.Run(f, []absint.Val{v, a, absint.MkInt(cond)})
				want = map[string]string{"v": "v", "a": "a"}
				if cond == 1 {
					want = map[string]string{"v": "a", "a": "v"}
				}
			}
			if out.Kind != absint.ExitReturn {
				o.Detail = out.Undecided + out.PanicMsg
				c.Set.Add(o)
				continue
			}
			o.OK = true
			objs := map[string]absint.Ptr{"v": v, "a": a, "b": b}
			var ks []string
			for k := range want {
				ks = append(ks, k)
			}
			sort.Strings(ks)
			for _, dst := range ks {
				_, limbs := elemValue(d, objs[dst])
				for i := 0; i < 5; i++ {
					if limbs == nil || limbs[i].Key() != d.R.Var(fmt.Sprintf("%s%d", want[dst], i)).Key() {
						o.OK = false
						got := "?"
						if limbs != nil {
							got = limbs[i].String()
						}
						o.Detail = fmt.Sprintf("with cond=%d limb %d of %s is %s, expected the limb of %s", cond, i, dst, got, want[dst])
					}
				}
			}
			if o.OK {
				o.Detail = fmt.Sprintf("with cond=%d every limb of the result is exactly the corresponding limb of %v (bit-level evaluation of the mask arithmetic)", cond, want)
			}
			c.Set.Add(o)
		}
	}
}

// ruleSelfSwap justifies the Swap aliasing exception: with both operands the same element Swap is the identity.
func (c *Ctx) ruleSelfSwap(cfg string, box limbBox) {
	p := c.Prog(cfg)
	if p == nil {
		return
	}
	fname := "field.(*Element).Swap"
	f := c.anchor(p, fname)
	if f == nil {
		return
	}
	for cond := int64(0); cond <= 1; cond++ {
		o := report.Obligation{Rule: "E6-MUX", Key: fmt.Sprintf("E6-MUX/%s/self/cond=%d", fname, cond), Config: cfg, Pos: p.Rel(f.Pos())}
		d := absint.NewLimbDom(p, true)
		in := absint.New(p, d)
		in.Exec(func() []absint.Val { in.RunInit(p.Field); return nil })
		v := newLimbElem(in, d, c.elementType(p), "v", box)
		out := in.Run(f, []absint.Val{v, v, absint.MkInt(cond)})
		if out.Kind != absint.ExitReturn {
			o.Detail = out.Undecided + out.PanicMsg
			c.Set.Add(o)
			continue
		}
		o.OK = true
		_, limbs := elemValue(d, v)
		for i := 0; i < 5; i++ {
			if limbs == nil || limbs[i].Key() != d.R.Var(fmt.Sprintf("v%d", i)).Key() {
				o.OK = false
				o.Detail = fmt.Sprintf("x.Swap(x, %d) changes limb %d of x (the aliasing exception for Swap assumes a self-swap is the identity)", cond, i)
			}
		}
		if o.OK {
			o.Detail = fmt.Sprintf("x.Swap(x, %d) leaves x unchanged: the masked difference is 0 and every write is a no-op (this is what the Swap aliasing exception rests on)", cond)
		}
		c.Set.Add(o)
	}
}

// ruleWideAndReduce: SetWideBytes congruence (given SetBytes' layout) and the form of reduce.
func (c *Ctx) ruleWideAndReduce(cfg string, box limbBox) {
	p := c.Prog(cfg)
	if p == nil {
		return
	}
	et := c.elementType(p)
	// SetWideBytes
	{
		fname := "field.(*Element).SetWideBytes"
		o := report.Obligation{Rule: "E5-CONG", Key: "E5-CONG/" + fname, Config: cfg}
		if f := c.anchor(p, fname); f != nil {
			o.Pos = p.Rel(f.Pos())
			d := absint.NewLimbDom(p, true)
			d.Prims = map[string]func(*absint.Interp, ssa.Instruction, []absint.Val) []absint.Val{}
			type sbCall struct{ off, n int }
			var calls []sbCall
			mask51 := new(big.Int).Sub(new(big.Int).Lsh(big.NewInt(1), 51), big.NewInt(1))
			d.Prims["field.(*Element).SetBytes"] = func(in *absint.Interp, site ssa.Instruction, args []absint.Val) []absint.Val {
				s, _ := args[1].(absint.SliceV)
				calls = append(calls, sbCall{s.Off, s.Len})
				if s.Len != 32 {
					return []absint.Val{absint.Nil{}, absint.ErrV{Msg: "length"}}
				}
				// E8-LAYOUT: limbs are the 51-bit slices of the low 255 bits of these 32 bytes
				a := &absint.Agg{Elems: make([]absint.Val, 5)}
				for i := range a.Elems {
					a.Elems[i] = d.Sym(fmt.Sprintf("s%d_%d", s.Off, i), big.NewInt(0), mask51)
				}
				in.Store(site, args[0], a)
				return []absint.Val{args[0], absint.Nil{}}
			}
			in := absint.New(p, d)
			in.Exec(func() []absint.Val { in.RunInit(p.Field); return nil })
			v := newLimbElem(in, d, et, "v", box)
			arr := &absint.Agg{Elems: make([]absint.Val, 64)}
			for k := range arr.Elems {
				arr.Elems[k] = d.Sym(fmt.Sprintf("x%d", k), big.NewInt(0), big.NewInt(255))
			}
			x := absint.SliceV{Obj: in.NewObject("x", types.NewArray(types.Typ[types.Uint8], 64), arr), Len: 64, Cap: 64}
			out := in.Run(f, []absint.Val{v, x})
			if out.Kind != absint.ExitReturn {
				o.Detail = out.Undecided + out.PanicMsg
			} else {
				got, _ := elemValue(d, v)
				sv := func(off int) *poly.Poly {
					s := d.R.Int(0)
					for i := 0; i < 5; i++ {
						s = s.Add(d.R.Var(fmt.Sprintf("s%d_%d", off, i)).Scale(new(big.Int).Lsh(big.NewInt(1), uint(51*i))))
					}
					return s
				}
				pow := func(k uint) *big.Int { return new(big.Int).Lsh(big.NewInt(1), k) }
				// X = lo + 2^255·msb(x31) + 2^256·(hi + 2^255·msb(x63)),  msb(b) = ⌊b/128⌋ = h7(b)
				h7 := func(b string) *poly.Poly { return d.R.BitVar("h7(" + d.R.Var(b).Key() + ")") }
				want := sv(0).Add(h7("x31").Scale(pow(255))).Add(sv(32).Scale(pow(256))).Add(h7("x63").Scale(pow(511)))
				okCalls := len(calls) == 2 && calls[0] == (sbCall{0, 32}) && calls[1] == (sbCall{32, 32})
				if got == nil {
					o.Detail = "an output limb has no polynomial form (possible wrap-around)"
				} else if ok, why := congruentModP(got.Sub(want)); !ok || !okCalls {
					o.Detail = "SetWideBytes is not ≡ the 512-bit little-endian integer (mod p): " + why
					if !okCalls {
						o.Detail = fmt.Sprintf("SetWideBytes does not decode x[0:32] and x[32:64] with SetBytes (calls: %v)", calls)
					}
				} else {
					bad := 0
					for _, ob := range in.Obls {
						if !ob.OK {
							bad++
						}
					}
					o.OK = bad == 0
					o.Detail = fmt.Sprintf("val(v) ≡ lo + 2^255·⌊x31/128⌋ + 2^256·hi + 2^511·⌊x63/128⌋ (mod p) with lo, hi the SetBytes decodings of the two halves — i.e. the 512-bit little-endian integer mod p (folding constants 19, 38, 722 verified as coefficients); %d machine obligations discharged", len(in.Obls))
				}
			}
		}
		c.Set.Add(o)
	}
	// reduce
	{
		fname := "field.(*Element).reduce"
		o := report.Obligation{Rule: "REDUCE-FORM", Key: "REDUCE-FORM/" + fname, Config: cfg}
		if f := c.anchor(p, fname); f != nil {
			o.Pos = p.Rel(f.Pos())
			r := c.limbPoly(cfg, fname, box)
			if r != nil {
				if r.out.Kind != absint.ExitReturn {
					o.Detail = r.out.Undecided + r.out.PanicMsg
				} else {
					a := r.elems[0].Obj.Val.(*absint.Agg)
					mask51 := new(big.Int).Sub(new(big.Int).Lsh(big.NewInt(1), 51), big.NewInt(1))
					masked := true
					for i := 0; i < 5; i++ {
						_, hi, ok := valBounds(a.Elems[i])
						if !ok || hi.Cmp(mask51) > 0 {
							masked = false
						}
					}
					got, _ := elemValue(r.d, r.elems[0])
					in0 := r.d.R.Int(0)
					for i := 0; i < 5; i++ {
						in0 = in0.Add(r.d.R.Var(fmt.Sprintf("v%d", i)).Scale(new(big.Int).Lsh(big.NewInt(1), uint(51*i))))
					}
					form := false
					why := "no polynomial form"
					if got != nil {
						// residual mod p must be 19·(c − carry-out): two carry symbols with coefficients ±19
						diff := got.Sub(in0)
						var coeffs []*big.Int
						nonH := false
						diff.Terms(func(vars map[string]int, co *big.Int) {
							m := new(big.Int).Mod(co, absint.P25519)
							if m.Sign() == 0 {
								return
							}
							if len(vars) != 1 {
								nonH = true
							}
							for v, e := range vars {
								if !strings.HasPrefix(v, "h51") || e != 1 {
									nonH = true
								}
							}
							coeffs = append(coeffs, m)
						})
						if !nonH && len(coeffs) == 2 {
							s := new(big.Int).Add(coeffs[0], coeffs[1])
							s.Mod(s, absint.P25519)
							n19 := big.NewInt(19)
							if s.Sign() == 0 && (coeffs[0].Cmp(n19) == 0 || coeffs[1].Cmp(n19) == 0) {
								form = true
							}
						}
						why = fmt.Sprintf("residual has %d non-vanishing terms", len(coeffs))
					}
					bad := 0
					for _, ob := range r.in.Obls {
						if !ob.OK {
							bad++
						}
					}
					// reference freeze (written here from the literature), evaluated in the same domain on the
					// same symbols: carry chain of v+19, conditional +19, second carry chain, 51-bit masks
					refOK := false
					refWhy := ""
					var vmax *big.Int
					{
						d2 := absint.NewLimbDom(p, true)
						in2 := absint.New(p, d2)
						in2.Exec(func() []absint.Val { in2.RunInit(p.Field); return nil })
						w := newLimbElem(in2, d2, et, "v", box)
						ro := in2.Exec(func() []absint.Val {
							in2.Call(nil, c.anchor(p, "field.(*Element).carryPropagate"), []absint.Val{w})
							L := w.Obj.Val.(*absint.Agg).Elems
							// the integer held after the light reduction, at the limb invariant: Σ hi_i·2^(51i)
							vmax = new(big.Int)
							for i := 4; i >= 0; i-- {
								_, hi, ok := valBounds(L[i])
								if !ok {
									vmax = nil
									break
								}
								vmax.Lsh(vmax, 51).Add(vmax, hi)
							}
							u := func(k int64) absint.Val { return absint.MkInt(k) }
							bin := in2.BinOpU64
							cc := bin(token.SHR, bin(token.ADD, L[0], u(19)), u(51))
							for i := 1; i < 5; i++ {
								cc = bin(token.SHR, bin(token.ADD, L[i], cc), u(51))
							}
							m := absint.Int{V: new(big.Int).Set(mask51)}
							t := bin(token.ADD, L[0], bin(token.MUL, u(19), cc))
							outs := make([]absint.Val, 5)
							for i := 0; i < 4; i++ {
								nx := bin(token.ADD, L[i+1], bin(token.SHR, t, u(51)))
								outs[i] = bin(token.AND, t, m)
								t = nx
							}
							outs[4] = bin(token.AND, t, m)
							return outs
						})
						if ro.Kind != absint.ExitReturn {
							refWhy = "reference model: " + ro.Undecided + ro.PanicMsg
						} else {
							refOK = true
							_, gl := elemValue(r.d, r.elems[0])
							for i := 0; i < 5; i++ {
								rp := valPoly(d2, ro.Results[i])
								if gl == nil || rp == nil || gl[i].Key() != rp.Key() {
									refOK = false
									refWhy = fmt.Sprintf("limb %d differs from the reference freeze (carry chain of v+19, then v+19c, masks)", i)
									break
								}
							}
						}
					}
					if !refOK {
						why = refWhy
					}
					o.OK = masked && form && bad == 0 && refOK
					o.Detail = "reduce is limb-for-limb the reference freeze (carryPropagate; c = carry of v+19 through all five limbs; v += 19c; second carry chain; 51-bit masks); every output limb ≤ 2^51−1 at the invariant; Σ out_i·2^(51i) ≡ val(v) + 19·(c − carry-out of limb 4) (mod p) with c the carry of v+19 — value preserved iff c equals that carry-out: the nested-floor lemma, whose side condition is the obligation REDUCE-RANGE"
					if !o.OK {
						o.Detail = fmt.Sprintf("reduce does not have the freeze form (limbs masked: %v, residual form: %v, matches reference: %v [%s], failing machine obligations: %d)", masked, form, refOK, why, bad)
					}
					// REDUCE-RANGE: the side condition of the nested-floor lemma (DESIGN §9) at the code's own bounds.
					// With V the integer held after carryPropagate: c = ⌊(V+19)/2^255⌋ (nested floors of non-negative
					// integers compose); if V < 2p then c ∈ {0,1}, the carry dropped by the second chain is
					// ⌊(V+19c)/2^255⌋ = c, and the result is V − c·p ∈ [0,p).
					ro2 := report.Obligation{Rule: "REDUCE-RANGE", Key: "REDUCE-RANGE/" + fname, Config: cfg, Pos: o.Pos}
					twoP := new(big.Int).Lsh(absint.P25519, 1)
					switch {
					case !o.OK:
						ro2.Detail = "not applicable: reduce is not the reference freeze (REDUCE-FORM)"
					case vmax == nil:
						ro2.Detail = "no bound for the limbs after carryPropagate"
					case vmax.Cmp(twoP) >= 0:
						ro2.Detail = fmt.Sprintf("after carryPropagate the integer held may reach %s ≥ 2p: the single conditional subtraction of the freeze does not reach the canonical representative", vmax)
					default:
						ro2.OK = true
						ro2.Detail = fmt.Sprintf("after carryPropagate at the limb invariant the integer held is ≤ %s < 2p = %s: by the nested-floor lemma c = ⌊(V+19)/2^255⌋ ∈ {0,1}, the carry dropped at the end equals c, and reduce leaves V − c·p ∈ [0,p) — the canonical representative (given REDUCE-FORM: the code is limb for limb the reference freeze)", vmax, twoP)
					}
					c.Set.Add(ro2)
				}
			}
		}
		c.Set.Add(o)
	}
}
