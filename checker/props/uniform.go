package props

import (
	"fmt"
	"go/constant"
	"go/token"
	"go/types"
	"sort"
	"strings"

	"golang.org/x/tools/go/ssa"

	"verif/checker/load"
)

// Term-count uniformity (C01). The multi-scalar drivers are interpreted in the
// group domain for concrete term counts n = 0..N. What lets a small N stand for
// every n is that the code is *parametric* in the term index: the number of
// terms is used only as a loop bound, an allocation size and in the
// equal-length guard, and every access to a per-term array (points, scalars,
// the tables and digit arrays sized by them) is at the induction variable of a
// loop that runs over all of 0..n-1. This analysis establishes exactly that on
// the SSA form, and where the code is NOT parametric it says up to which n the
// special cases reach, so that the enumeration is extended to cover them:
//
//   - a comparison of the term count with a constant c  → n must reach c+2
//   - a per-term array indexed by a constant k          → n must reach k+3
//   - anything the analysis does not recognise          → n is raised to 6
//
// A threshold the enumeration cannot reach (above maxTermBound) is undecided.

const maxTermBound = 8

type uniformity struct {
	p         *load.Program
	need      int      // enumeration must reach this n
	irregular []string // unrecognised uses
	special   []string // recognised special cases (thresholds, constant indices)
	loops     int      // full-range loops over the terms
	accesses  int      // per-term accesses at a loop's induction variable
	seen      map[string]bool
}

func isTermSlice(t types.Type) bool {
	s, ok := t.Underlying().(*types.Slice)
	if !ok {
		return false
	}
	pt, ok := s.Elem().Underlying().(*types.Pointer)
	if !ok {
		return false
	}
	n, ok := pt.Elem().(*types.Named)
	return ok && n.Obj().Pkg() != nil && n.Obj().Pkg().Path() == load.RootPath && (n.Obj().Name() == "Point" || n.Obj().Name() == "Scalar")
}

func (u *uniformity) raise(n int, why string) {
	if n > u.need {
		u.need = n
	}
	u.special = append(u.special, why)
}

func (u *uniformity) odd(f *ssa.Function, in ssa.Instruction, what string) {
	u.irregular = append(u.irregular, fmt.Sprintf("%s (%s in %s)", what, u.p.Rel(in.Pos()), load.ShortName(f)))
}

func (u *uniformity) fn(f *ssa.Function, termParams []int) {
	key := load.ShortName(f) + fmt.Sprint(termParams)
	if u.seen[key] || len(f.Blocks) == 0 {
		return
	}
	u.seen[key] = true
	T := map[ssa.Value]bool{}  // per-term arrays
	L := map[ssa.Value]bool{}  // the term count
	LM := map[ssa.Value]bool{} // the term count minus a constant (start of a descending loop, mirror index)
	for _, i := range termParams {
		T[f.Params[i]] = true
	}
	isLen := func(v ssa.Value) (ssa.Value, bool) {
		c, ok := v.(*ssa.Call)
		if !ok {
			return nil, false
		}
		b, ok := c.Common().Value.(*ssa.Builtin)
		if !ok || (b.Name() != "len" && b.Name() != "cap") {
			return nil, false
		}
		return c.Common().Args[0], true
	}
	for changed := true; changed; {
		changed = false
		add := func(m map[ssa.Value]bool, v ssa.Value) {
			if !m[v] {
				m[v] = true
				changed = true
			}
		}
		for _, b := range f.Blocks {
			for _, in := range b.Instrs {
				v, isV := in.(ssa.Value)
				if !isV {
					continue
				}
				switch x := in.(type) {
				case *ssa.Call:
					if a, ok := isLen(x); ok && T[a] {
						add(L, v)
					} else if h := x.Common().StaticCallee(); h != nil && u.p.InRepo(h) {
						if _, isSl := x.Type().Underlying().(*types.Slice); isSl {
							for _, a := range x.Common().Args {
								if T[a] || L[a] {
									add(T, v)
								}
							}
						}
					}
				case *ssa.MakeSlice:
					if L[x.Len] {
						add(T, v)
					}
				case *ssa.Slice:
					if T[x.X] {
						add(T, v)
					}
				case *ssa.Phi:
					for _, e := range x.Edges {
						if T[e] {
							add(T, v)
						}
						if L[e] {
							add(L, v)
						}
					}
				case *ssa.Convert:
					if L[x.X] {
						add(L, v)
					}
				case *ssa.ChangeType:
					if T[x.X] {
						add(T, v)
					}
					if L[x.X] {
						add(L, v)
					}
				case *ssa.BinOp:
					if x.Op == token.SUB && L[x.X] {
						if _, isC := x.Y.(*ssa.Const); isC {
							add(LM, v)
						}
					}
				}
			}
		}
	}
	constOf := func(v ssa.Value) (int64, bool) {
		c, ok := v.(*ssa.Const)
		if !ok || c.Value == nil || c.Value.Kind() != constant.Int {
			return 0, false
		}
		return constant.Int64Val(c.Value)
	}
	// loop index: an induction variable running over all terms
	fullIndex := func(v ssa.Value) bool {
		if start, step, ok := load.Induction(v); ok && start == 0 && step == 1 {
			return true
		}
		// descending: phi(len-1, v-1)
		if ph, ok := v.(*ssa.Phi); ok && len(ph.Edges) == 2 {
			for i := 0; i < 2; i++ {
				if LM[ph.Edges[i]] {
					if dec, ok := ph.Edges[1-i].(*ssa.BinOp); ok && dec.X == ssa.Value(ph) {
						if c, isC := constOf(dec.Y); isC && ((dec.Op == token.SUB && c == 1) || (dec.Op == token.ADD && c == -1)) {
							return true
						}
					}
				}
			}
		}
		// mirror: (len-1) - idx
		if bo, ok := v.(*ssa.BinOp); ok && bo.Op == token.SUB && LM[bo.X] {
			if start, step, ok := load.Induction(bo.Y); ok && start == 0 && step == 1 {
				return true
			}
		}
		return false
	}
	// term indices: induction variables that run over the terms
	I := map[ssa.Value]bool{}
	for _, b := range f.Blocks {
		for _, in := range b.Instrs {
			switch x := in.(type) {
			case *ssa.IndexAddr:
				if T[x.X] && fullIndex(x.Index) {
					I[x.Index] = true
				}
			case *ssa.BinOp:
				for _, pr := range [][2]ssa.Value{{x.X, x.Y}, {x.Y, x.X}} {
					if (L[pr[0]] || LM[pr[0]]) && fullIndex(pr[1]) {
						I[pr[1]] = true
					}
				}
			}
		}
	}
	for idx := range I {
		if bo, ok := idx.(*ssa.BinOp); ok && bo.Op == token.SUB && LM[bo.X] {
			I[bo.Y] = true // the mirrored index is a term index too
		}
	}
	for _, b := range f.Blocks {
		for _, in := range b.Instrs {
			bo, ok := in.(*ssa.BinOp)
			if !ok || (!I[bo.X] && !I[bo.Y]) || L[bo.X] || L[bo.Y] || LM[bo.X] || LM[bo.Y] {
				continue
			}
			idx, other := bo.X, bo.Y
			if !I[idx] {
				idx, other = other, idx
			}
			// the induction step itself
			if ph, isPhi := idx.(*ssa.Phi); isPhi {
				step := false
				for _, e := range ph.Edges {
					if e == ssa.Value(bo) {
						step = true
					}
				}
				if step {
					continue
				}
			}
			cst, isC := constOf(other)
			switch bo.Op {
			case token.EQL, token.NEQ, token.LSS, token.LEQ, token.GTR, token.GEQ:
				if isC {
					if bo.Op == token.GEQ && cst == 0 && !I[bo.Y] {
						continue // descending loop condition idx >= 0
					}
					u.raise(int(cst)+3, fmt.Sprintf("a term index is compared with %d at %s", cst, u.p.Rel(in.Pos())))
					continue
				}
				if I[other] {
					u.odd(f, in, "two term indices are compared (terms are treated pairwise)")
					continue
				}
				u.odd(f, in, "a term index is compared with "+other.String())
			default:
				u.odd(f, in, "arithmetic on a term index: "+bo.String())
			}
		}
	}
	for _, b := range f.Blocks {
		for _, in := range b.Instrs {
			switch x := in.(type) {
			case *ssa.BinOp:
				lx, ly := L[x.X], L[x.Y]
				if !lx && !ly {
					if LM[x.X] || LM[x.Y] {
						other := x.Y
						if LM[x.Y] {
							other = x.X
						}
						switch {
						case x.Op == token.SUB && LM[x.X] && fullIndex(x):
							// mirror index
						case x.Op == token.LEQ || x.Op == token.GEQ || x.Op == token.LSS || x.Op == token.GTR || x.Op == token.EQL || x.Op == token.NEQ:
							if start, step, ok := load.Induction(other); ok && start == 0 && step == 1 {
								u.loops++
							} else if c, ok := constOf(other); ok {
								u.raise(int(c)+3, fmt.Sprintf("the term count (minus a constant) is compared with %d at %s", c, u.p.Rel(in.Pos())))
							} else {
								u.odd(f, in, "the term count (minus a constant) is compared with "+other.String())
							}
						default:
							u.odd(f, in, "arithmetic on the term count: "+x.String())
						}
					}
					continue
				}
				switch x.Op {
				case token.EQL, token.NEQ, token.LSS, token.LEQ, token.GTR, token.GEQ:
					other := x.Y
					if ly && !lx {
						other = x.X
					}
					if lx && ly {
						continue // the equal-length guard
					}
					if c, ok := constOf(other); ok {
						u.raise(int(c)+2, fmt.Sprintf("the term count is compared with %d at %s", c, u.p.Rel(in.Pos())))
						continue
					}
					if fullIndex(other) {
						u.loops++
						continue
					}
					if _, _, ok := load.Induction(other); ok {
						u.odd(f, in, "a loop over the terms that does not visit every index in steps of 1 from 0")
						continue
					}
					u.odd(f, in, "the term count is compared with "+other.String())
				case token.SUB:
					if _, isC := constOf(x.Y); isC && lx {
						continue // len - c: judged where it is used
					}
					u.odd(f, in, "arithmetic on the term count: "+x.String())
				default:
					u.odd(f, in, "arithmetic on the term count: "+x.String())
				}
			case *ssa.IndexAddr:
				if !T[x.X] {
					continue
				}
				if c, ok := constOf(x.Index); ok {
					u.raise(int(c)+3, fmt.Sprintf("a per-term array is accessed at the constant index %d at %s", c, u.p.Rel(in.Pos())))
					continue
				}
				if fullIndex(x.Index) {
					u.accesses++
					continue
				}
				u.odd(f, in, "a per-term array is accessed at an index that is not the induction variable of a loop over all terms")
			case *ssa.Slice:
				if T[x.X] && (x.Low != nil || x.High != nil || x.Max != nil) {
					u.odd(f, in, "a per-term array is resliced")
				}
			case *ssa.Store:
				if T[x.Val] {
					u.odd(f, in, "a per-term array is stored in memory")
				}
			case *ssa.MakeSlice:
				if L[x.Cap] && !L[x.Len] {
					u.odd(f, in, "a per-term array is allocated with a length that is not the term count")
				}
			case *ssa.Call:
				cc := x.Common()
				if bi, ok := cc.Value.(*ssa.Builtin); ok {
					if bi.Name() == "append" {
						for _, a := range cc.Args {
							if T[a] {
								u.odd(f, in, "append on a per-term array")
							}
						}
					}
					continue
				}
				h := cc.StaticCallee()
				var tp []int
				for j, a := range cc.Args {
					if T[a] {
						tp = append(tp, j)
					}
					if L[a] || LM[a] {
						u.odd(f, in, "the term count is passed to "+cc.Value.Name())
					}
				}
				if len(tp) == 0 {
					continue
				}
				if h == nil || !u.p.InRepo(h) || len(h.Params) != len(cc.Args) {
					u.odd(f, in, "a per-term array is passed to a function outside the analysed packages")
					continue
				}
				u.fn(h, tp)
			}
		}
	}
}

// termBound decides up to which term count a multi-scalar driver is enumerated.
func (c *Ctx) termBound(p *load.Program, f *ssa.Function, base int) (int, string, bool) {
	u := &uniformity{p: p, seen: map[string]bool{}}
	var tp []int
	for i, prm := range f.Params {
		if isTermSlice(prm.Type()) {
			tp = append(tp, i)
		}
	}
	u.fn(f, tp)
	bound := base
	if u.need > bound {
		bound = u.need
	}
	if len(u.irregular) > 0 && bound < 6 {
		bound = 6
	}
	sort.Strings(u.special)
	detail := fmt.Sprintf("the term count is used only as a loop bound, an allocation size and in the equal-length guard; %d loops run over all terms and all %d per-term accesses are at their induction variable: the driver is parametric in the term index, enumerated for n ≤ %d", u.loops, u.accesses, bound)
	if len(u.special) > 0 || len(u.irregular) > 0 {
		detail = fmt.Sprintf("not parametric in the term index: %s — the enumeration is extended to n ≤ %d to cover the special cases and one term beyond them", strings.Join(append(u.special, u.irregular...), "; "), bound)
	}
	if bound > maxTermBound {
		return maxTermBound, fmt.Sprintf("a special case for term counts up to %d is beyond what the enumeration covers (n ≤ %d): %s", bound, maxTermBound, strings.Join(u.special, "; ")), false
	}
	if u.loops == 0 || u.accesses == 0 {
		return bound, "no loop over the terms found in " + load.ShortName(f), false
	}
	return bound, detail, true
}
