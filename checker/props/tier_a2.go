package props

import (
	"verif/checker/report"
)

func init() {
	// ------------------------------------------------------------------ C01 (structural clauses; value clauses are added by absint-based rules)
	register(&Prop{
		ID: "C01", Level: "other", Technique: "static effect analysis (receiver never read before written on any CFG path incl. zero-iteration paths; accumulators defined before use; inputs read before the receiver is reset) + abstract interpretation over go/ssa: the drivers in a free-abelian-group domain for enumerated term counts (bound decided by a parametricity analysis of the term index, N-UNIFORM), digit recodings, table contents and selectors; unknown point helpers recognised by evaluation against the group law",
		Explanation: "Structural clauses: for the five scalar-multiplication entry points the receiver's incoming value is never read on any CFG path — including the zero-iteration path of each range loop, which is the n=0 call — every normal return returns the receiver, every local accumulator/table of a type whose zero value is invalid is written before it is read, and with q/A/points[i] aliased to the receiver no input is read after the first receiver write. Value clauses (abstract interpretation): GROUP — each driver leaves the receiver at Σ_j [Σ_i digit_{j,i}·base^i]·P_j as a polynomial identity in digit symbols, for fresh/used/aliased receivers and n up to 3 (2 for the variable-time multi-scalar routine), the variable-time ones with their data-dependent digit branches joined; TABLE/SELECT — table contents (i+1)Q and (2i+1)Q and exact selection for all digits; RECODE — Σ d_i·16^i = value with d_i ∈ [−8,8]; NAF — the width-w recoding preserves S = (k mod 2^pos) − carry·2^pos on every reachable (position, carry) partition for every value of the scalar bits it inspects, writes only odd digits below 2^(w−1), and exits with carry 0, hence Σ n_i·2^i = k for k < 2^253; NAF-WIDTH — widths are constants and every table indexed by width-w digits has at least 2^(w−2) entries. NOT decided: larger term counts (structural rules only), torsion behaviour beyond the group law of C02, that every Scalar is < l (C07/C08).",
		Assumptions: []string{"an incoming-value read of the receiver is a dependence on it: no later operation masks it"},
		TrustedBase: trustedCommon,
		Floors: []report.Floor{{Rule: "R-INIT", Min: 24}, {Rule: "R-ALIAS", Min: 9}, {Rule: "R-FRESH", Min: 6}, {Rule: "GROUP", Min: 40}, {Rule: "NAF", Min: 2}, {Rule: "NAF-WIDTH", Min: 3},
			{Rule: "RECODE", Min: 1}, {Rule: "SELECT", Min: 4}, {Rule: "TABLE", Min: 4}},
		Build: func(c *Ctx) {
			for _, cfg := range c.Configs() {
				a := c.Eff(cfg)
				if a == nil {
					continue
				}
				c.anchors(cfg, multNames)
				roots := nameSet(multNames)
				reach := reachableNames(a.P, multNames)
				c.addAll(keep(a.RInitReceivers(nil), func(o report.Obligation) bool { return keyHasFunc(o, roots) }))
				c.addAll(keep(a.RInitLocals(nil), func(o report.Obligation) bool { return keyHasFunc(o, reach) }))
				c.addAll(keep(a.RFresh(), func(o report.Obligation) bool { return keyHasFunc(o, roots) }))
				c.addAll(keep(a.RDefined(), func(o report.Obligation) bool { return keyHasFunc(o, roots) }))
				c.addAll(keep(a.RAlias(), func(o report.Obligation) bool { return keyHasFunc(o, roots) }))
				c.addAll(keep(a.RReadOnly(), func(o report.Obligation) bool { return keyHasFunc(o, roots) }))
				// value clauses
				c.ruleLookupTables(cfg)
				c.ruleScalarMultLoops(cfg)
				c.ruleVarTimeLoops(cfg)
				c.ruleRadix16(cfg)
				c.ruleNAF(cfg)
			}
		},
	})
	// ------------------------------------------------------------------ C12 (structural clauses)
	register(&Prop{
		ID: "C12", Level: "other", Technique: "static effect analysis (no formula consumes never-written coordinates: R-INIT on receivers and on every local of a non-zero-valid type), validated-constructor table with control-dependence (G-ACCEPT) and atomicity (R-ATOMIC)",
		Explanation: "Decides necessary structural conditions of the validity invariant, not the invariant: (1) no exported operation reads a receiver's incoming coordinates and no local Point/projective/table object is read before it is written (a zero-value store is not a definition) — 'accumulators start from the identity' in the form a CFG can show; (2) the only exported functions that build a Point from raw data are SetBytes and SetExtendedCoordinates, whose receiver writes are control-dependent on their validity predicate and atomic. NOT decided: preservation of the curve equation and of Z≠0 by the formulas (completeness of the addition law is number theory).",
		TrustedBase: trustedCommon,
		Exceptions:  []report.Exception{swapInit},
		Floors:      []report.Floor{{Rule: "R-INIT", Min: 84}, {Rule: "R-CTOR", Min: 16}},
		Build: func(c *Ctx) {
			c.ruleBuildConstraints() // premise: no source file hides behind a build tag none of the analysed configurations sets
			for _, cfg := range c.Configs() {
				a := c.Eff(cfg)
				if a == nil {
					continue
				}
				c.addAll(a.RInitReceivers(nil))
				c.addAll(a.RInitLocals(nil))
				c.addAll(a.RDefined())
				// encapsulation premise: no exported function hands out a pointer into a Point
				c.addAll(a.RFresh())
				c.ruleCtor(cfg)
				c.ruleShape(cfg)
				ctor := []string{"(*Point).SetBytes", "(*Point).SetExtendedCoordinates"}
				c.ruleAccept(cfg, ctor)
				c.ruleSetterAtomic(cfg, nameSet(ctor))
				// value clauses: neutral elements, X·Y=Z·T preservation, Z=0 rejected by the importer
				c.e9Neutral(cfg)
				c.e9ZeroAccept(cfg)
				// closure of validity under the operations that produce Points: the group operations are the (complete)
				// group law as identities of rational functions (the obligations of C02), and the scalar
				// multiplications — tables, selectors, drivers — produce exact group sums of their inputs (the
				// group-domain obligations of C01, in which coordinate arithmetic that is not a verified or recognised
				// group operation is undecided)
				c.e9GroupLaw(cfg)
				c.ruleLookupTables(cfg)
				c.ruleScalarMultLoops(cfg)
				c.ruleVarTimeLoops(cfg)
				// … all of which read the field operations as arithmetic in GF(p): that they are, for every
				// representation a Point's coordinates can reach (the limb invariant and the congruences of C09)
				if res := c.ruleLimbInvariant(cfg); res != nil && len(res.problems) == 0 {
					c.ruleCongruences(cfg, res.box)
				}
			}
		},
	})
}
