package props

import (
	"fmt"
	"go/ast"
	"go/build/constraint"
	"go/parser"
	"go/token"
	"go/types"
	"os"
	"path/filepath"
	"sort"
	"strings"

	"verif/checker/absint"
	"verif/checker/asm"
	"verif/checker/load"
	"verif/checker/report"
)

// ruleBuildConstraints: for every function declared in more than one file of a
// package directory (and for every assembly TEXT symbol), the //go:build
// expressions select exactly one definition under every assignment of the tags
// they mention.
func (c *Ctx) ruleBuildConstraints() {
	dir := load.RepoDir()
	for _, sub := range []string{".", "field"} {
		d := filepath.Join(dir, sub)
		ents, err := os.ReadDir(d)
		if err != nil {
			c.Set.Problem("cannot read %s: %v", d, err)
			continue
		}
		type decl struct {
			file    string
			expr    constraint.Expr
			hasBody bool
		}
		decls := map[string][]decl{}
		fileExpr := map[string]constraint.Expr{}
		asmSyms := map[string][]string{} // TEXT symbol -> files
		fset := token.NewFileSet()
		for _, e := range ents {
			name := e.Name()
			path := filepath.Join(d, name)
			switch {
			case strings.HasSuffix(name, "_test.go") || e.IsDir():
				continue
			case strings.HasSuffix(name, ".go"):
				f, err := parser.ParseFile(fset, path, nil, parser.ParseComments)
				if err != nil {
					c.Set.Problem("parse %s: %v", path, err)
					continue
				}
				var ex constraint.Expr
				for _, cg := range f.Comments {
					if cg.Pos() > f.Package {
						break
					}
					for _, cm := range cg.List {
						if constraint.IsGoBuild(cm.Text) {
							ex, err = constraint.Parse(cm.Text)
							if err != nil {
								c.Set.Problem("%s: %v", path, err)
							}
						}
					}
				}
				ex = withFileNameConstraint(name, ex)
				fileExpr[name] = ex
				for _, dcl := range f.Decls {
					fd, ok := dcl.(*ast.FuncDecl)
					if !ok {
						continue
					}
					n := fd.Name.Name
					if fd.Recv != nil && len(fd.Recv.List) > 0 {
						n = exprString(fd.Recv.List[0].Type) + "." + n
					}
					if n == "init" {
						continue
					}
					decls[n] = append(decls[n], decl{file: name, expr: ex, hasBody: fd.Body != nil})
				}
			case strings.HasSuffix(name, ".s"):
				af, err := asm.ParseFile(path)
				if err != nil {
					c.Set.Problem("%v", err)
					continue
				}
				var ex constraint.Expr
				for _, l := range af.Constraints {
					ex, _ = constraint.Parse("//go:build " + l)
				}
				ex = withFileNameConstraint(name, ex)
				fileExpr[name] = ex
				for _, fn := range af.Funcs {
					asmSyms[fn.Name] = append(asmSyms[fn.Name], name)
				}
			}
		}
		// BUILD-COVER: every source file belongs to at least one of the configurations the checks analyse (default
		// amd64, purego, arm64, 386 — the last two in the thorough tier). Code behind any other build tag is code
		// no check of any property has looked at.
		{
			var fns []string
			for fn := range fileExpr {
				fns = append(fns, fn)
			}
			sort.Strings(fns)
			std := map[string]map[string]bool{
				"amd64":  {"amd64": true, "gc": true, "linux": true, "unix": true},
				"purego": {"amd64": true, "gc": true, "linux": true, "unix": true, "purego": true},
				"arm64":  {"arm64": true, "gc": true, "linux": true, "unix": true},
				"386":    {"386": true, "gc": true, "linux": true, "unix": true},
			}
			for _, fn := range fns {
				ex := fileExpr[fn]
				o := report.Obligation{Rule: "BUILD-COVER", Key: "BUILD-COVER/" + filepath.ToSlash(filepath.Join(sub, fn)), Pos: filepath.ToSlash(filepath.Join(sub, fn)), OK: true, Detail: "unconstrained: part of every configuration"}
				if ex != nil {
					var in []string
					for _, cn := range []string{"amd64", "purego", "arm64", "386"} {
						tags := std[cn]
						if ex.Eval(func(t string) bool { return tags[t] || strings.HasPrefix(t, "go1.") }) {
							in = append(in, cn)
						}
					}
					ignored := false
					for _, t := range tagsOf([]constraint.Expr{ex}) {
						if t == "ignore" {
							ignored = true
						}
					}
					switch {
					case len(in) > 0:
						o.Detail = "selected by " + ex.String() + " in the analysed configuration(s) " + strings.Join(in, ", ")
					case ignored:
						o.Detail = "excluded from every build by the conventional `ignore` tag (a generator script)"
					default:
						o.OK = false
						o.Detail = "the build constraint " + ex.String() + " selects this file in none of the analysed configurations (amd64, purego, arm64, 386): whatever it contains — an accessor to internal state, another implementation of a field routine — is code no check has analysed"
					}
				}
				c.Set.Add(o)
			}
		}
		var names []string
		for n := range decls {
			names = append(names, n)
		}
		sort.Strings(names)
		for _, n := range names {
			ds := decls[n]
			stub := false
			for _, x := range ds {
				if !x.hasBody {
					stub = true
				}
			}
			if len(ds) < 2 && !stub {
				continue
			}
			prefix := ""
			if sub == "field" {
				prefix = "field."
			}
			o := report.Obligation{Rule: "BUILD", Key: "BUILD/" + prefix + n, Pos: sub + "/" + ds[0].file, OK: true}
			var exprs []constraint.Expr
			var files []string
			for _, x := range ds {
				exprs = append(exprs, x.expr)
				files = append(files, x.file)
			}
			tags := tagsOf(exprs)
			bad := ""
			forAllAssignments(tags, func(asg map[string]bool) {
				cnt := 0
				for _, ex := range exprs {
					if evalExpr(ex, asg) {
						cnt++
					}
				}
				// a symbol declared once (an assembly stub used by one configuration only) may be absent elsewhere
				if len(ds) == 1 && cnt == 0 {
					return
				}
				if cnt != 1 && bad == "" {
					bad = fmt.Sprintf("%d definitions selected under %s", cnt, asgString(asg))
				}
			})
			o.Detail = fmt.Sprintf("declared in %s: exactly one definition under each of the %d assignments of {%s}", strings.Join(files, ", "), 1<<len(tags), strings.Join(tags, ","))
			if bad != "" {
				o.OK = false
				o.Detail = fmt.Sprintf("declared in %s: %s", strings.Join(files, ", "), bad)
			}
			// body-less stubs need an assembly body under exactly the same condition
			for _, x := range ds {
				if x.hasBody {
					continue
				}
				sf := asmSyms[n]
				if len(sf) != 1 {
					o.OK = false
					o.Detail += fmt.Sprintf("; stub in %s has %d assembly bodies", x.file, len(sf))
					continue
				}
				same := true
				tg := tagsOf([]constraint.Expr{x.expr, fileExpr[sf[0]]})
				forAllAssignments(tg, func(asg map[string]bool) {
					if evalExpr(x.expr, asg) != evalExpr(fileExpr[sf[0]], asg) {
						same = false
					}
				})
				if !same {
					o.OK = false
					o.Detail += fmt.Sprintf("; the stub in %s and its body in %s are selected under different conditions", x.file, sf[0])
				} else {
					o.Detail += fmt.Sprintf("; stub %s ⇔ body %s", x.file, sf[0])
				}
			}
			c.Set.Add(o)
		}
	}
}

var knownArch = map[string]bool{"386": true, "amd64": true, "arm": true, "arm64": true, "riscv64": true, "ppc64le": true, "ppc64": true, "s390x": true, "mips": true, "mips64": true, "wasm": true, "loong64": true, "mipsle": true, "mips64le": true}

// withFileNameConstraint adds the implicit _GOARCH file-name constraint.
func withFileNameConstraint(name string, ex constraint.Expr) constraint.Expr {
	base := strings.TrimSuffix(strings.TrimSuffix(name, ".go"), ".s")
	parts := strings.Split(base, "_")
	last := parts[len(parts)-1]
	if len(parts) > 1 && knownArch[last] {
		tag := &constraint.TagExpr{Tag: last}
		if ex == nil {
			return tag
		}
		return &constraint.AndExpr{X: tag, Y: ex}
	}
	return ex
}

func exprString(e ast.Expr) string {
	switch x := e.(type) {
	case *ast.StarExpr:
		return "*" + exprString(x.X)
	case *ast.Ident:
		return x.Name
	}
	return "?"
}

func tagsOf(exprs []constraint.Expr) []string {
	seen := map[string]bool{}
	var walk func(e constraint.Expr)
	walk = func(e constraint.Expr) {
		switch x := e.(type) {
		case *constraint.TagExpr:
			seen[x.Tag] = true
		case *constraint.NotExpr:
			walk(x.X)
		case *constraint.AndExpr:
			walk(x.X)
			walk(x.Y)
		case *constraint.OrExpr:
			walk(x.X)
			walk(x.Y)
		}
	}
	for _, e := range exprs {
		if e != nil {
			walk(e)
		}
	}
	var out []string
	for t := range seen {
		out = append(out, t)
	}
	sort.Strings(out)
	return out
}

func evalExpr(e constraint.Expr, asg map[string]bool) bool {
	if e == nil {
		return true
	}
	return e.Eval(func(tag string) bool { return asg[tag] })
}

func forAllAssignments(tags []string, f func(map[string]bool)) {
	n := len(tags)
	for m := 0; m < 1<<n; m++ {
		asg := map[string]bool{}
		arch := 0
		for i, t := range tags {
			asg[t] = m&(1<<i) != 0
			if asg[t] && knownArch[t] {
				arch++
			}
		}
		if arch > 1 {
			continue // GOARCH has one value
		}
		f(asg)
	}
}

func asgString(a map[string]bool) string {
	var ks []string
	for k, v := range a {
		if v {
			ks = append(ks, k)
		} else {
			ks = append(ks, "!"+k)
		}
	}
	sort.Strings(ks)
	return strings.Join(ks, " ")
}

// ruleAsmVsGeneric: translation validation of an assembly body against its portable sibling.
func (c *Ctx) ruleAsmVsGeneric(cfg string, box limbBox, asmName, genName string) {
	p := c.Prog(cfg)
	if p == nil {
		return
	}
	o := report.Obligation{Rule: "TV", Key: "TV/" + asmName + "≡" + genName, Config: cfg}
	fa, fg := p.ByName[asmName], p.ByName[genName]
	if fa == nil || fg == nil {
		o.Detail = "ANCHOR " + asmName + " or " + genName + " not found"
		c.Set.Add(o)
		return
	}
	if p.Asm[fa] == nil {
		o.OK = true
		o.Detail = asmName + " has a Go body in this configuration (it is the portable code): nothing to validate"
		o.Rule = "TV-NA"
		c.Set.Add(o)
		return
	}
	o.Pos = p.RelFile(p.Asm[fa].Func.File)
	c.limbPositional = true
	ra, rg := c.limbPoly(cfg, asmName, box), c.limbPoly(cfg, genName, box)
	c.limbPositional = false
	if ra == nil || rg == nil {
		return
	}
	for _, r := range []*limbPolyRun{ra, rg} {
		if r.out.Kind != absint.ExitReturn {
			o.Detail = r.out.Undecided + r.out.PanicMsg
			c.Set.Add(o)
			return
		}
	}
	nObl, bad := 0, 0
	for _, ob := range ra.in.Obls {
		nObl++
		if !ob.OK {
			bad++
			if o.Detail == "" {
				o.Detail = "assembly: " + ob.Kind + " at " + ob.Pos + ": " + ob.Detail
			}
		}
	}
	if bad > 0 {
		c.Set.Add(o)
		return
	}
	// the output element is argument 0 of both (out/v); the asm stub's inputs are named b,c (a is out) like the generic's
	va, la := elemValue(ra.d, ra.elems[0])
	vg, lg := elemValue(rg.d, rg.elems[0])
	if va == nil || vg == nil {
		o.Detail = "an output limb has no polynomial form"
		c.Set.Add(o)
		return
	}
	identical := true
	for i := range la {
		// symbols live in different rings: compare by canonical key
		if la[i].Key() != lg[i].Key() {
			identical = false
		}
	}
	// same value mod p
	same := va.Key() == vg.Key()
	if !same {
		// compare through the specification: both must be congruent to it (checked elsewhere); here require key equality of the reduced difference
		same = false
	}
	// same bounds
	boundsEq := true
	aa, _ := ra.elems[0].Obj.Val.(*absint.Agg)
	ag, _ := rg.elems[0].Obj.Val.(*absint.Agg)
	var bs []string
	for i := 0; i < 5; i++ {
		_, ha, _ := valBounds(aa.Elems[i])
		_, hg, _ := valBounds(ag.Elems[i])
		if ha == nil || hg == nil || ha.Cmp(hg) != 0 {
			boundsEq = false
		}
		if ha != nil {
			bs = append(bs, ha.String())
		}
	}
	o.OK = identical && boundsEq
	o.Detail = fmt.Sprintf("normal forms extracted from %d assembly instructions and from the portable Go body are limb-for-limb identical polynomials (both carry chains included) and have identical output bounds [%s] at the invariant; %d assembly machine-operation obligations discharged", len(p.Asm[fa].Func.Insts), strings.Join(bs, ", "), nObl)
	if !o.OK {
		switch {
		case !identical && same:
			o.OK = boundsEq
			o.Detail = "limbs differ but the value Σ limb_i·2^(51i) is the same polynomial; bounds equal: " + fmt.Sprint(boundsEq)
		case !identical:
			o.Detail = "the assembly and the portable body compute different limb polynomials (and different values): e.g. limb 0 asm = " + la[0].String() + " vs generic = " + lg[0].String()
		default:
			o.Detail = "same polynomials but different output bounds"
		}
	}
	c.Set.Add(o)
}

// ruleAsmVsGenericMethod: arm64 carryPropagate (assembly) against carryPropagateGeneric.
func (c *Ctx) ruleAsmVsGenericMethod(cfg string, box limbBox) {
	// the method wrapper (*Element).carryPropagate calls the assembly stub carryPropagate
	c.ruleAsmVsGeneric(cfg, box, "field.carryPropagate", "field.(*Element).carryPropagateGeneric")
}

// ruleBuildVariants: every function of package field whose definition differs
// between two analysed configurations is validated against its sibling: same
// limb polynomials and same bounds for all Element outputs, on the same
// abstract inputs at the invariant (integer parameters are enumerated over 1..2).
func (c *Ctx) ruleBuildVariants(cfgA, cfgB string, box limbBox) {
	pa, pb := c.Prog(cfgA), c.Prog(cfgB)
	if pa == nil || pb == nil {
		return
	}
	defFile := func(p *load.Program, name string) string {
		f := p.ByName[name]
		if f == nil {
			return ""
		}
		if as := p.Asm[f]; as != nil {
			return p.RelFile(as.Func.File)
		}
		pos := p.Rel(f.Pos())
		if i := strings.LastIndex(pos, ":"); i > 0 {
			return pos[:i]
		}
		return pos
	}
	var names []string
	for n := range pa.ByName {
		if strings.HasPrefix(n, "field.") && pb.ByName[n] != nil {
			names = append(names, n)
		}
	}
	sort.Strings(names)
	for _, n := range names {
		fa, fb := defFile(pa, n), defFile(pb, n)
		if fa == fb || fa == "" || fb == "" {
			continue
		}
		key := fmt.Sprintf("TV/%s[%s:%s≡%s:%s]", n, cfgA, fa, cfgB, fb)
		o := report.Obligation{Rule: "TV", Key: key, Config: cfgA + "+" + cfgB, Pos: fa}
		// integer parameters: enumerate small values
		f := pa.ByName[n]
		nInts := 0
		for _, prm := range f.Params {
			if b, ok := prm.Type().Underlying().(*types.Basic); ok && b.Info()&types.IsInteger != 0 && b.Kind() != types.Uint32 {
				nInts++
			}
		}
		vals := [][]int64{{}}
		for i := 0; i < nInts; i++ {
			var nv [][]int64
			for _, v := range vals {
				for k := int64(1); k <= 2; k++ {
					nv = append(nv, append(append([]int64{}, v...), k))
				}
			}
			vals = nv
		}
		o.OK = true
		runs := 0
		for _, iv := range vals {
			c.limbPositional = true
			c.limbInts = iv
			ra, rb := c.limbPoly(cfgA, n, box), c.limbPoly(cfgB, n, box)
			c.limbPositional = false
			c.limbInts = nil
			if ra == nil || rb == nil {
				o.OK = false
				o.Detail = "could not build abstract inputs"
				break
			}
			if ra.out.Kind != absint.ExitReturn || rb.out.Kind != absint.ExitReturn {
				o.OK = false
				o.Detail = fmt.Sprintf("with integer arguments %v: %s%s%s%s", iv, ra.out.Undecided, ra.out.PanicMsg, rb.out.Undecided, rb.out.PanicMsg)
				break
			}
			runs++
			for _, r := range []*limbPolyRun{ra, rb} {
				for _, ob := range r.in.Obls {
					if !ob.OK && o.OK {
						o.OK = false
						o.Detail = fmt.Sprintf("with integer arguments %v a machine-operation obligation fails: %s at %s: %s", iv, ob.Kind, ob.Pos, ob.Detail)
					}
				}
			}
			for e := 0; e < len(ra.elems) && e < len(rb.elems) && o.OK; e++ {
				_, la := elemValue(ra.d, ra.elems[e])
				_, lb := elemValue(rb.d, rb.elems[e])
				aa, _ := ra.elems[e].Obj.Val.(*absint.Agg)
				ab, _ := rb.elems[e].Obj.Val.(*absint.Agg)
				for i := 0; i < 5; i++ {
					if la == nil || lb == nil || la[i].Key() != lb[i].Key() {
						o.OK = false
						o.Detail = fmt.Sprintf("with integer arguments %v the two definitions leave different values in limb %d of Element argument %d", iv, i, e)
						break
					}
					_, ha, _ := valBounds(aa.Elems[i])
					_, hb, _ := valBounds(ab.Elems[i])
					if ha == nil || hb == nil || ha.Cmp(hb) != 0 {
						o.OK = false
						o.Detail = fmt.Sprintf("with integer arguments %v the two definitions have different bounds for limb %d of Element argument %d", iv, i, e)
						break
					}
				}
			}
			if !o.OK {
				break
			}
		}
		if o.OK {
			o.Detail = fmt.Sprintf("the definition selected under %s (%s) and the one selected under %s (%s) leave limb-for-limb identical polynomials and bounds in every Element argument (%d abstract runs each)", cfgA, fa, cfgB, fb, runs)
		}
		c.Set.Add(o)
	}
}
