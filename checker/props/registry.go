package props

import (
	"fmt"
	"go/types"
	"strings"

	"golang.org/x/tools/go/ssa"

	"verif/checker/effects"
	"verif/checker/load"
	"verif/checker/report"
	"verif/checker/taint"
)

type Prop struct {
	ID          string
	Level       string
	Technique   string
	Explanation string
	Assumptions []string
	TrustedBase []string
	Exceptions  []report.Exception
	Floors      []report.Floor
	Programs    int
	Build       func(c *Ctx)
}

var Registry = map[string]*Prop{}

func register(p *Prop) { Registry[p.ID] = p }

var trustedCommon = []string{
	"go/types and go/ssa (golang.org/x/tools v0.29.0): the program analysed is the type-checked SSA form of /repo's working tree",
	"the effect transfer functions of checker/effects (≈25 SSA forms, copy/len, 6 library calls) and the assembly event extraction of checker/asm",
	"Go semantics without unsafe/reflect/cgo (asserted on every load)",
}

var swapExceptions = []report.Exception{
	{Key: "R-ALIAS/field.(*Element).Swap/(v,u)", Reason: "exchange: with v==u, t = m&(v.l^u.l) = 0 and every write is a no-op; Swap(v,v) is the identity as it is with distinct storage of equal contents"},
	{Key: "R-RO/field.(*Element).Swap/u", Reason: "u is an in/out argument by contract (\"swaps v and u\")"},
}
var swapRecvRO = report.Exception{Key: "R-RO/field.(*Element).Swap/recv", Reason: "exchange: both operands are in/out by contract"}
var swapInit = report.Exception{Key: "R-INIT/field.(*Element).Swap/recv", Reason: "exchange is in/out by contract: the receiver's old value is one of the two results"}

var multNames = []string{"(*Point).ScalarMult", "(*Point).ScalarBaseMult", "(*Point).VarTimeDoubleScalarBaseMult", "(*Point).MultiScalarMult", "(*Point).VarTimeMultiScalarMult"}

var fallibleSetters = []string{"(*Point).SetBytes", "(*Point).SetExtendedCoordinates", "(*Scalar).SetUniformBytes", "(*Scalar).SetCanonicalBytes",
	"(*Scalar).SetBytesWithClamping", "field.(*Element).SetBytes", "field.(*Element).SetWideBytes"}

// expected accept/reject structure of the decoders (G-ACCEPT), from the property statements
var acceptSpec = map[string][]string{
	"(*Point).SetBytes":               {"LEN[len(x) != 32]", "VALID"},
	"(*Point).SetExtendedCoordinates": {"VALID"},
	"(*Scalar).SetCanonicalBytes":     {"LEN[len(x) != 32]", "VALID"},
	"(*Scalar).SetUniformBytes":       {"LEN[len(x) != 64]"},
	// the forwarded class is vacuous (the forwarded buffer is always 64 bytes): optional
	"(*Scalar).SetBytesWithClamping": {"LEN[len(x) != 32]", "?via (*Scalar).SetUniformBytes: LEN[len(x) != 64]"},
	"field.(*Element).SetBytes":      {"LEN[len(x) != 32]"},
	"field.(*Element).SetWideBytes":  {"LEN[len(x) != 64]"},
}

// ruleShape: the value types consist of exactly the fields the algebraic checks model. An extra field is state
// whose consistency with the coordinates (across every writer) none of the value-level checks decides.
func (c *Ctx) ruleShape(cfg string) {
	p := c.Prog(cfg)
	if p == nil {
		return
	}
	for _, t := range []struct {
		pkg    *ssa.Package
		name   string
		fields []string
	}{
		{p.Root, "Point", []string{"x", "y", "z", "t"}},
		{p.Root, "Scalar", []string{"s"}},
		{p.Field, "Element", []string{"l0", "l1", "l2", "l3", "l4"}},
	} {
		o := report.Obligation{Rule: "SHAPE", Key: "SHAPE/" + load.ShortName0(t.pkg) + t.name, Config: cfg}
		m := t.pkg.Members[t.name]
		if m == nil {
			o.Detail = "ANCHOR type " + t.name + " not found"
			c.Set.Add(o)
			continue
		}
		st, ok := m.Type().Underlying().(*types.Struct)
		if !ok {
			o.Detail = t.name + " is not a struct"
			c.Set.Add(o)
			continue
		}
		var extra, got []string
		for i := 0; i < st.NumFields(); i++ {
			f := st.Field(i)
			if a, isArr := f.Type().Underlying().(*types.Array); isArr && a.Len() == 0 {
				continue // zero-size marker (incomparable)
			}
			got = append(got, f.Name())
			known := false
			for _, k := range t.fields {
				if k == f.Name() {
					known = true
				}
			}
			if !known {
				extra = append(extra, f.Name()+" "+f.Type().String())
			}
		}
		o.OK = len(extra) == 0 && len(got) == len(t.fields)
		o.Detail = t.name + " consists of exactly {" + strings.Join(t.fields, ", ") + "}: a value is determined by the fields the checks model"
		if !o.OK {
			o.Detail = fmt.Sprintf("%s has fields {%s}; the unmodelled field(s) {%s} are hidden state: whether every writer keeps them consistent with the coordinates (for every operation history) is not decided by the value-level checks", t.name, strings.Join(got, ", "), strings.Join(extra, ", "))
		}
		c.Set.Add(o)
	}
}

func (c *Ctx) addAll(obls []report.Obligation) {
	for _, o := range obls {
		c.Set.Add(o)
	}
}

func nameSet(xs []string) map[string]bool {
	m := map[string]bool{}
	for _, x := range xs {
		m[x] = true
	}
	return m
}

// anchors asserts that named constructs exist in a configuration.
func (c *Ctx) anchors(cfg string, names []string) {
	p := c.Prog(cfg)
	if p == nil {
		return
	}
	for _, n := range names {
		c.anchor(p, n)
	}
}

// ---- rule bundles reused by several properties ------------------------------------

func (c *Ctx) ruleSetterAtomic(cfg string, only map[string]bool) {
	a := c.Eff(cfg)
	if a == nil {
		return
	}
	got := map[string]bool{}
	for _, f := range a.FallibleSetters() {
		got[load.ShortName(f)] = true
	}
	for _, n := range fallibleSetters {
		if !got[n] && (only == nil || only[n]) {
			c.Set.Problem("[%s] ANCHOR fallible setter %s not found (methods with receiver *T and results (*T, error))", cfg, n)
		}
	}
	for n := range got {
		known := false
		for _, k := range fallibleSetters {
			if k == n {
				known = true
			}
		}
		if !known {
			c.Set.Note("[%s] additional fallible setter %s is checked by the same rule", cfg, n)
		}
	}
	c.addAll(keep(a.RAtomic(), func(o report.Obligation) bool { return only == nil || keyHasFunc(o, only) }))
}

func (c *Ctx) ruleAccept(cfg string, names []string) {
	g := c.Guards(cfg)
	if g == nil {
		return
	}
	for _, n := range names {
		c.Set.Add(g.GAccept(n, acceptSpec[n]))
	}
}

// ruleCtor: an exported function that writes a Point and takes raw data must be a validated constructor.
func (c *Ctx) ruleCtor(cfg string) {
	a := c.Eff(cfg)
	if a == nil {
		return
	}
	validated := map[string]string{
		"(*Point).SetBytes":               "writes are control-dependent on SqrtRatio's wasSquare (G-ACCEPT) and atomic (R-ATOMIC)",
		"(*Point).SetExtendedCoordinates": "writes are control-dependent on isOnCurve (G-ACCEPT) and atomic (R-ATOMIC)",
	}
	for _, f := range a.P.APIRoots() {
		fi := a.Info[f]
		writesPoint := false
		for l := range fi.Sum.MayWrite {
			if l.Root.Kind == effects.KParam || l.Root.Kind == effects.KElem {
				if t := fi.RootType(l.Root); t != nil {
					if n, ok := t.(*types.Named); ok && n.Obj().Name() == "Point" {
						writesPoint = true
					}
				}
			}
		}
		retPoint := false
		res := f.Signature.Results()
		for k := 0; k < res.Len(); k++ {
			if p, ok := res.At(k).Type().(*types.Pointer); ok {
				if n, ok := p.Elem().(*types.Named); ok && n.Obj().Name() == "Point" {
					retPoint = true
				}
			}
		}
		if !writesPoint && !retPoint {
			continue
		}
		var raw []string
		start := 0
		if f.Signature.Recv() != nil {
			start = 1
		}
		for i := start; i < len(f.Params); i++ {
			t := f.Params[i].Type()
			ok := false
			if p, isP := t.Underlying().(*types.Pointer); isP {
				if n, isN := p.Elem().(*types.Named); isN && (n.Obj().Name() == "Point" || n.Obj().Name() == "Scalar") && n.Obj().Pkg().Path() == load.RootPath {
					ok = true
				}
			}
			if s, isS := t.Underlying().(*types.Slice); isS {
				if p, isP := s.Elem().Underlying().(*types.Pointer); isP {
					if n, isN := p.Elem().(*types.Named); isN && (n.Obj().Name() == "Point" || n.Obj().Name() == "Scalar") {
						ok = true
					}
				}
			}
			if !ok {
				raw = append(raw, f.Params[i].Name()+" "+types.TypeString(t, func(p *types.Package) string { return p.Name() }))
			}
		}
		name := load.ShortName(f)
		o := report.Obligation{Rule: "R-CTOR", Key: "R-CTOR/" + name, Config: cfg, Pos: a.P.Rel(f.Pos()), OK: true}
		switch {
		case len(raw) == 0:
			o.Detail = "produces a Point from Point/Scalar inputs only"
		case validated[name] != "":
			o.Detail = "validated constructor (raw input " + strings.Join(raw, ", ") + "): " + validated[name]
		default:
			o.OK = false
			o.Detail = fmt.Sprintf("exported function writes Point coordinates from raw data (%s) and is not in the validated-constructor table", strings.Join(raw, ", "))
		}
		c.Set.Add(o)
	}
}

func init() {
	// ------------------------------------------------------------------ C11
	register(&Prop{
		ID: "C11", Level: "proof", Technique: "static effect analysis: access-path read/write summaries over go/ssa and the assembly, write-then-read hazard rule on may-alias roots",
		Explanation: "R-ALIAS: for every function (Go and asm) and every pair of roots that may alias exactly, no read through one follows an overlapping write through the other on any CFG path and they are not both written; R-RO: no exported function writes a non-receiver argument, slice, slice element or pointee; R-FRESH: no exported function hands out an interior pointer (premise of 'exact aliasing is the only case'). If no input location is read after an overlapping write through a may-aliased root, the sequence of values read is the same with and without aliasing, hence so is the result.",
		Assumptions: []string{"without unsafe two *T are equal or disjoint unless one points into the other's object; interior pointers of Point/Scalar/Element cannot be obtained outside the packages (R-FRESH, checked in the same run)"},
		TrustedBase: trustedCommon,
		Exceptions:  append(append([]report.Exception{}, swapExceptions...), swapRecvRO),
		Floors:      []report.Floor{{Rule: "R-ALIAS", Min: 114}, {Rule: "R-RO", Min: 66}, {Rule: "R-FRESH", Min: 54}},
		Build: func(c *Ctx) {
			for _, cfg := range c.Configs() {
				a := c.Eff(cfg)
				if a == nil {
					continue
				}
				c.addAll(a.RAlias())
				c.addAll(a.RReadOnly())
				c.addAll(a.RFresh())
				// the Swap exception is justified by evaluation, not by assumption
				if res := c.limbInvariant(cfg); res != nil && len(res.problems) == 0 {
					c.ruleSelfSwap(cfg, res.box)
				}
			}
		},
	})
	// ------------------------------------------------------------------ C14
	register(&Prop{
		ID: "C14", Level: "proof", Technique: "static effect analysis: per-return-site provenance and receiver-may-have-been-written bit (R-ATOMIC), read-only inputs (R-RO)",
		Explanation: "For the seven fallible setters (computed as methods with receiver *T and results (*T, error)): every error site returns nil and no write to the receiver lies on any CFG path to it (forwarded call tuples are resolved through the callee's sites); every success site returns exactly the receiver; no setter writes its input. The property is structural, so the rule is the property.",
		TrustedBase: trustedCommon,
		Floors:      []report.Floor{{Rule: "R-ATOMIC", Min: 28}, {Rule: "R-RO", Min: 12}},
		Build: func(c *Ctx) {
			for _, cfg := range c.Configs() {
				a := c.Eff(cfg)
				if a == nil {
					continue
				}
				c.ruleSetterAtomic(cfg, nil)
				set := nameSet(fallibleSetters)
				c.addAll(keep(a.RReadOnly(), func(o report.Obligation) bool { return keyHasFunc(o, set) }))
			}
		},
	})
	// ------------------------------------------------------------------ C18
	register(&Prop{
		ID: "C18", Level: "proof", Technique: "static effect analysis: write-once package state (R-GLOBAL) with sync.Once dominance, no package state exported to importers (R-EXPORT), read-only shared arguments (R-RO), no escaping package state (R-FRESH), structural absence of goroutines/channels",
		Explanation: "Race freedom by effect discipline: package-level variables are written only by the package initialisers; the two lazily built tables are written only inside the function literal of their own sync.Once and every other access is dominated by the Do call (or by a call of the accessor that always runs it); exported functions write only their receiver; no exported function returns package state. With no write to any location shared between two calls other than under sync.Once, concurrent calls on disjoint receivers have no conflicting access and compute what they compute sequentially.",
		Assumptions: []string{"sync.Once: completion of f happens-before every Do return (Go memory model)"},
		TrustedBase: append([]string{"sync.Once"}, trustedCommon...),
		Floors:      []report.Floor{{Rule: "R-GLOBAL", Min: 156}, {Rule: "R-RO", Min: 66}, {Rule: "R-EXPORT", Min: 20}},
		Build: func(c *Ctx) {
			c.ruleBuildConstraints() // premise: no source file hides behind a build tag none of the analysed configurations sets
			for _, cfg := range c.Configs() {
				a := c.Eff(cfg)
				if a == nil {
					continue
				}
				c.addAll(a.RGlobal())
				c.addAll(a.RReadOnly())
				c.addAll(a.RFresh())
			}
		},
		Exceptions: []report.Exception{swapExceptions[1], swapRecvRO},
	})
	// ------------------------------------------------------------------ C19
	register(&Prop{
		ID: "C19", Level: "proof", Technique: "static effect analysis: return provenance (R-FRESH), write-once package state that no importer can reach (R-GLOBAL, R-EXPORT), receivers defined before read (R-INIT), no effect on arguments (R-RO)",
		Explanation: "Every pointer/slice result of every exported function is a fresh object, the receiver itself, or nil — never a package-level variable, a table, an interior pointer or a shared buffer; no call changes package state after initialisation, so no history is remembered; no result depends on a receiver's prior content; no call writes its arguments (so repeating a call repeats its result).",
		TrustedBase: trustedCommon,
		Exceptions:  []report.Exception{swapInit, swapExceptions[1], swapRecvRO},
		Floors:      []report.Floor{{Rule: "R-FRESH", Min: 54}, {Rule: "R-GLOBAL", Min: 156}, {Rule: "R-INIT", Min: 36}, {Rule: "R-EXPORT", Min: 20}},
		Build: func(c *Ctx) {
			c.ruleBuildConstraints() // premise: no source file hides behind a build tag none of the analysed configurations sets
			for _, cfg := range c.Configs() {
				a := c.Eff(cfg)
				if a == nil {
					continue
				}
				c.addAll(a.RFresh())
				c.addAll(a.RGlobal())
				c.addAll(a.RInitReceivers(nil))
				c.addAll(a.RDefined())
				// a pure function has no effect on its arguments either: a call that rewrites the caller's slices or
				// operands makes the next identical-looking call compute something else
				c.addAll(a.RReadOnly())
				c.ruleShape(cfg)
			}
		},
	})
	// ------------------------------------------------------------------ C15
	register(&Prop{
		ID: "C15", Level: "proof", Technique: "conditional constant propagation over go/ssa on the two atoms \"x is the zero Element\", \"y is the zero Element\" of one inspected Point, through calls: reachability under the zero pattern (G-INIT), exactness of every atom-dependent panic and guard loop (G-GUARD), length check by dominance (G-LEN), no guard on pure receivers (G-PURE)",
		Explanation: "For every exported operation and every Point-typed input position (parameters, receivers whose incoming value is read, and the elements of points slices): assuming x and y of that Point both compare equal to the zero Element (the never-set pattern), no read of the position (other than the guard's own look at x and y) and no normal return is reachable — decided by a conditional constant propagation over the two atoms, with calls summarised by running the callee on the corresponding subject, so the guard is recognised by what it does wherever and however it is written; every panic (or call that cannot return) whose reachability depends on the atoms is reachable exactly when both are zero; every loop over a points slice that decides on an element's atoms panics iff both are zero, otherwise goes on to the next element, visits indices 0,1,2,… and has no other exit; both multi-scalar routines compare the two lengths and panic before touching an element of either slice; no guard is applied to a pure receiver.",
		TrustedBase: trustedCommon,
		Floors:      []report.Floor{{Rule: "G-INIT", Min: 19}, {Rule: "G-PURE", Min: 12}, {Rule: "G-GUARD", Min: 1}, {Rule: "G-LEN", Min: 2}},
		Build: func(c *Ctx) {
			for _, cfg := range c.Configs() {
				g := c.Guards(cfg)
				if g == nil {
					continue
				}
				c.addAll(g.GInit())
				c.addAll(g.GGuard())
				c.addAll(g.GLen())
			}
		},
	})
	// ------------------------------------------------------------------ C03
	register(&Prop{
		ID: "C03", Level: "other", Technique: "static secret-flow (taint) analysis over go/ssa with sinks at branches, addresses, shift counts, divisions and outgoing calls; mnemonic/operand audit of the assembly",
		Explanation: "Proof-shaped, but with one recorded genuine finding it is not a proof of the property on this tree (hence level other): every sink is one obligation and all are discharged except those of the known finding in checkInitialized (known_findings.json). Noninterference by taint typing at SSA level: in every function reachable from a non-VarTime exported function, no branch condition, memory index/slice bound, allocation size, variable shift count, division operand, struct comparison, panic value or non-allow-listed outgoing call receives a value derived from scalars, coordinates, field elements, cond bits or input bytes (lengths, loop counters and package-level tables are public; implicit flows through secret-selected returns/phis are tracked); the assembly bodies are straight-line with addresses derived only from pointer arguments.",
		Assumptions: []string{"source/SSA level only: instruction selection, memequal, MULQ latency and 32-bit math/bits fallbacks are outside the analysis", "the allow-listed library functions (math/bits Mul64/Add64/Sub64, binary.LittleEndian Uint64/PutUint64, subtle.ConstantTimeByteEq/ConstantTimeEq/ConstantTimeSelect/ConstantTimeLessOrEq/ConstantTimeCompare) are constant time, as documented"},
		TrustedBase: append([]string{"allow-list of external callees", "frozen exception table (validity decisions of decoders; the invariantly false high-bit assertion)"}, trustedCommon...),
		Exceptions: []report.Exception{
			{Key: `^CT-BRANCH/[^/]*/[Bb]ytes\(\)[^/]*\[31\]>127$`, Pattern: true, Reason: "(in whichever function the assertion on the canonical encoding sits) invariantly false: every Scalar is < l < 2^253 (fiat post-condition 0 ≤ eval out1 < m), so byte 31 of its encoding is ≤ 0x10 and the decision sequence is constant — the interval run of RECODE (C01) decides this very comparison false; internal assertion"},
		},
		Floors: []report.Floor{{Rule: "CT-BRANCH", Min: 60}, {Rule: "CT-INDEX", Min: 42}, {Rule: "CT-CALL", Min: 300}, {Rule: "CT-ASM", Min: 1}},
		Build: func(c *Ctx) {
			for _, cfg := range c.Configs() {
				t := c.Taint(cfg)
				if t == nil {
					continue
				}
				c.addAll(t.Sinks())
				c.addAll(t.AsmAudit())
				c.Set.Note("[%s] %d secret-dependent branches are validity decisions of decoders (%s) or of functions called only inside one, with a side that returns at once", cfg, t.NValidity, strings.Join(taint.Decoders, ", "))
				var ex []string
				for _, f := range t.VarTimeOnly {
					ex = append(ex, load.ShortName(f))
				}
				c.Set.Note("[%s] constant-time set: %d functions; exempt (reachable only through VarTime roots or unreachable in this configuration): %s", cfg, len(t.CT), strings.Join(ex, ", "))
			}
		},
	})
}
