package props

import (
	"fmt"
	"go/constant"
	"go/types"
	"math/big"
	"sort"
	"strings"

	"golang.org/x/tools/go/ssa"

	"verif/checker/absint"
	"verif/checker/load"
	"verif/checker/poly"
	"verif/checker/report"
)

// concreteGlobals evaluates the root package initialiser concretely (constant
// folding of the literals) and returns the package-level variables by name.
func (c *Ctx) concreteGlobals(cfg string) map[string]absint.Val {
	if c.cglob == nil {
		c.cglob = map[string]map[string]absint.Val{}
	}
	if g, ok := c.cglob[cfg]; ok {
		return g
	}
	p := c.Prog(cfg)
	if p == nil {
		return nil
	}
	d := absint.NewLimbDom(p, false)
	in := absint.New(p, d)
	in.NoPlainGlobals = true
	out := in.Exec(func() []absint.Val { in.RunInit(p.Field); in.RunInit(p.Root); return nil })
	if out.Kind != absint.ExitReturn {
		c.Set.Problem("[%s] UNDECIDED constant evaluation of the package initialiser: %s%s", cfg, out.Undecided, out.PanicMsg)
		c.cglob[cfg] = nil
		return nil
	}
	g := map[string]absint.Val{}
	for gv, obj := range in.Globals {
		if gv.Pkg == p.Root {
			g[gv.Name()] = obj.Val
		} else if gv.Pkg == p.Field {
			g["field."+gv.Name()] = obj.Val
		}
	}
	c.cglob[cfg] = g
	return g
}

type scalarSess struct {
	c   *Ctx
	cfg string
	p   *load.Program
	d   *absint.ScalarDom
	in  *absint.Interp
}

func (c *Ctx) newScalar(cfg string, dec []bool) *scalarSess {
	p := c.Prog(cfg)
	g := c.concreteGlobals(cfg)
	if p == nil || g == nil {
		return nil
	}
	d := absint.NewScalarDom(g)
	in := absint.New(p, d)
	in.Decisions = dec
	return &scalarSess{c: c, cfg: cfg, p: p, d: d, in: in}
}

func (s *scalarSess) scalarObj(name string, v *absint.SV) absint.Ptr {
	t := s.p.Root.Members["Scalar"].Type()
	obj := s.in.NewObject(name, t, nil)
	obj.Val = s.in.StructVal(t, map[string]absint.Val{"s": v})
	return absint.Ptr{Obj: obj}
}

func (s *scalarSess) value(p absint.Ptr) *absint.SV {
	v, _ := s.in.FieldOf(p.Obj, "s").(*absint.SV)
	return v
}

func (s *scalarSess) inputBytes(name string, n int) absint.SliceV {
	arr := &absint.Agg{Elems: make([]absint.Val, n)}
	for i := range arr.Elems {
		arr.Elems[i] = s.d.InputByte(name, i)
	}
	obj := s.in.NewObject(name, types.NewArray(types.Typ[types.Uint8], int64(n)), arr)
	return absint.SliceV{Obj: obj, Len: n, Cap: n}
}

// bytesValue is Σ bit(src,i,j)·2^(8i+j) over Z/l for bytes [from,to) placed at their own positions.
func (s *scalarSess) bytesValue(src string, n int, byteSpec func(i, j int) (keep bool, forced int)) *poly.Poly {
	v := s.d.RL.Int(0)
	for i := 0; i < n; i++ {
		for j := 0; j < 8; j++ {
			w := new(big.Int).Lsh(big.NewInt(1), uint(8*i+j))
			keep, forced := true, -1
			if byteSpec != nil {
				keep, forced = byteSpec(i, j)
			}
			switch {
			case forced == 1:
				v = v.Add(s.d.RL.Const(w))
			case forced == 0 || !keep:
			default:
				v = v.Add(s.d.RL.BitVar(fmt.Sprintf("%s[%d].%d", src, i, j)).Scale(w))
			}
		}
	}
	return v
}

func (s *scalarSess) obl(rule, key, fname string, ok bool, good, bad string) {
	o := report.Obligation{Rule: rule, Key: key, Config: s.cfg, OK: ok, Detail: good}
	if f := s.p.ByName[fname]; f != nil {
		o.Pos = s.p.Rel(f.Pos())
	}
	if !ok {
		o.Detail = bad
	}
	s.c.Set.Add(o)
}

// ruleScalarArith: Add, Subtract, Negate, Multiply, MultiplyAdd, Set are +, −, unary −, ·, x·y+z, identity in Z/l
// (given the fiat contracts), for every aliasing pattern of receiver and arguments.
func (c *Ctx) ruleScalarArith(cfg string) {
	type op struct {
		name  string
		nargs int
		spec  func(r *poly.Ring, a []*poly.Poly) *poly.Poly
		desc  string
	}
	ops := []op{
		{"(*Scalar).Add", 2, func(r *poly.Ring, a []*poly.Poly) *poly.Poly { return a[0].Add(a[1]) }, "x+y"},
		{"(*Scalar).Subtract", 2, func(r *poly.Ring, a []*poly.Poly) *poly.Poly { return a[0].Sub(a[1]) }, "x−y"},
		{"(*Scalar).Negate", 1, func(r *poly.Ring, a []*poly.Poly) *poly.Poly { return a[0].Neg() }, "−x"},
		{"(*Scalar).Multiply", 2, func(r *poly.Ring, a []*poly.Poly) *poly.Poly { return a[0].Mul(a[1]) }, "x·y"},
		{"(*Scalar).MultiplyAdd", 3, func(r *poly.Ring, a []*poly.Poly) *poly.Poly { return a[0].Mul(a[1]).Add(a[2]) }, "x·y+z"},
		{"(*Scalar).Set", 1, func(r *poly.Ring, a []*poly.Poly) *poly.Poly { return a[0] }, "x"},
	}
	for _, o := range ops {
		// aliasing patterns: partition of {recv, arg0..} encoded as a group id per position
		var patterns [][]int
		var gen func(pos int, cur []int, maxg int)
		gen = func(pos int, cur []int, maxg int) {
			if pos == o.nargs+1 {
				patterns = append(patterns, append([]int{}, cur...))
				return
			}
			for g := 0; g <= maxg+1; g++ {
				nm := maxg
				if g > maxg {
					nm = g
				}
				gen(pos+1, append(cur, g), nm)
			}
		}
		gen(1, []int{0}, 0)
		okAll := true
		bad := ""
		for _, pat := range patterns {
			s := c.newScalar(cfg, nil)
			if s == nil {
				return
			}
			f := c.anchor(s.p, o.name)
			if f == nil {
				okAll = false
				bad = "anchor missing"
				break
			}
			objs := map[int]absint.Ptr{}
			vals := map[int]*poly.Poly{}
			args := make([]absint.Val, len(pat))
			var argVals []*poly.Poly
			for i, g := range pat {
				if _, ok := objs[g]; !ok {
					sym := s.d.Sym(fmt.Sprintf("g%d", g))
					objs[g] = s.scalarObj(fmt.Sprintf("g%d", g), sym)
					vals[g] = sym.P
				}
				args[i] = objs[g]
				if i > 0 {
					argVals = append(argVals, vals[g])
				}
			}
			out := s.in.Run(f, args)
			if out.Kind != absint.ExitReturn {
				okAll = false
				bad = fmt.Sprintf("aliasing %v: %s%s", pat, out.Undecided, out.PanicMsg)
				break
			}
			got := s.value(objs[0])
			want := o.spec(s.d.RL, argVals)
			if got == nil || !got.Mont && !got.Zero || !got.P.Equal(want) {
				okAll = false
				g := "?"
				if got != nil {
					g = got.P.String()
				}
				bad = fmt.Sprintf("with aliasing pattern %v (positions receiver,args → storage group) the receiver becomes %s, expected %s = %s", pat, g, o.desc, want.String())
				break
			}
			if pr, ok := out.Results[0].(absint.Ptr); !ok || pr.Obj != objs[0].Obj {
				okAll = false
				bad = "does not return the receiver"
				break
			}
			// arguments that are not the receiver keep their value
			for i, g := range pat {
				if i > 0 && g != 0 {
					if v := s.value(objs[g]); v == nil || !v.P.Equal(vals[g]) {
						okAll = false
						bad = fmt.Sprintf("argument %d is modified", i)
					}
				}
			}
		}
		s0 := c.newScalar(cfg, nil)
		if s0 == nil {
			return
		}
		s0.obl("RING", "RING/"+o.name, o.name, okAll, fmt.Sprintf("%s = %s in Z/l for all %d aliasing patterns of receiver and arguments, result in Montgomery form, returned as the receiver (fiat routines as contracted primitives: binding and operand order)", o.name, o.desc, len(patterns)), o.name+": "+bad)
	}
}

// ruleScalarConstants: modulus words, l−1 bytes, 2^168 and 2^336 in Montgomery form.
func (c *Ctx) ruleScalarConstants(cfg string) {
	p := c.Prog(cfg)
	g := c.concreteGlobals(cfg)
	if p == nil || g == nil {
		return
	}
	l := absint.L25519
	add := func(key string, ok bool, good, bad string) {
		o := report.Obligation{Rule: "CONST", Key: "CONST/" + key, Config: cfg, OK: ok, Detail: good}
		if !ok {
			o.Detail = bad
		}
		c.Set.Add(o)
	}
	// scalarMinusOneBytes + 1 = l
	if a, ok := g["scalarMinusOneBytes"].(*absint.Agg); ok && len(a.Elems) == 32 {
		v := new(big.Int)
		for i := 31; i >= 0; i-- {
			iv, _ := a.Elems[i].(absint.Int)
			if iv.V == nil {
				v = nil
				break
			}
			v.Lsh(v, 8).Add(v, iv.V)
		}
		ok := v != nil && new(big.Int).Add(v, big.NewInt(1)).Cmp(l) == 0
		add("scalarMinusOneBytes", ok, "the 32 literal bytes are l−1 in little-endian order (l = 2^252+27742317777372353535851937790883648493)", fmt.Sprintf("scalarMinusOneBytes is %v, not l−1", v))
	} else if _, exists := g["scalarMinusOneBytes"]; exists {
		add("scalarMinusOneBytes", false, "", "ANCHOR scalarMinusOneBytes is not a [32]byte literal")
	} else {
		add("scalarMinusOneBytes", true, "no package-level variable of this name exists; the accept set of the canonical decoder is decided from the code that compares against l (ORD obligations)", "")
	}
	rinv := new(big.Int).ModInverse(new(big.Int).Lsh(big.NewInt(1), 256), l)
	for _, t := range []struct {
		name string
		exp  uint
	}{{"scalarTwo168", 168}, {"scalarTwo336", 336}} {
		ok := false
		got := "?"
		if _, exists := g[t.name]; !exists {
			add(t.name, true, fmt.Sprintf("no package-level variable of this name exists; the wide reduction is decided by value (WIDE obligations), whatever constants it uses"), "")
			continue
		}
		if ptr, isP := g[t.name].(absint.Ptr); isP {
			if st, isA := ptr.Obj.Val.(*absint.Agg); isA && len(st.Elems) == 1 {
				if ws, isW := st.Elems[0].(*absint.Agg); isW && len(ws.Elems) == 4 {
					w := new(big.Int)
					for k := 3; k >= 0; k-- {
						iv, _ := ws.Elems[k].(absint.Int)
						if iv.V != nil {
							w.Lsh(w, 64).Add(w, iv.V)
						}
					}
					val := new(big.Int).Mul(w, rinv)
					val.Mod(val, l)
					want := new(big.Int).Exp(big.NewInt(2), big.NewInt(int64(t.exp)), l)
					ok = val.Cmp(want) == 0 && w.Cmp(l) < 0
					got = val.String()
				}
			}
		}
		add(t.name, ok, fmt.Sprintf("the four literal words, read in the 2^256 Montgomery domain, are 2^%d mod l (and < l: saturated representation)", t.exp), fmt.Sprintf("%s·R⁻¹ mod l = %s, expected 2^%d mod l", t.name, got, t.exp))
	}
	// modulus words inside the fiat add/sub/opp routines
	words := []*big.Int{}
	for k := 0; k < 4; k++ {
		w := new(big.Int).Rsh(l, uint(64*k))
		words = append(words, w.And(w, new(big.Int).SetUint64(^uint64(0))))
	}
	for _, fname := range []string{"fiatScalarAdd", "fiatScalarSub", "fiatScalarOpp", "fiatScalarMul"} {
		f := p.ByName[fname]
		if f == nil {
			add("modulus-words/"+fname, false, "", "ANCHOR "+fname+" not found")
			continue
		}
		seen := map[string]bool{}
		// the routine and the helpers it is built from (a refactoring may move the final subtraction into one)
		for g := range p.Reachable([]*ssa.Function{f}) {
			for _, b := range g.Blocks {
				for _, ins := range b.Instrs {
					var ops []*ssa.Value
					for _, op := range ins.Operands(ops) {
						if cst, ok := (*op).(*ssa.Const); ok && cst.Value != nil && cst.Value.Kind() == constant.Int {
							seen[cst.Value.ExactString()] = true
						}
					}
				}
			}
		}
		ok := true
		var missing []string
		for k, w := range words {
			if w.Sign() == 0 {
				continue
			}
			if !seen[w.String()] {
				ok = false
				missing = append(missing, fmt.Sprintf("word %d = %#x", k, w))
			}
		}
		if !ok {
			// not a violation by itself: where the modulus comes from is a matter of shape (a table, a helper, a
			// computed constant); what the routine computes modulo l is decided by its value congruence (FIAT-CONG)
			add("modulus-words/"+fname, true, fname+" does not spell out the modulus "+strings.Join(missing, ", ")+" as literal operands; its value congruence (FIAT-CONG) decides it", "")
			continue
		}
		add("modulus-words/"+fname, ok, "the non-zero 64-bit words of l (0x5812631a5cf5d3ed, 0x14def9dea2f79cd6, 0x1000000000000000) occur as constants in the generated routine", fname+" does not contain the modulus "+strings.Join(missing, ", "))
	}
}

// ruleScalarEncodings: SetUniformBytes, SetBytesWithClamping, SetCanonicalBytes and Bytes as ring expressions over the input bits.
func (c *Ctx) ruleScalarEncodings(cfg string) {
	// SetUniformBytes: Σ all 512 bits
	{
		fname := "(*Scalar).SetUniformBytes"
		s := c.newScalar(cfg, nil)
		if s == nil {
			return
		}
		if f := c.anchor(s.p, fname); f != nil {
			recv := s.scalarObj("s", s.d.Sym("old"))
			out := s.in.Run(f, []absint.Val{recv, s.inputBytes("x", 64)})
			if out.Kind != absint.ExitReturn {
				s.obl("RING", "RING/"+fname, fname, false, "", out.Undecided+out.PanicMsg)
			} else {
				got := s.value(recv)
				want := s.bytesValue("x", 64, nil)
				_, isErr := out.Results[1].(absint.ErrV)
				ok := got != nil && got.Mont && got.P.Equal(want) && !isErr
				s.obl("RING", "RING/"+fname, fname, ok, "for every 64-byte input the receiver becomes Σ_{i<64} x[i]·256^i mod l (a + b·2^168 + c·2^336 over the three slices, each < 2^176 < l as fiat from_bytes requires), in Montgomery form; preconditions: "+strings.Join(s.d.Obls, "; "), "SetUniformBytes does not compute the 512-bit little-endian integer mod l")
			}
		}
	}
	// SetBytesWithClamping
	{
		fname := "(*Scalar).SetBytesWithClamping"
		s := c.newScalar(cfg, nil)
		if f := c.anchor(s.p, fname); f != nil {
			recv := s.scalarObj("s", s.d.Sym("old"))
			x := s.inputBytes("x", 32)
			out := s.in.Run(f, []absint.Val{recv, x})
			if out.Kind != absint.ExitReturn {
				s.obl("RING", "RING/"+fname, fname, false, "", out.Undecided+out.PanicMsg)
			} else {
				got := s.value(recv)
				want := s.bytesValue("x", 32, func(i, j int) (bool, int) {
					switch {
					case i == 0 && j < 3:
						return false, 0
					case i == 31 && j == 7:
						return false, 0
					case i == 31 && j == 6:
						return true, 1
					}
					return true, -1
				})
				ok := got != nil && got.Mont && got.P.Equal(want)
				// the input is untouched
				el := s.in.SliceElems(nil, x)
				for i, e := range el {
					b, isB := e.(absint.SByte)
					if !isB || b.Bits[0].Key() != s.d.RZ.BitVar(fmt.Sprintf("x[%d].0", i)).Key() {
						ok = false
					}
				}
				s.obl("RING", "RING/"+fname, fname, ok, "for every 32-byte input the receiver becomes the RFC 8032 §5.1.5 clamped integer (bits 0,1,2 and 255 cleared, bit 254 set) mod l; the input is not modified", "SetBytesWithClamping does not compute the RFC 8032 clamped integer mod l (or modifies its input)")
			}
		}
	}
	// SetCanonicalBytes: two paths on the uninterpreted predicate isReduced
	{
		fname := "(*Scalar).SetCanonicalBytes"
		nOK, nErr := 0, 0
		good := true
		why := ""
		_, err := absint.Explore(16, func(dec []bool) absint.Outcome {
			s := c.newScalar(cfg, dec)
			f := c.anchor(s.p, fname)
			if f == nil {
				return absint.Outcome{}
			}
			old := s.d.Sym("old")
			recv := s.scalarObj("s", old)
			out := s.in.Run(f, []absint.Val{recv, s.inputBytes("x", 32)})
			if out.Kind != absint.ExitReturn {
				good = false
				why = out.Undecided + out.PanicMsg
				return out
			}
			_, isErr := out.Results[1].(absint.ErrV)
			reduced := len(s.d.Reduced) > 0
			got := s.value(recv)
			switch {
			case isErr:
				nErr++
				if reduced {
					good, why = false, "rejects an input for which isReduced is true"
				}
				if got == nil || !got.P.Equal(old.P) {
					good, why = false, "an error path modifies the receiver"
				}
			default:
				nOK++
				if !reduced {
					good, why = false, "accepts an input for which isReduced is false"
				}
				if got == nil || !got.Mont || !got.P.Equal(s.bytesValue("x", 32, nil)) {
					good, why = false, "on success the receiver is not Σ x[i]·256^i in Montgomery form"
				}
			}
			return out
		})
		if err != nil {
			good, why = false, err.Error()
		}
		s := c.newScalar(cfg, nil)
		s.obl("RING", "RING/"+fname, fname, good && nOK == 1 && nErr == 1, "for 32-byte inputs: accepted iff isReduced(x); then the receiver is Σ x[i]·256^i (from_bytes precondition < l guaranteed by isReduced), converted to Montgomery form; otherwise untouched", fname+": "+why+fmt.Sprintf(" (%d success, %d error paths)", nOK, nErr))
	}
	// Bytes
	{
		fname := "(*Scalar).Bytes"
		s := c.newScalar(cfg, nil)
		if f := c.anchor(s.p, fname); f != nil {
			x := s.d.Sym("x")
			recv := s.scalarObj("s", x)
			out := s.in.Run(f, []absint.Val{recv})
			ok := false
			why := out.Undecided + out.PanicMsg
			if out.Kind == absint.ExitReturn {
				el := s.in.SliceElems(nil, out.Results[0])
				ok = len(el) == 32
				for i, e := range el {
					enc, isE := e.(absint.SEnc)
					if !isE || enc.Idx != i || enc.Key != x.P.Key() {
						ok = false
						why = fmt.Sprintf("byte %d is not byte %d of to_bytes(from_montgomery(s))", i, i)
					}
				}
				if v := s.value(recv); v == nil || !v.P.Equal(x.P) || !v.Mont {
					ok = false
					why = "Bytes modifies its receiver"
				}
			}
			s.obl("RING", "RING/"+fname, fname, ok, "Bytes = to_bytes(from_montgomery(s)): the 32-byte little-endian encoding of the value in [0,l) (fiat post-condition), receiver untouched; primitive sequence "+strings.Join(s.d.Calls, "→"), fname+": "+why)
		}
	}
}

// ruleIsReduced: the ordering-domain enumeration of isReduced.
func (c *Ctx) ruleIsReduced(cfg string) {
	p := c.Prog(cfg)
	g := c.concreteGlobals(cfg)
	if p == nil || g == nil {
		return
	}
	fname := "isReduced"
	o := report.Obligation{Rule: "ORD", Key: "ORD/" + fname, Config: cfg}
	f := c.anchor(p, fname)
	if f == nil {
		c.Set.Add(o)
		return
	}
	o.Pos = p.Rel(f.Pos())
	lm1 := new(big.Int).Sub(absint.L25519, big.NewInt(1))
	paths := 0
	good := true
	why := ""
	var samples []string
	_, err := absint.Explore(400, func(dec []bool) absint.Outcome {
		d := absint.NewOrdDom(g)
		in := absint.New(p, d)
		in.Decisions = dec
		arr := &absint.Agg{Elems: make([]absint.Val, 32)}
		for i := range arr.Elems {
			arr.Elems[i] = absint.OrdByte{Idx: i}
		}
		x := absint.SliceV{Obj: in.NewObject("s", types.NewArray(types.Typ[types.Uint8], 32), arr), Len: 32, Cap: 32}
		out := in.Run(f, []absint.Val{x})
		paths++
		if out.Kind != absint.ExitReturn {
			good, why = false, out.Undecided+out.PanicMsg
			return out
		}
		res, _ := out.Results[0].(absint.Bool)
		// specification: compare from the most significant byte with l−1; the examined bytes must decide it
		want, decided := true, false
		for i := 31; i >= 0; i-- {
			cst, seen := d.Const[i]
			st, has := d.State[i]
			if !seen || !has {
				break // not examined: everything above was equal, so this position would matter
			}
			wantByte := new(big.Int).Rsh(lm1, uint(8*i))
			wantByte.And(wantByte, big.NewInt(255))
			if cst.Cmp(wantByte) != 0 {
				good, why = false, fmt.Sprintf("byte %d is compared with %s, but byte %d of l−1 is %s", i, cst, i, wantByte)
			}
			if st != 0 {
				want, decided = st < 0, true
				break
			}
			if i == 0 {
				want, decided = true, true // all 32 bytes equal: s = l−1 < l
			}
		}
		if !decided {
			good, why = false, "a path returns before the examined bytes determine the order: "+strings.Join(out.PathCond, ", ")
		} else if res.B != want {
			good, why = false, fmt.Sprintf("on the path [%s] isReduced returns %v, but the little-endian value is %s l", strings.Join(out.PathCond, ", "), res.B, map[bool]string{true: "<", false: "≥"}[want])
		}
		if paths%16 == 1 {
			samples = append(samples, fmt.Sprintf("[%s] → %v", strings.Join(out.PathCond, ", "), res.B))
		}
		return out
	})
	if err != nil {
		good, why = false, err.Error()
	}
	if !good && strings.Contains(why, "UNDECIDED") {
		// not a byte-wise scan: try the other common shape, a multi-word subtraction whose final borrow decides
		if ok, detail, applies := c.isReducedByBorrow(p, f, g); applies {
			o.OK, o.Detail = ok, detail
			c.Set.Add(o)
			return
		}
	}
	sort.Strings(samples)
	o.OK = good && paths >= 50
	o.Detail = fmt.Sprintf("input bytes are touched only by comparisons with the bytes of l−1; all %d feasible decision paths over the orderings {<,=,>} enumerated: each returns true exactly when the first byte from the top that differs from l−1 is smaller (or none differs), i.e. iff the little-endian value is < l", paths)
	if !o.OK {
		o.Detail = "isReduced: " + why + fmt.Sprintf(" (%d paths)", paths)
	}
	c.Set.Add(o)
	c.Samples = append(c.Samples, samples)
}

// ruleScalarEqual: E6 bit provenance — Equal folds all 256 bits of x−y into bit 0 and returns {0,1}.
func (c *Ctx) ruleScalarEqual(cfg string) {
	p := c.Prog(cfg)
	if p == nil {
		return
	}
	fname := "(*Scalar).Equal"
	o := report.Obligation{Rule: "E6-FOLD", Key: "E6-FOLD/" + fname, Config: cfg}
	f := c.anchor(p, fname)
	if f == nil {
		c.Set.Add(o)
		return
	}
	o.Pos = p.Rel(f.Pos())
	d := absint.NewBitDom(p)
	var subArgs []string
	d.Prims["fiatScalarSub"] = func(in *absint.Interp, site ssa.Instruction, args []absint.Val) []absint.Val {
		for _, a := range args[1:] {
			if pr, ok := a.(absint.Ptr); ok {
				subArgs = append(subArgs, pr.Obj.Name)
			}
		}
		w := &absint.Agg{Elems: make([]absint.Val, 4)}
		for k := range w.Elems {
			w.Elems[k] = absint.BVSym("diff", 64*k, 64)
		}
		in.Store(site, args[0], w)
		return nil
	}
	// the canonical encoding of a (reduced) scalar: 253 significant bits
	canBytes := func(in *absint.Interp, site ssa.Instruction, recv absint.Val) *absint.Agg {
		name := "?"
		if pr, ok := recv.(absint.Ptr); ok && pr.Obj != nil {
			name = pr.Obj.Name
		}
		arr := &absint.Agg{Elems: make([]absint.Val, 32)}
		for i := range arr.Elems {
			n := 8
			if 8*i+8 > 253 {
				n = 253 - 8*i
			}
			arr.Elems[i] = absint.BVSymPadded("can("+name+")", 8*i, n, 8)
		}
		return arr
	}
	d.Prims["(*Scalar).Bytes"] = func(in *absint.Interp, site ssa.Instruction, args []absint.Val) []absint.Val {
		obj := in.NewObject("Bytes()", types.NewArray(types.Typ[types.Uint8], 32), canBytes(in, site, args[0]))
		return []absint.Val{absint.SliceV{Obj: obj, Len: 32, Cap: 32}}
	}
	d.Prims["(*Scalar).bytes"] = func(in *absint.Interp, site ssa.Instruction, args []absint.Val) []absint.Val {
		in.Store(site, args[1], canBytes(in, site, args[0]))
		pr, _ := args[1].(absint.Ptr)
		return []absint.Val{absint.SliceV{Obj: pr.Obj, Path: pr.Path, Len: 32, Cap: 32}}
	}
	in := absint.New(p, d)
	t := p.Root.Members["Scalar"].Type()
	mk := func(name string) absint.Ptr {
		obj := in.NewObject(name, t, nil)
		w := &absint.Agg{Elems: make([]absint.Val, 4)}
		for k := range w.Elems {
			w.Elems[k] = absint.BVSym(name, 64*k, 64)
		}
		obj.Val = in.StructVal(t, map[string]absint.Val{"s": w})
		return absint.Ptr{Obj: obj}
	}
	out := in.Run(f, []absint.Val{mk("s"), mk("t")})
	if out.Kind != absint.ExitReturn {
		o.Detail = out.Undecided + out.PanicMsg
		c.Set.Add(o)
		return
	}
	b0 := bitOfVal(out.Results[0], 0)
	all := b0.Neg && !b0.Top && len(b0.Set) == 256
	if all {
		seen := map[string]bool{}
		for _, k := range b0.Set {
			seen[k] = true
		}
		for i := 0; i < 256; i++ {
			if !seen[fmt.Sprintf("diff:%d", i)] {
				all = false
			}
		}
	}
	rest := true
	for j := 1; j < 64; j++ {
		if !bitOfVal(out.Results[0], j).Equal(absint.Bit{Const: 0}) {
			rest = false
		}
	}
	okArgs := len(subArgs) == 2 && ((subArgs[0] == "s" && subArgs[1] == "t") || (subArgs[0] == "t" && subArgs[1] == "s"))
	o.OK = all && rest && okArgs
	o.Detail = "Equal = ¬OR(all 256 bits of the four words of fiatScalarSub(s, t)) in bit 0, every other result bit 0: returns exactly 1 or 0, and 1 iff the (reduced, unique) difference is zero"
	if !o.OK && rest && len(subArgs) == 0 {
		// other exact forms: all bits of the two canonical encodings, or of the two (unique, reduced) representations, agree
		for _, alt := range []struct {
			src  string
			n    int
			text string
		}{{"can(%s)", 253, "Equal = ¬OR_{k<253}(can(s)_k ⊕ can(t)_k): 1 exactly when the two canonical encodings (253 significant bits; Bytes is canonical by C08) agree in every bit, every other result bit 0"},
			{"%s", 256, "Equal = ¬OR_{k<256}(s_k ⊕ t_k): 1 exactly when the two reduced representations (unique per value) agree in every bit, every other result bit 0"}} {
			var want []string
			for k := 0; k < alt.n; k++ {
				want = append(want, absint.XorAtom(fmt.Sprintf(alt.src+":%d", "s", k), fmt.Sprintf(alt.src+":%d", "t", k)))
			}
			sort.Strings(want)
			if b0.Equal(absint.Bit{Const: -1, Neg: true, Set: want}) {
				o.OK, o.Detail = true, alt.text
				c.Set.Add(o)
				return
			}
		}
	}
	if !o.OK {
		o.Detail = fmt.Sprintf("Equal's bit 0 is %s (needs the negated OR of all 256 difference bits), other bits zero: %v, operands of the subtraction: %v", b0, rest, subArgs)
	}
	c.Set.Add(o)
}

// isReducedByBorrow decides "returns true iff the little-endian value of the 32
// input bytes is < l" for an implementation that subtracts word by word and
// returns a function of the final borrow. The flat word domain gives every word
// as an integer polynomial in the input bytes; a chain of bits.Sub64 whose
// first incoming borrow is 0 computes [X < Y] in its last outgoing borrow.
func (c *Ctx) isReducedByBorrow(p *load.Program, f *ssa.Function, g map[string]absint.Val) (ok bool, detail string, applies bool) {
	d := absint.NewLimbDom(p, true)
	d.Flat = true
	in := absint.New(p, d)
	for n, m := range p.Root.Members {
		if gv, isG := m.(*ssa.Global); isG {
			if v, has := g[n]; has {
				in.Globals[gv] = in.NewObject(n, gv.Type().(*types.Pointer).Elem(), v)
			}
		}
	}
	arr := &absint.Agg{Elems: make([]absint.Val, 32)}
	V := d.R.Int(0)
	for i := range arr.Elems {
		arr.Elems[i] = d.Sym(fmt.Sprintf("s%d", i), big.NewInt(0), big.NewInt(255))
		V = V.Add(d.R.Var(fmt.Sprintf("s%d", i)).Scale(new(big.Int).Lsh(big.NewInt(1), uint(8*i))))
	}
	x := absint.SliceV{Obj: in.NewObject("s", types.NewArray(types.Typ[types.Uint8], 32), arr), Len: 32, Cap: 32}
	out := in.Run(f, []absint.Val{x})
	if out.Kind != absint.ExitReturn || len(out.Results) != 1 {
		return false, "", false
	}
	lb, isB := out.Results[0].(absint.LBool)
	if !isB {
		return false, "", false
	}
	// the result is b or 1−b for a borrow symbol b
	b, trueOn := lb.P, 1
	if cst, isC := d.R.Int(1).Sub(lb.P).IsConst(); isC {
		return false, fmt.Sprintf("isReduced returns the constant %v", cst.Sign() == 0), true
	}
	X, Y, words, chained := d.BorrowChain(b)
	if !chained {
		b, trueOn = d.R.Int(1).Sub(lb.P), 0
		X, Y, words, chained = d.BorrowChain(b)
	}
	if !chained {
		return false, "", false
	}
	l := absint.L25519
	describe := func() string {
		return fmt.Sprintf("the result is the final borrow of a %d-word subtraction (first incoming borrow 0, each word's incoming borrow the previous outgoing one)", words)
	}
	xc, xIsC := X.IsConst()
	yc, yIsC := Y.IsConst()
	switch {
	case X.Equal(V) && yIsC:
		// borrow = [V < c]
		if trueOn == 1 && yc.Cmp(l) == 0 {
			return true, describe() + ": value − l borrows iff value < l, and true is returned exactly then", true
		}
		return false, fmt.Sprintf("isReduced returns %v when value < %s; expected true iff value < l", trueOn == 1, yc), true
	case Y.Equal(V) && xIsC:
		// borrow = [c < V]; true on no borrow: V ≤ c
		if trueOn == 0 && new(big.Int).Add(xc, big.NewInt(1)).Cmp(l) == 0 {
			return true, describe() + ": (l−1) − value borrows iff value > l−1, and true is returned exactly when it does not, i.e. iff value < l (value = Σ s_i·256^i as a polynomial identity in the input bytes)", true
		}
		return false, fmt.Sprintf("isReduced returns %v when %s < value; expected true iff value < l", trueOn == 1, xc), true
	}
	return false, "isReduced subtracts " + Y.String() + " from " + X.String() + ", which is not (value, l) in either order", true
}
