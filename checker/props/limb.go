package props

import (
	"fmt"
	"go/types"
	"math/big"
	"sort"
	"strings"

	"golang.org/x/tools/go/ssa"

	"verif/checker/absint"
	"verif/checker/load"
	"verif/checker/poly"
	"verif/checker/report"
)

type limbBox [5][2]*big.Int

func zeroBox() limbBox {
	var b limbBox
	for i := range b {
		b[i] = [2]*big.Int{big.NewInt(0), big.NewInt(0)}
	}
	return b
}

func (b limbBox) String() string {
	var s []string
	for i := range b {
		d := new(big.Int).Sub(b[i][1], new(big.Int).Lsh(big.NewInt(1), 51))
		if d.Sign() >= 0 {
			s = append(s, fmt.Sprintf("l%d ≤ 2^51+%s", i, d))
		} else {
			s = append(s, fmt.Sprintf("l%d ≤ %s", i, b[i][1]))
		}
	}
	return strings.Join(s, ", ")
}

func (b *limbBox) join(i int, lo, hi *big.Int) bool {
	ch := false
	if lo.Cmp(b[i][0]) < 0 {
		b[i][0] = new(big.Int).Set(lo)
		ch = true
	}
	if hi.Cmp(b[i][1]) > 0 {
		b[i][1] = new(big.Int).Set(hi)
		ch = true
	}
	return ch
}

// limbRun is one limb-mode abstract execution of a field function.
type limbRun struct {
	in    *absint.Interp
	d     *absint.LimbDom
	elems []absint.Ptr // every Element object handed to the call
	names []string
}

func valBounds(v absint.Val) (lo, hi *big.Int, ok bool) {
	switch x := v.(type) {
	case *absint.LV:
		return x.Lo, x.Hi, true
	case absint.Int:
		return x.V, x.V, true
	}
	return nil, nil, false
}

func (c *Ctx) elementType(p *load.Program) types.Type {
	m := p.Field.Members["Element"]
	if m == nil {
		return nil
	}
	return m.Type()
}

// newLimbElem makes an Element whose limbs range over box (symbols name.l0…).
func newLimbElem(in *absint.Interp, d *absint.LimbDom, t types.Type, name string, box limbBox) absint.Ptr {
	a := &absint.Agg{Elems: make([]absint.Val, 5)}
	for i := 0; i < 5; i++ {
		if box[i][0].Cmp(box[i][1]) == 0 && !d.TrackPoly {
			a.Elems[i] = absint.Int{V: new(big.Int).Set(box[i][0])}
		} else {
			a.Elems[i] = d.Sym(fmt.Sprintf("%s%d", name, i), box[i][0], box[i][1])
		}
	}
	return absint.Ptr{Obj: in.NewObject(name, t, a)}
}

// limbArgs builds abstract arguments for a field function from its signature.
func (c *Ctx) limbArgs(p *load.Program, in *absint.Interp, d *absint.LimbDom, f *ssa.Function, box limbBox, r *limbRun) ([]absint.Val, string) {
	et := c.elementType(p)
	var args []absint.Val
	letter := 0
	nInt := 0
	positional := c.limbPositional
	for i, prm := range f.Params {
		t := prm.Type()
		switch {
		case types.Identical(t, types.NewPointer(et)):
			nm := string(rune('a' + letter))
			if i == 0 && f.Signature.Recv() != nil {
				nm = "v"
			} else {
				letter++
			}
			if positional {
				nm = fmt.Sprintf("e%d_", len(r.elems))
			}
			ptr := newLimbElem(in, d, et, nm, box)
			r.elems = append(r.elems, ptr)
			r.names = append(r.names, prm.Name())
			args = append(args, ptr)
		case types.Identical(t.Underlying(), types.NewSlice(types.Typ[types.Uint8])):
			n := 32
			if f.Name() == "SetWideBytes" {
				n = 64
			}
			arr := &absint.Agg{Elems: make([]absint.Val, n)}
			for k := range arr.Elems {
				arr.Elems[k] = d.Sym(fmt.Sprintf("x%d", k), big.NewInt(0), big.NewInt(255))
			}
			obj := in.NewObject(prm.Name(), types.NewArray(types.Typ[types.Uint8], int64(n)), arr)
			args = append(args, absint.SliceV{Obj: obj, Len: n, Cap: n})
		case types.Identical(t, types.Typ[types.Int]) && c.limbInts != nil:
			k := int64(0)
			if nInt < len(c.limbInts) {
				k = c.limbInts[nInt]
			}
			nInt++
			args = append(args, absint.MkInt(k))
		case types.Identical(t, types.Typ[types.Int]):
			args = append(args, d.Sym("cond", big.NewInt(0), big.NewInt(1)))
		case types.Identical(t, types.Typ[types.Uint32]):
			args = append(args, d.Sym("y", big.NewInt(0), new(big.Int).SetUint64(1<<32-1)))
		case types.Identical(t, types.NewPointer(types.NewArray(types.Typ[types.Uint8], 32))):
			args = append(args, absint.Ptr{Obj: in.NewObject(prm.Name(), types.NewArray(types.Typ[types.Uint8], 32), nil)})
		default:
			return nil, "parameter " + prm.Name() + " of type " + t.String() + " has no abstract input"
		}
	}
	return args, ""
}

type limbResult struct {
	box      limbBox
	rounds   int
	nObl     int
	failures []absint.Obligation
	problems []string
	paths    int
	funcs    []string
}

// limbOps: the exported operations of field.Element (the induction steps of the representation invariant).
func limbOps(p *load.Program) []*ssa.Function {
	var out []*ssa.Function
	for _, f := range p.APIRoots() {
		if f.Pkg == p.Field {
			out = append(out, f)
		}
	}
	return out
}

// limbInvariant computes the least limb bound closed under every exported
// Element operation (E4) and the obligations at that bound.
func (c *Ctx) limbInvariant(cfg string) *limbResult {
	p := c.Prog(cfg)
	if p == nil {
		return nil
	}
	res := &limbResult{box: zeroBox()}
	ops := limbOps(p)
	for _, f := range ops {
		res.funcs = append(res.funcs, load.ShortName(f))
	}
	runAll := func(box limbBox, collect bool) (limbBox, bool) {
		next := box
		changed := false
		for _, f := range ops {
			_, err := absint.Explore(64, func(dec []bool) absint.Outcome {
				d := absint.NewLimbDom(p, false)
				in := absint.New(p, d)
				in.Decisions = dec
				if io := in.Exec(func() []absint.Val { in.RunInit(p.Field); return nil }); io.Kind != absint.ExitReturn {
					res.problems = append(res.problems, fmt.Sprintf("[%s] UNDECIDED field initialiser: %s%s", cfg, io.Undecided, io.PanicMsg))
					return io
				}
				r := &limbRun{in: in, d: d}
				args, why := c.limbArgs(p, in, d, f, box, r)
				if why != "" {
					res.problems = append(res.problems, fmt.Sprintf("[%s] UNDECIDED %s: %s", cfg, load.ShortName(f), why))
					return absint.Outcome{}
				}
				out := in.Run(f, args)
				if collect {
					res.paths++
				}
				if out.Kind == absint.ExitUndecided {
					res.problems = append(res.problems, fmt.Sprintf("[%s] %s", cfg, out.Undecided))
					return out
				}
				if out.Kind == absint.ExitPanic {
					res.problems = append(res.problems, fmt.Sprintf("[%s] UNDECIDED %s: abstract execution panics: %s", cfg, load.ShortName(f), out.PanicMsg))
					return out
				}
				for _, o := range in.Obls {
					if collect {
						res.nObl++
					}
					if !o.OK && collect {
						res.failures = append(res.failures, o)
					}
				}
				// every Element the call could have written flows back into the invariant
				for _, e := range r.elems {
					a, ok := e.Obj.Val.(*absint.Agg)
					if !ok {
						continue
					}
					for i := 0; i < 5 && i < len(a.Elems); i++ {
						lo, hi, ok := valBounds(a.Elems[i])
						if !ok {
							res.problems = append(res.problems, fmt.Sprintf("[%s] UNDECIDED %s leaves limb %d as %T", cfg, load.ShortName(f), i, a.Elems[i]))
							continue
						}
						if next.join(i, lo, hi) {
							changed = true
						}
					}
				}
				return out
			})
			if err != nil {
				res.problems = append(res.problems, fmt.Sprintf("[%s] UNDECIDED %s: %v", cfg, load.ShortName(f), err))
			}
		}
		return next, changed
	}
	box := zeroBox()
	// the literal constants
	for _, v := range []string{"feZero", "feOne", "sqrtM1"} {
		_ = v
	}
	for round := 1; round <= 30; round++ {
		res.rounds = round
		next, changed := runAll(box, false)
		box = next
		if len(res.problems) > 0 {
			break
		}
		if !changed {
			break
		}
		if round == 30 {
			res.problems = append(res.problems, "["+cfg+"] UNDECIDED limb invariant did not stabilise in 30 rounds")
		}
	}
	res.box = box
	if len(res.problems) == 0 {
		res.problems = nil
		final, changed := runAll(box, true)
		if changed {
			res.problems = append(res.problems, fmt.Sprintf("[%s] UNDECIDED invariant not closed: %s vs %s", cfg, box, final))
		}
	}
	return res
}

// limbLiterals: limbs of field's literal constants must lie within the invariant.
func limbLiteralLimbs(p *load.Program) map[string][5]*big.Int {
	out := map[string][5]*big.Int{}
	init := p.Field.Func("init")
	if init == nil {
		return out
	}
	limbs := map[ssa.Value][5]*big.Int{}
	for _, b := range init.Blocks {
		for _, ins := range b.Instrs {
			st, ok := ins.(*ssa.Store)
			if !ok {
				continue
			}
			if fa, ok := st.Addr.(*ssa.FieldAddr); ok {
				if cst, ok := st.Val.(*ssa.Const); ok && cst.Value != nil && fa.Field < 5 {
					l := limbs[fa.X]
					v, _ := new(big.Int).SetString(cst.Value.ExactString(), 10)
					l[fa.Field] = v
					limbs[fa.X] = l
				}
			}
			if g, ok := st.Addr.(*ssa.Global); ok {
				if l, ok := limbs[st.Val]; ok {
					out[g.Name()] = l
				} else if _, isAlloc := st.Val.(*ssa.Alloc); isAlloc {
					out[g.Name()] = [5]*big.Int{}
				}
			}
		}
	}
	return out
}

func (c *Ctx) ruleLimbInvariant(cfg string) *limbResult {
	res := c.limbInvariant(cfg)
	if res == nil {
		return nil
	}
	for _, pr := range res.problems {
		c.Set.Problem("%s", pr)
	}
	p := c.Prog(cfg)
	// one obligation per kind+function, aggregated (the individual count is reported)
	type agg struct {
		n, bad int
		first  absint.Obligation
	}
	by := map[string]*agg{}
	// re-run is avoided: failures carry Fn; successes are counted globally
	for _, f := range res.failures {
		k := f.Kind + "/" + f.Fn
		a := by[k]
		if a == nil {
			a = &agg{first: f}
			by[k] = a
		}
		a.bad++
	}
	o := report.Obligation{Rule: "E4-INV", Key: "E4-INV/closure", Config: cfg, OK: len(res.problems) == 0,
		Detail: fmt.Sprintf("least limb bound closed under %d exported Element operations after %d rounds: %s", len(res.funcs), res.rounds, res.box)}
	c.Set.Add(o)
	lim := new(big.Int).Lsh(big.NewInt(1), 52)
	okLim := true
	for i := range res.box {
		if res.box[i][1].Cmp(lim) >= 0 {
			okLim = false
		}
	}
	c.Set.Add(report.Obligation{Rule: "E4-INV", Key: "E4-INV/below-2^52", Config: cfg, OK: okLim, Detail: "every limb of every reachable representation is < 2^52 (the documented bound): " + res.box.String()})
	for name, l := range limbLiteralLimbs(p) {
		ok := true
		for i := 0; i < 5; i++ {
			v := l[i]
			if v == nil {
				v = big.NewInt(0)
			}
			if v.Cmp(res.box[i][1]) > 0 {
				ok = false
			}
		}
		c.Set.Add(report.Obligation{Rule: "E4-INV", Key: "E4-INV/literal:" + name, Config: cfg, OK: ok, Detail: "limbs of the literal lie within the invariant"})
	}
	nBad := len(res.failures)
	c.Set.Add(report.Obligation{Rule: "E4-OBL", Key: "E4-OBL/all-machine-operations", Config: cfg, OK: nBad == 0 && res.nObl > 0,
		Detail: fmt.Sprintf("%d machine-operation obligations (no wrap-around at +,*,<<; no underflow at −; 128-bit accumulators < 2^128 and < 2^(64+k) at double shifts; cond ∈ {0,1}) generated on %d abstract paths through %d operations with all inputs at the invariant: all discharged", res.nObl, res.paths, len(res.funcs))})
	var ks []string
	for k := range by {
		ks = append(ks, k)
	}
	sort.Strings(ks)
	for _, k := range ks {
		a := by[k]
		c.Set.Add(report.Obligation{Rule: "E4-OBL", Key: "E4-OBL/" + k, Config: cfg, Pos: a.first.Pos, OK: false,
			Detail: fmt.Sprintf("%d failing instance(s); first: %s", a.bad, a.first.Detail)})
	}
	c.Extra["limb_invariant_"+cfg] = res.box.String()
	c.Extra["machine_obligations_"+cfg] = res.nObl
	prevN, _ := c.Extra["aggregated_obligations"].(int)
	prevD, _ := c.Extra["aggregated_discharged"].(int)
	c.Extra["aggregated_obligations"] = prevN + res.nObl
	c.Extra["aggregated_discharged"] = prevD + res.nObl - nBad
	return res
}

// ---- E5: congruences --------------------------------------------------------------------

func valPoly(d *absint.LimbDom, v absint.Val) *poly.Poly {
	switch x := v.(type) {
	case *absint.LV:
		return x.P
	case absint.Int:
		return d.R.Const(x.V)
	}
	return nil
}

// elemValue is Σ limb_i · 2^(51 i) of an Element object.
func elemValue(d *absint.LimbDom, e absint.Ptr) (*poly.Poly, []*poly.Poly) {
	a, ok := e.Obj.Val.(*absint.Agg)
	if !ok {
		return nil, nil
	}
	sum := d.R.Int(0)
	var limbs []*poly.Poly
	for i := 0; i < 5; i++ {
		p := valPoly(d, a.Elems[i])
		if p == nil {
			return nil, nil
		}
		limbs = append(limbs, p)
		sum = sum.Add(p.Scale(new(big.Int).Lsh(big.NewInt(1), uint(51*i))))
	}
	return sum, limbs
}

func congruentModP(p *poly.Poly) (bool, string) {
	ok := true
	bad := ""
	p.Terms(func(vars map[string]int, coeff *big.Int) {
		if new(big.Int).Mod(coeff, absint.P25519).Sign() != 0 && ok {
			ok = false
			var vs []string
			for v, e := range vars {
				vs = append(vs, fmt.Sprintf("%s^%d", v, e))
			}
			sort.Strings(vs)
			bad = fmt.Sprintf("coefficient %s of %s is not ≡ 0 (mod p)", coeff, strings.Join(vs, "·"))
		}
	})
	return ok, bad
}

type limbPolyRun struct {
	d     *absint.LimbDom
	in    *absint.Interp
	elems []absint.Ptr
	out   absint.Outcome
	box   [5][2]*big.Int
}

// limbPoly runs f once with polynomial tracking and inputs at box.
func (c *Ctx) limbPoly(cfg string, fname string, box limbBox) *limbPolyRun {
	p := c.Prog(cfg)
	f := c.anchor(p, fname)
	if f == nil {
		return nil
	}
	d := absint.NewLimbDom(p, true)
	in := absint.New(p, d)
	if io := in.Exec(func() []absint.Val { in.RunInit(p.Field); return nil }); io.Kind != absint.ExitReturn {
		c.Set.Problem("[%s] UNDECIDED field initialiser: %s%s", cfg, io.Undecided, io.PanicMsg)
		return nil
	}
	r := &limbRun{in: in, d: d}
	args, why := c.limbArgs(p, in, d, f, box, r)
	if why != "" {
		c.Set.Problem("[%s] UNDECIDED %s: %s", cfg, fname, why)
		return nil
	}
	out := in.Run(f, args)
	return &limbPolyRun{d: d, in: in, elems: r.elems, out: out}
}

func (c *Ctx) ruleCongruences(cfg string, box limbBox) {
	p := c.Prog(cfg)
	if p == nil {
		return
	}
	symVal := func(d *absint.LimbDom, name string) *poly.Poly {
		s := d.R.Int(0)
		for i := 0; i < 5; i++ {
			s = s.Add(d.R.Var(fmt.Sprintf("%s%d", name, i)).Scale(new(big.Int).Lsh(big.NewInt(1), uint(51*i))))
		}
		return s
	}
	type spec struct {
		fn   string
		out  int // index of the output Element among the arguments
		want func(d *absint.LimbDom) *poly.Poly
		desc string
	}
	specs := []spec{
		{"field.(*Element).Add", 0, func(d *absint.LimbDom) *poly.Poly { return symVal(d, "a").Add(symVal(d, "b")) }, "val(a)+val(b)"},
		{"field.(*Element).Subtract", 0, func(d *absint.LimbDom) *poly.Poly { return symVal(d, "a").Sub(symVal(d, "b")) }, "val(a)−val(b)"},
		{"field.(*Element).Negate", 0, func(d *absint.LimbDom) *poly.Poly { return symVal(d, "a").Neg() }, "−val(a)"},
		{"field.(*Element).Multiply", 0, func(d *absint.LimbDom) *poly.Poly { return symVal(d, "a").Mul(symVal(d, "b")) }, "val(x)·val(y)"},
		{"field.(*Element).Square", 0, func(d *absint.LimbDom) *poly.Poly { return symVal(d, "a").Mul(symVal(d, "a")) }, "val(x)²"},
		{"field.(*Element).Mult32", 0, func(d *absint.LimbDom) *poly.Poly { return symVal(d, "a").Mul(d.R.Var("y")) }, "val(x)·y"},
		{"field.feMulGeneric", 0, func(d *absint.LimbDom) *poly.Poly { return symVal(d, "b").Mul(symVal(d, "c")) }, "val(a)·val(b)"},
		{"field.feSquareGeneric", 0, func(d *absint.LimbDom) *poly.Poly { return symVal(d, "b").Mul(symVal(d, "b")) }, "val(a)²"},
		{"field.(*Element).carryPropagateGeneric", 0, func(d *absint.LimbDom) *poly.Poly { return symVal(d, "v") }, "val(v) (value preserved)"},
		{"field.(*Element).carryPropagate", 0, func(d *absint.LimbDom) *poly.Poly { return symVal(d, "v") }, "val(v) (value preserved)"},
	}
	for _, sp := range specs {
		key := "E5-CONG/" + sp.fn
		f := p.ByName[sp.fn]
		o := report.Obligation{Rule: "E5-CONG", Key: key, Config: cfg}
		if f == nil {
			o.Detail = "ANCHOR " + sp.fn + " not found"
			c.Set.Add(o)
			continue
		}
		o.Pos = p.Rel(f.Pos())
		r := c.limbPoly(cfg, sp.fn, box)
		if r == nil {
			continue
		}
		if r.out.Kind != absint.ExitReturn {
			o.Detail = r.out.Undecided + r.out.PanicMsg
			c.Set.Add(o)
			continue
		}
		bad := 0
		for _, ob := range r.in.Obls {
			if !ob.OK {
				bad++
			}
		}
		got, _ := elemValue(r.d, r.elems[sp.out])
		if got == nil {
			o.Detail = "an output limb has no polynomial form (a machine operation may wrap around: see E4-OBL)"
			c.Set.Add(o)
			continue
		}
		ok, why := congruentModP(got.Sub(sp.want(r.d)))
		o.OK = ok && bad == 0
		o.Detail = fmt.Sprintf("Σ limb_i·2^(51i) of the result ≡ %s (mod p) as a polynomial identity in the input limbs and carry symbols (%d machine-operation obligations discharged on the way)", sp.desc, len(r.in.Obls))
		if !ok {
			o.Detail = "result value is not ≡ " + sp.desc + " (mod p): " + why
		} else if bad > 0 {
			o.Detail = fmt.Sprintf("%d machine-operation obligations fail at the invariant (integer reading of the arithmetic not justified)", bad)
		}
		c.Set.Add(o)
	}
}
