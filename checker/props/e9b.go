package props

import (
	"fmt"
	"go/types"
	"math/big"
	"sort"
	"strings"

	"verif/checker/absint"
	"verif/checker/poly"
)

// explore runs fn on all paths through the declared fork points; build makes a
// fresh session (objects, arguments) for each path.
type e9Path struct {
	s   *e9
	out absint.Outcome
	ctx interface{}
}

func (c *Ctx) e9Explore(cfg string, descend []string, run func(s *e9) (absint.Outcome, interface{})) ([]e9Path, error) {
	var paths []e9Path
	_, err := absint.Explore(256, func(dec []bool) absint.Outcome {
		s := c.newE9(cfg, dec, descend...)
		if !s.ok {
			return absint.Outcome{Kind: absint.ExitUndecided, Undecided: "initialiser"}
		}
		out, ctx := run(s)
		paths = append(paths, e9Path{s: s, out: out, ctx: ctx})
		return out
	})
	return paths, err
}

// litSet renders the path condition of a session as sorted literals over expanded atoms.
func (s *e9) litSet() []string {
	var out []string
	for _, l := range s.d.Path {
		out = append(out, fmt.Sprintf("%s = %v", s.describeBits(l.P), l.Truth))
	}
	sort.Strings(out)
	return out
}

// singleAtom: if p is a bare atom v or 1−v, return (name, positive).
func singleAtom(p *poly.Poly) (string, bool, bool) {
	vs := p.Vars()
	if len(vs) != 1 {
		return "", false, false
	}
	v := p.R.BitVar(vs[0])
	if p.Equal(v) {
		return vs[0], true, true
	}
	if p.Equal(p.R.Int(1).Sub(v)) {
		return vs[0], false, true
	}
	return "", false, false
}

// ---- C13 -------------------------------------------------------------------------------

func (c *Ctx) e9ExtendedCoordinates(cfg string) {
	fname := "(*Point).SetExtendedCoordinates"
	type ctxT struct {
		v          absint.Ptr
		X, Y, Z, T *absint.FE
		old        []*absint.FE
	}
	paths, err := c.e9Explore(cfg, nil, func(s *e9) (absint.Outcome, interface{}) {
		d := s.d
		cx := &ctxT{X: d.Var("X"), Y: d.Var("Y"), Z: d.Var("Z"), T: d.Var("T")}
		cx.old = []*absint.FE{d.Var("oldx"), d.Var("oldy"), d.Var("oldz"), d.Var("oldt")}
		cx.v = s.newStruct("Point", "v", map[string]absint.Val{"x": cx.old[0], "y": cx.old[1], "z": cx.old[2], "t": cx.old[3]})
		out := s.call(fname, cx.v, s.newElem("X", cx.X), s.newElem("Y", cx.Y), s.newElem("Z", cx.Z), s.newElem("T", cx.T))
		return out, cx
	})
	s0 := c.newE9(cfg, nil)
	if !s0.ok {
		return
	}
	if err != nil {
		s0.obl("E9", "E9/"+fname+"/accept-set", fname, false, "", err.Error())
		return
	}
	nSucc := 0
	okSet, okAssign, okErr := true, true, true
	var detail []string
	for _, p := range paths {
		s := p.s
		if p.out.Kind != absint.ExitReturn {
			s0.obl("E9", "E9/"+fname+"/accept-set", fname, false, "", p.out.Undecided+p.out.PanicMsg)
			return
		}
		cx := p.ctx.(*ctxT)
		d := s.d
		_, isErr := p.out.Results[1].(absint.ErrV)
		g := s.coords(cx.v, "x", "y", "z", "t")
		if isErr {
			if _, isNil := p.out.Results[0].(absint.Nil); !isNil {
				okErr = false
			}
			for i := range g {
				if !d.EqualFE(g[i], cx.old[i]) {
					okErr = false
					detail = append(detail, "an error path modifies the receiver")
				}
			}
			continue
		}
		nSucc++
		// literals of the success path
		curve := d.Eq(d.Sub(d.Mul(cx.Y, cx.Y), d.Mul(cx.X, cx.X)), d.Add(d.Mul(d.Const(absint.DSpec()), d.Mul(cx.T, cx.T)), d.Mul(cx.Z, cx.Z)))
		tz := d.Eq(d.Mul(cx.X, cx.Y), d.Mul(cx.T, cx.Z))
		zz := d.Eq(cx.Z, d.Const(big.NewInt(0)))
		curveN, _, _ := singleAtom(curve)
		tzN, _, _ := singleAtom(tz)
		zzN, _, _ := singleAtom(zz)
		seen := map[string]bool{}
		for _, l := range d.Path {
			name, pos, ok := singleAtom(l.P)
			if !ok {
				okSet = false
				detail = append(detail, "success depends on a compound condition "+s.describeBits(l.P))
				continue
			}
			val := l.Truth == pos // value the atom must have
			switch {
			case name == curveN && val:
				seen["curve"] = true
			case name == tzN && val:
				seen["tz"] = true
			case name == zzN && !val:
				seen["z"] = true
			default:
				okSet = false
				detail = append(detail, fmt.Sprintf("accepting additionally requires %s = %v — rejects more than documented", s.describeBits(d.R.BitVar(name)), val))
			}
		}
		if !seen["curve"] {
			okSet = false
			detail = append(detail, "a success path does not require −X²+Y² = Z²+d·T² — accepts more than documented")
		}
		if !seen["tz"] {
			okSet = false
			detail = append(detail, "a success path does not require X·Y = Z·T — accepts more than documented")
		}
		want := []*absint.FE{cx.X, cx.Y, cx.Z, cx.T}
		for i := range g {
			if !d.EqualFE(g[i], want[i]) {
				okAssign = false
				detail = append(detail, fmt.Sprintf("on success coordinate %d of the receiver is %s", i, feStr(g[i])))
			}
		}
		if pr, ok := p.out.Results[0].(absint.Ptr); !ok || pr.Obj != cx.v.Obj {
			okAssign = false
			detail = append(detail, "success does not return the receiver")
		}
	}
	if nSucc == 0 {
		okSet = false
		detail = append(detail, "no success path")
	}
	sort.Strings(detail)
	s0.obl("E9", "E9/"+fname+"/accept-set", fname, okSet, fmt.Sprintf("explored %d abstract paths: success requires exactly [−X²+Y² = Z²+d·T²] ∧ [X·Y = Z·T] (and, if tested, Z ≠ 0); nothing else", len(paths)), strings.Join(detail, "; "))
	s0.obl("E9", "E9/"+fname+"/faithful", fname, okAssign && okErr, "on success the receiver becomes (X:Y:Z:T) position by position and is returned; on error nil is returned and the receiver keeps its value", strings.Join(detail, "; "))

	c.e9ZeroAccept(cfg)
	// ExtendedCoordinates returns copies of (x,y,z,t) in order
	c.e9Export(cfg)
}

// e9ZeroAccept: the all-zero quadruple must be rejected (decides the Z ≠ 0 clause, DESIGN C13.2).
func (c *Ctx) e9ZeroAccept(cfg string) {
	fname := "(*Point).SetExtendedCoordinates"
	{
		s := c.newE9(cfg, nil)
		if !s.ok {
			return
		}
		d := s.d
		z := func(n string) absint.Ptr { return s.newElem(n, d.Const(big.NewInt(0))) }
		v := s.newStruct("Point", "v", nil)
		out := s.call(fname, v, z("X"), z("Y"), z("Z"), z("T"))
		key := "ZERO-ACCEPT/" + fname
		if !s.failOutcome("ZERO-ACCEPT", key, fname, out) {
			_, isErr := out.Results[1].(absint.ErrV)
			s.obl("ZERO-ACCEPT", key, fname, isErr, "with X=Y=Z=T=0 constant folding reaches an error site: given the two equations, accepting some Z=0 ⇔ accepting (0,0,0,0) (d and −d are non-squares), so Z=0 is rejected", "the quadruple (0,0,0,0) satisfies both polynomial equations and reaches the success site: Z = 0 is accepted and the receiver becomes the degenerate (0:0:0:0)")
		}
	}
}

func (c *Ctx) e9Export(cfg string) {
	{
		s := c.newE9(cfg, nil)
		if !s.ok {
			return
		}
		d := s.d
		p := s.point("1", false)
		out := s.call("(*Point).ExtendedCoordinates", p.ptr)
		key := "E9/(*Point).ExtendedCoordinates/faithful"
		if !s.failOutcome("E9", key, "(*Point).ExtendedCoordinates", out) {
			want := []*absint.FE{p.X, p.Y, p.Z, p.T}
			ok := len(out.Results) == 4
			for i := 0; ok && i < 4; i++ {
				pr, isP := out.Results[i].(absint.Ptr)
				if !isP {
					ok = false
					break
				}
				fe, isF := s.in.Load(nil, pr).(*absint.FE)
				if !isF || !d.EqualFE(fe, want[i]) || pr.Obj == p.ptr.Obj {
					ok = false
				}
			}
			s.obl("E9", key, "(*Point).ExtendedCoordinates", ok, "returns (X, Y, Z, T) in this order, in storage distinct from the point", "ExtendedCoordinates does not return copies of (x, y, z, t) in this order")
		}
	}
}

// ---- C04 -------------------------------------------------------------------------------

func (s *e9) inputBytes(name string, n int) absint.SliceV {
	arr := &absint.Agg{Elems: make([]absint.Val, n)}
	for i := range arr.Elems {
		arr.Elems[i] = absint.ByteS{In: name, Idx: i}
	}
	obj := s.in.NewObject(name, types.NewArray(types.Typ[types.Uint8], int64(n)), arr)
	return absint.SliceV{Obj: obj, Len: n, Cap: n}
}

func (c *Ctx) e9SetBytes(cfg string) {
	fname := "(*Point).SetBytes"
	type ctxT struct {
		v   absint.Ptr
		old []*absint.FE
	}
	paths, err := c.e9Explore(cfg, nil, func(s *e9) (absint.Outcome, interface{}) {
		d := s.d
		cx := &ctxT{old: []*absint.FE{d.Var("oldx"), d.Var("oldy"), d.Var("oldz"), d.Var("oldt")}}
		cx.v = s.newStruct("Point", "v", map[string]absint.Val{"x": cx.old[0], "y": cx.old[1], "z": cx.old[2], "t": cx.old[3]})
		return s.call(fname, cx.v, s.inputBytes("x", 32)), cx
	})
	s0 := c.newE9(cfg, nil)
	if !s0.ok {
		return
	}
	key := "E9/" + fname + "/decode"
	if err != nil {
		s0.obl("E9", key, fname, false, "", err.Error())
		return
	}
	ok := true
	nSucc, nErr := 0, 0
	var detail []string
	for _, p := range paths {
		s := p.s
		d := s.d
		if p.out.Kind != absint.ExitReturn {
			s0.obl("E9", key, fname, false, "", p.out.Undecided+p.out.PanicMsg)
			return
		}
		cx := p.ctx.(*ctxT)
		// specification terms (same interner as the run)
		y := d.Var("dec255(x)")
		one := d.Const(big.NewInt(1))
		y2 := d.Mul(y, y)
		u := d.Sub(y2, one)
		vv := d.Add(d.Mul(d.Const(absint.DSpec()), y2), one)
		r := d.Fn("sqrtRatio.r", u, vv)
		okBit := d.BitFn("sqrtRatio.ok", u, vv)
		sign := d.R.BitVar("bit(x,255)")
		x := d.Sel(sign, d.Neg(r), r)
		g := s.coords(cx.v, "x", "y", "z", "t")
		_, isErr := p.out.Results[1].(absint.ErrV)
		// the single literal must be ok = 1 (success) or ok = 0 (error)
		if len(d.Path) != 1 {
			ok = false
			detail = append(detail, fmt.Sprintf("a path has %d conditions: %s", len(d.Path), strings.Join(s.litSet(), " ∧ ")))
			continue
		}
		name, pos, single := singleAtom(d.Path[0].P)
		okName, _, _ := singleAtom(okBit)
		if !single || name != okName {
			ok = false
			detail = append(detail, "accept/reject depends on "+s.describeBits(d.Path[0].P)+", not on wasSquare of SqrtRatio(y²−1, d·y²+1)")
			continue
		}
		wasSquare := d.Path[0].Truth == pos
		if isErr {
			nErr++
			if wasSquare {
				ok = false
				detail = append(detail, "rejects when (y²−1)/(d·y²+1) is a square")
			}
			for i := range g {
				if !d.EqualFE(g[i], cx.old[i]) {
					ok = false
					detail = append(detail, "an error path modifies the receiver")
				}
			}
			continue
		}
		nSucc++
		if !wasSquare {
			ok = false
			detail = append(detail, "accepts when (y²−1)/(d·y²+1) is not a square")
		}
		want := []*absint.FE{x, y, one, d.Mul(x, y)}
		names := []string{"x", "y", "z", "t"}
		for i := range g {
			if !d.EqualFE(g[i], want[i]) {
				ok = false
				detail = append(detail, fmt.Sprintf("on success %s = %s, expected %s", names[i], feStr(g[i]), feStr(want[i])))
			}
		}
	}
	if nSucc != 1 || nErr != 1 {
		ok = false
		detail = append(detail, fmt.Sprintf("%d success and %d error paths for a 32-byte input, expected 1 and 1", nSucc, nErr))
	}
	sort.Strings(detail)
	s0.obl("E9", key, fname, ok, "for every 32-byte input: y = low 255 bits; (r, ok) = SqrtRatio(y²−1, d·y²+1); rejected iff ok = 0; else the receiver becomes (x : y : 1 : x·y) with x = Select(−r, r, bit 255) — a set sign bit with r = 0 stays accepted, non-canonical y is not range-checked", strings.Join(detail, "; "))
}

// ---- C16 / C09.3 -------------------------------------------------------------------------

func (c *Ctx) e9SqrtRatio(cfg string) {
	fname := "field.(*Element).SqrtRatio"
	s := c.newE9(cfg, nil, fname)
	if !s.ok {
		return
	}
	d := s.d
	u, v := d.Var("u"), d.Var("v")
	r := s.newElem("r", d.Var("oldr"))
	out := s.call(fname, r, s.newElem("u", u), s.newElem("v", v))
	key := "E9/" + fname + "/recipe"
	if s.failOutcome("E9", key, fname, out) {
		return
	}
	// RFC 9496 §4.2 SQRT_RATIO_M1, built with the same constructors
	i := d.Const(absint.SqrtM1Spec())
	v3 := d.Mul(d.Mul(v, v), v)
	v7 := d.Mul(d.Mul(v3, v3), v)
	uv3, uv7 := d.Mul(u, v3), d.Mul(u, v7)
	rr := d.Mul(uv3, d.Fn("pow22523", uv7))
	check := d.Mul(v, d.Mul(rr, rr))
	correct := d.Eq(check, u)
	flipped := d.Eq(check, d.Neg(u))
	flippedI := d.Eq(check, d.Mul(d.Neg(u), i))
	or := func(a, b *poly.Poly) *poly.Poly { return a.Add(b).Sub(a.Mul(b)) }
	rPrime := d.Sel(or(flipped, flippedI), d.Mul(i, rr), rr)
	want := d.Abs(rPrime)
	wantOK := or(correct, flipped)
	got, _ := s.in.Load(nil, r).(*absint.FE)
	gotOK, isBit := out.Results[1].(absint.BitP)
	pr, isPtr := out.Results[0].(absint.Ptr)
	var bad []string
	if got == nil || !d.EqualFE(got, want) {
		bad = append(bad, "the root written to the receiver differs from Absolute(CT_SELECT(r·i IF flipped|flipped_i ELSE r)) with r = u·v³·(u·v⁷)^((p−5)/8)")
	}
	if !isBit || !gotOK.P.Equal(wantOK) {
		g := "?"
		if isBit {
			g = s.describeBits(gotOK.P)
		}
		bad = append(bad, "wasSquare = "+g+", expected [v·r² = u] ∨ [v·r² = −u]")
	}
	if !isPtr || pr.Obj != r.Obj {
		bad = append(bad, "does not return the receiver")
	}
	s.obl("E9", key, fname, len(bad) == 0, "SqrtRatio is SQRT_RATIO_M1 (RFC 9496 §4.2) as a term identity: candidate r = u·v³·(u·v⁷)^((p−5)/8), check = v·r², wasSquare = [check=u] ∨ [check=−u], r ← r·√−1 iff [check=−u] ∨ [check=−u·√−1], result Absolute(r) written to and returned as the receiver", strings.Join(bad, "; "))
	// sqrtM1 literal
	lit := absint.ElementLiterals(s.p)["sqrtM1"]
	okLit := lit != nil && lit.Cmp(absint.SqrtM1Spec()) == 0
	sq := "?"
	if lit != nil {
		sq = new(big.Int).Mod(new(big.Int).Mul(lit, lit), absint.P25519).String()
	}
	s.obl("E9-CONST", "E9-CONST/field.sqrtM1", "", okLit, "the five literal limbs of sqrtM1 evaluate to 2^((p−1)/4) mod p, whose square is −1", "sqrtM1's literal limbs do not evaluate to 2^((p−1)/4) mod p (its square is "+sq+")")
}

func (c *Ctx) e9AbsoluteNegate(cfg string) {
	for _, t := range []struct{ fn, what string }{{"field.(*Element).Absolute", "Select(−u, u, IsNegative(u))"}, {"field.(*Element).Negate", "0 − a"}} {
		s := c.newE9(cfg, nil, t.fn)
		if !s.ok {
			return
		}
		d := s.d
		u := d.Var("u")
		v := s.newElem("v", d.Var("oldv"))
		out := s.call(t.fn, v, s.newElem("u", u))
		key := "E9/" + t.fn + "/spec"
		if s.failOutcome("E9", key, t.fn, out) {
			continue
		}
		got, _ := s.in.Load(nil, v).(*absint.FE)
		want := d.Abs(u)
		if strings.HasSuffix(t.fn, "Negate") {
			want = d.Neg(u)
		}
		s.obl("E9", key, t.fn, got != nil && d.EqualFE(got, want), t.fn+" = "+t.what, t.fn+" is not "+t.what)
	}
}
