package props

import (
	"fmt"
	"go/types"
	"math/big"
	"sort"
	"strings"

	"verif/checker/absint"
	"verif/checker/poly"
	"verif/checker/report"
)

// ruleFiatCongruences: the value congruences of the generated fiat routines (their documented
// post-conditions, minus the range claim 0 ≤ eval out1 < m) hold as polynomial identities over the
// input words and explicit carry symbols. This turns the value half of the fiat axioms into checked
// obligations; saturation/range (out < l) remains trusted.
func (c *Ctx) ruleFiatCongruences(cfg string) {
	p := c.Prog(cfg)
	if p == nil {
		return
	}
	l := absint.L25519
	two := func(k uint) *big.Int { return new(big.Int).Lsh(big.NewInt(1), k) }
	R := two(256)
	max64 := new(big.Int).Sub(two(64), big.NewInt(1))
	u64 := types.Typ[types.Uint64]
	u8 := types.Typ[types.Uint8]
	type spec struct {
		name  string
		desc  string
		check func(d *absint.LimbDom, out, a, b *poly.Poly) *poly.Poly // must be ≡ 0 (mod l) — or = 0 when exact
		exact bool
		// topCarry: the residual may be 2^256·(final borrow − final carry): the two cancel under the
		// precondition (operands < l), which is a range argument left to the generator
		topCarry bool
		shape    string // "www" (out,a,b words), "ww" (out,a), "bw" (bytes out, words in), "wb" (words out, bytes in)
	}
	specs := []spec{
		{"fiatScalarMul", "out·2^256 ≡ a·b (mod l)  [Montgomery product]", func(d *absint.LimbDom, o, a, b *poly.Poly) *poly.Poly { return o.Scale(R).Sub(a.Mul(b)) }, false, false, "www"},
		{"fiatScalarAdd", "out ≡ a + b (mod l)", func(d *absint.LimbDom, o, a, b *poly.Poly) *poly.Poly { return o.Sub(a.Add(b)) }, false, false, "www"},
		{"fiatScalarSub", "out ≡ a − b (mod l)", func(d *absint.LimbDom, o, a, b *poly.Poly) *poly.Poly { return o.Sub(a.Sub(b)) }, false, true, "www"},
		{"fiatScalarOpp", "out ≡ −a (mod l)", func(d *absint.LimbDom, o, a, b *poly.Poly) *poly.Poly { return o.Add(a) }, false, true, "ww"},
		{"fiatScalarFromMontgomery", "out·2^256 ≡ a (mod l)", func(d *absint.LimbDom, o, a, b *poly.Poly) *poly.Poly { return o.Scale(R).Sub(a) }, false, false, "ww"},
		{"fiatScalarToMontgomery", "out ≡ a·2^256 (mod l)", func(d *absint.LimbDom, o, a, b *poly.Poly) *poly.Poly { return o.Sub(a.Scale(R)) }, false, false, "ww"},
		{"fiatScalarToBytes", "Σ out[i]·256^i = Σ a[k]·2^(64k) (exactly)", func(d *absint.LimbDom, o, a, b *poly.Poly) *poly.Poly { return o.Sub(a) }, true, false, "bw"},
		{"fiatScalarFromBytes", "Σ out[k]·2^(64k) = Σ a[i]·256^i (exactly)", func(d *absint.LimbDom, o, a, b *poly.Poly) *poly.Poly { return o.Sub(a) }, true, false, "wb"},
	}
	for _, sp := range specs {
		o := report.Obligation{Rule: "FIAT-CONG", Key: "FIAT-CONG/" + sp.name, Config: cfg}
		f := c.anchor(p, sp.name)
		if f == nil {
			c.Set.Add(o)
			continue
		}
		o.Pos = p.Rel(f.Pos())
		d := absint.NewLimbDom(p, true)
		d.Flat = true
		in := absint.New(p, d)
		mkWords := func(name string, n int, elem types.Type, hi *big.Int, sym bool) (absint.Ptr, *poly.Poly) {
			arr := &absint.Agg{Elems: make([]absint.Val, n)}
			val := d.R.Int(0)
			shift := uint(64)
			if elem == u8 {
				shift = 8
			}
			for i := range arr.Elems {
				if sym {
					whi := hi
					if elem == u64 && n == 4 && i == 3 && !strings.HasSuffix(sp.name, "Bytes") {
						whi = two(60) // precondition eval < l: the top word is at most 0x1000000000000000
					}
					arr.Elems[i] = d.Sym(fmt.Sprintf("%s%d", name, i), big.NewInt(0), whi)
					val = val.Add(d.R.Var(fmt.Sprintf("%s%d", name, i)).Scale(two(shift * uint(i))))
				} else {
					arr.Elems[i] = absint.MkInt(0)
				}
			}
			return absint.Ptr{Obj: in.NewObject(name, types.NewArray(elem, int64(n)), arr)}, val
		}
		var outP, aP, bP absint.Ptr
		var aV, bV *poly.Poly
		var args []absint.Val
		switch sp.shape {
		case "www":
			outP, _ = mkWords("out", 4, u64, max64, false)
			aP, aV = mkWords("a", 4, u64, max64, true)
			bP, bV = mkWords("b", 4, u64, max64, true)
			args = []absint.Val{outP, aP, bP}
		case "ww":
			outP, _ = mkWords("out", 4, u64, max64, false)
			aP, aV = mkWords("a", 4, u64, max64, true)
			args = []absint.Val{outP, aP}
		case "bw":
			outP, _ = mkWords("out", 32, u8, big.NewInt(255), false)
			aP, aV = mkWords("a", 4, u64, max64, true)
			args = []absint.Val{outP, aP}
		case "wb":
			outP, _ = mkWords("out", 4, u64, max64, false)
			aP, aV = mkWords("a", 32, u8, big.NewInt(255), true)
			args = []absint.Val{outP, aP}
		}
		out := in.Run(f, args)
		if out.Kind != absint.ExitReturn {
			o.Detail = out.Undecided + out.PanicMsg
			c.Set.Add(o)
			continue
		}
		// value of the output
		oa := outP.Obj.Val.(*absint.Agg)
		ov := d.R.Int(0)
		shift := uint(64)
		if sp.shape == "bw" {
			shift = 8
		}
		okPoly := true
		for i, e := range oa.Elems {
			pp := valPoly(d, e)
			if pp == nil {
				okPoly = false
				o.Detail = fmt.Sprintf("output word %d has no polynomial form (a machine operation may wrap around)", i)
				break
			}
			ov = ov.Add(pp.Scale(two(shift * uint(i))))
		}
		if !okPoly {
			c.Set.Add(o)
			continue
		}
		bad := 0
		first := ""
		for _, ob := range in.Obls {
			if !ob.OK {
				bad++
				if first == "" {
					first = ob.Kind + " at " + ob.Pos + ": " + ob.Detail
				}
			}
		}
		res := sp.check(d, ov, aV, bV)
		var ok bool
		why := ""
		if sp.exact {
			ok = res.IsZero()
			if !ok {
				why = "residual " + res.String()
			}
		} else {
			ok = true
			var offenders []string
			Rm := new(big.Int).Mod(R, l)
			negRm := new(big.Int).Mod(new(big.Int).Neg(R), l)
			nB, nH := 0, 0
			// over the integers the residual of a conditional add-back must be exactly (2^256 + l)·B − 2^256·H with B the
			// final borrow of the subtraction and H the final carry of the add-back: the SAME borrow that wrapped the
			// difference selects the addition of l. Then 0 ≤ out < 2^256 and operands < l force H = B (B = 1 gives
			// out = l − (b − a) + 2^256·(1 − H) with 0 < l − (b − a) < l, so H = 1; B = 0 gives H = 0), and the residual is B·l.
			selB := new(big.Int).Add(R, l)
			negR := new(big.Int).Neg(R)
			exactTop := true
			res.Terms(func(vars map[string]int, co *big.Int) {
				m := new(big.Int).Mod(co, l)
				if sp.topCarry && m.Sign() != 0 && len(vars) == 1 {
					for v, e := range vars {
						if e == 1 && strings.HasPrefix(v, "bh64") && m.Cmp(Rm) == 0 {
							nB++
							if co.Cmp(selB) != 0 {
								exactTop = false
							}
							return
						}
						if e == 1 && strings.HasPrefix(v, "h64") && m.Cmp(negRm) == 0 {
							nH++
							if co.Cmp(negR) != 0 {
								exactTop = false
							}
							return
						}
					}
				}
				if sp.topCarry && co.Sign() != 0 {
					// a multiple of l selected by anything but the final borrow
					exactTop = false
				}
				if new(big.Int).Mod(co, l).Sign() != 0 {
					ok = false
					var vs []string
					for v := range vars {
						vs = append(vs, v)
					}
					sort.Strings(vs)
					if len(offenders) < 2 {
						s := strings.Join(vs, "·")
						if len(s) > 120 {
							s = s[:120] + "…"
						}
						offenders = append(offenders, s)
					}
				}
			})
			why = "terms with a coefficient not ≡ 0 (mod l): " + strings.Join(offenders, "; ")
			if sp.topCarry && !(nB == 1 && nH == 1) && !(nB == 0 && nH == 0) {
				ok = false
				why = fmt.Sprintf("residual is not 2^256·(final borrow − final carry): %d borrow and %d carry terms; %s", nB, nH, why)
			} else if sp.topCarry && ok && !exactTop {
				ok = false
				why = "over the integers the residual is " + res.String() + ", not (2^256 + l)·B − 2^256·H for the final borrow B and final carry H: the add-back of l is not selected by the borrow that wrapped the difference, so the result is off by 2^256 mod l whenever the two differ"
			}
		}
		o.OK = ok && bad == 0
		if sp.topCarry && o.OK {
			sp.desc += " up to 2^256·(final borrow − final carry), which vanishes when both operands are < l: over the integers the residual is exactly (2^256 + l)·B − 2^256·H with B the final borrow, so the add-back of l is selected by the very borrow that wrapped the difference and 0 ≤ out < 2^256 forces H = B"
		}
		o.Detail = fmt.Sprintf("%s: %s — polynomial identity over the input words with %d explicit carry/borrow/high-word symbols all cancelling; %d machine-operation obligations discharged (range out < l and saturation remain the generator's guarantee)", sp.name, sp.desc, len(res.Vars())+len(ov.Vars()), len(in.Obls))
		if !o.OK {
			o.Detail = fmt.Sprintf("%s does not satisfy its documented congruence %s: %s", sp.name, sp.desc, why)
			if bad > 0 {
				o.Detail += fmt.Sprintf("; %d machine-operation obligations fail (first: %s)", bad, first)
			}
		}
		c.Set.Add(o)
		switch sp.name {
		// (not fiatScalarFromMontgomery: there X = (a + m·l)/2^256 < l already for every a < l, so its final
		// subtraction never fires on a valid operand and demanding it would reject a correct simplification)
		case "fiatScalarAdd", "fiatScalarMul", "fiatScalarToMontgomery":
			c.Set.Add(fiatReduced(cfg, sp.name, o.Pos, d, ov, aV, bV))
		}
	}
	c.ruleFiatCmov(cfg)
}

// fiatReduced: the routine ends in a conditional subtraction of l that really reduces. With X the minuend of the
// LAST multi-word subtraction of the body (a complete borrow chain: first incoming borrow 0, each word's incoming
// borrow the previous outgoing one), the subtrahend is exactly l and, C being the chain's final borrow [X < l],
//
//	out = C·X_low + (1 − C)·(X − l mod 2^256)
//
// as a polynomial identity: the unreduced sum is kept exactly when it is below l. With the textbook bound X < 2l
// this is 0 ≤ out < l — the range half of the routine's contract, which the congruence alone does not give
// (a selector taken from an earlier borrow, swapped arms or a dropped subtraction all keep out ≡ spec (mod l)).
func fiatReduced(cfg, name, pos string, d *absint.LimbDom, ov, aV, bV *poly.Poly) report.Obligation {
	o := report.Obligation{Rule: "FIAT-REDUCED", Key: "FIAT-REDUCED/" + name, Config: cfg, Pos: pos}
	if len(d.SubLog) == 0 {
		o.Detail = name + " contains no multi-word subtraction with a live borrow: its result is not conditionally reduced below l"
		return o
	}
	C := d.SubLog[len(d.SubLog)-1].Out
	chain, ok := d.BorrowChainRecs(C)
	if !ok || len(chain) < 4 {
		o.Detail = fmt.Sprintf("%s: the last subtraction of the body is not the top word of a complete borrow chain of at least 4 words", name)
		return o
	}
	two := func(k uint) *big.Int { return new(big.Int).Lsh(big.NewInt(1), k) }
	X, Y := d.R.Int(0), d.R.Int(0)
	xlow, tlow := d.R.Int(0), d.R.Int(0)
	for i, r := range chain {
		w := two(uint(64 * i))
		X = X.Add(r.X.Scale(w))
		Y = Y.Add(r.Y.Scale(w))
		if i < 4 {
			xlow = xlow.Add(r.X.Scale(w))
			diff := r.X.Sub(r.Y).Sub(r.In).Add(r.Out.Scale(two(64)))
			tlow = tlow.Add(diff.Scale(w))
		}
	}
	if k, isC := Y.IsConst(); !isC || k.Cmp(absint.L25519) != 0 {
		o.Detail = fmt.Sprintf("%s: the final subtraction takes away %s, not l", name, Y.String())
		return o
	}
	want := C.Mul(xlow).Add(d.R.Int(1).Sub(C).Mul(tlow))
	if !ov.Equal(want) {
		o.Detail = fmt.Sprintf("%s: the result is not [X < l]·X + [X ≥ l]·(X − l) for the minuend X of its final %d-word subtraction of l (selector, arms or words of the conditional move differ): the output need not be below l", name, len(chain))
		return o
	}
	o.OK = true
	o.Detail = fmt.Sprintf("%s: out = X if X < l, X − l otherwise, as a polynomial identity, X the minuend of the final %d-word subtraction of l and the selector its final borrow", name, len(chain))
	if name == "fiatScalarAdd" {
		if X.Equal(aV.Add(bV)) {
			o.Detail += "; X = a + b exactly, so a, b < l give X < 2l and 0 ≤ out < l"
		} else {
			o.OK = false
			o.Detail = name + ": the minuend of the final subtraction is not a + b"
		}
	} else {
		// Montgomery bound: X·2^256 = (product) + M·l over the integers, with M = Σ m_i·2^(64i) built from the four
		// 64-bit words m_i that the body multiplies by the low word of l (one per round). Then M < 2^256 and
		// product < l·2^256 (operands below l, resp. one operand below l and the constant R² mod l below l) give
		// X < l + l = 2l.
		l0 := new(big.Int).And(absint.L25519, new(big.Int).Sub(two(64), big.NewInt(1)))
		M := d.R.Int(0)
		n := 0
		max64 := new(big.Int).Sub(two(64), big.NewInt(1))
		wordsOK := true
		for _, m := range d.MulLog {
			if m.Const.Cmp(l0) == 0 {
				if m.OtherHi.Cmp(max64) > 0 {
					wordsOK = false
				}
				M = M.Add(m.Other.Scale(two(uint(64 * n))))
				n++
			}
		}
		var prod *poly.Poly
		switch name {
		case "fiatScalarMul":
			prod = aV.Mul(bV)
		case "fiatScalarToMontgomery":
			// a · (R² mod l)
			r2 := new(big.Int).Exp(two(256), big.NewInt(2), absint.L25519)
			prod = aV.Scale(r2)
		}
		if prod != nil && n == 4 && wordsOK && X.Scale(two(256)).Sub(prod).Equal(M.Scale(absint.L25519)) {
			o.Detail += "; X·2^256 = product + M·l exactly, M the four reduction words (each < 2^64) multiplied by l, so X < (l·2^256 + 2^256·l)/2^256 = 2l and 0 ≤ out < l"
		} else {
			o.Detail += fmt.Sprintf(" (X < 2l is the Montgomery bound for operands < l: not decided — %d reduction words found)", n)
		}
	}
	return o
}

// ruleFiatCmov: the selection primitive the other rules take as given — out = arg2 if arg1 = 0, arg3 if arg1 = 1 —
// evaluated from its body over symbolic 64-bit words.
func (c *Ctx) ruleFiatCmov(cfg string) {
	p := c.Prog(cfg)
	o := report.Obligation{Rule: "FIAT-CMOV", Key: "FIAT-CMOV/fiatScalarCmovznzU64", Config: cfg}
	f := p.ByName["fiatScalarCmovznzU64"]
	if f == nil {
		// no such helper: nothing is taken as a selection primitive (selections written inline are evaluated where
		// they stand, by the word domain)
		return
	}
	o.Pos = p.Rel(f.Pos())
	max64 := new(big.Int).Sub(new(big.Int).Lsh(big.NewInt(1), 64), big.NewInt(1))
	for _, cv := range []int64{0, 1} {
		d := absint.NewLimbDom(p, true)
		d.Flat = true
		d.NoCmovPrim = true
		in := absint.New(p, d)
		outP := absint.Ptr{Obj: in.NewObject("out", types.Typ[types.Uint64], absint.MkInt(0))}
		x := d.Sym("x", big.NewInt(0), max64)
		y := d.Sym("y", big.NewInt(0), max64)
		out := in.Run(f, []absint.Val{outP, absint.MkInt(cv), x, y})
		if out.Kind != absint.ExitReturn {
			o.Detail = out.Undecided + out.PanicMsg
			c.Set.Add(o)
			return
		}
		got := valPoly(d, outP.Obj.Val)
		want := d.R.Var("x")
		if cv == 1 {
			want = d.R.Var("y")
		}
		if got == nil || !got.Equal(want) {
			gs := "a value with no polynomial form"
			if got != nil {
				gs = got.String()
			}
			o.Detail = fmt.Sprintf("fiatScalarCmovznzU64(arg1 = %d, x, y) yields %s, expected %s", cv, gs, want.String())
			c.Set.Add(o)
			return
		}
		for _, ob := range in.Obls {
			if !ob.OK {
				o.Detail = "machine-operation obligation fails: " + ob.Kind + " at " + ob.Pos + ": " + ob.Detail
				c.Set.Add(o)
				return
			}
		}
	}
	o.OK = true
	o.Detail = "fiatScalarCmovznzU64(0, x, y) = x and (1, x, y) = y for all 64-bit words x, y (evaluated from the body; the callers' condition ∈ {0,1} is an obligation at each call)"
	c.Set.Add(o)
}
