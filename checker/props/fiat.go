package props

import (
	"fmt"
	"go/types"
	"math/big"
	"sort"
	"strings"

	"verif/checker/absint"
	"verif/checker/poly"
	"verif/checker/report"
)

// ruleFiatCongruences: the value congruences of the generated fiat routines (their documented
// post-conditions, minus the range claim 0 ≤ eval out1 < m) hold as polynomial identities over the
// input words and explicit carry symbols. This turns the value half of the fiat axioms into checked
// obligations; saturation/range (out < l) remains trusted.
func (c *Ctx) ruleFiatCongruences(cfg string) {
	p := c.Prog(cfg)
	if p == nil {
		return
	}
	l := absint.L25519
	two := func(k uint) *big.Int { return new(big.Int).Lsh(big.NewInt(1), k) }
	R := two(256)
	max64 := new(big.Int).Sub(two(64), big.NewInt(1))
	u64 := types.Typ[types.Uint64]
	u8 := types.Typ[types.Uint8]
	type spec struct {
		name  string
		desc  string
		check func(d *absint.LimbDom, out, a, b *poly.Poly) *poly.Poly // must be ≡ 0 (mod l) — or = 0 when exact
		exact bool
		// topCarry: the residual may be 2^256·(final borrow − final carry): the two cancel under the
		// precondition (operands < l), which is a range argument left to the generator
		topCarry bool
		shape    string // "www" (out,a,b words), "ww" (out,a), "bw" (bytes out, words in), "wb" (words out, bytes in)
	}
	specs := []spec{
		{"fiatScalarMul", "out·2^256 ≡ a·b (mod l)  [Montgomery product]", func(d *absint.LimbDom, o, a, b *poly.Poly) *poly.Poly { return o.Scale(R).Sub(a.Mul(b)) }, false, false, "www"},
		{"fiatScalarAdd", "out ≡ a + b (mod l)", func(d *absint.LimbDom, o, a, b *poly.Poly) *poly.Poly { return o.Sub(a.Add(b)) }, false, false, "www"},
		{"fiatScalarSub", "out ≡ a − b (mod l)", func(d *absint.LimbDom, o, a, b *poly.Poly) *poly.Poly { return o.Sub(a.Sub(b)) }, false, true, "www"},
		{"fiatScalarOpp", "out ≡ −a (mod l)", func(d *absint.LimbDom, o, a, b *poly.Poly) *poly.Poly { return o.Add(a) }, false, true, "ww"},
		{"fiatScalarFromMontgomery", "out·2^256 ≡ a (mod l)", func(d *absint.LimbDom, o, a, b *poly.Poly) *poly.Poly { return o.Scale(R).Sub(a) }, false, false, "ww"},
		{"fiatScalarToMontgomery", "out ≡ a·2^256 (mod l)", func(d *absint.LimbDom, o, a, b *poly.Poly) *poly.Poly { return o.Sub(a.Scale(R)) }, false, false, "ww"},
		{"fiatScalarToBytes", "Σ out[i]·256^i = Σ a[k]·2^(64k) (exactly)", func(d *absint.LimbDom, o, a, b *poly.Poly) *poly.Poly { return o.Sub(a) }, true, false, "bw"},
		{"fiatScalarFromBytes", "Σ out[k]·2^(64k) = Σ a[i]·256^i (exactly)", func(d *absint.LimbDom, o, a, b *poly.Poly) *poly.Poly { return o.Sub(a) }, true, false, "wb"},
	}
	for _, sp := range specs {
		o := report.Obligation{Rule: "FIAT-CONG", Key: "FIAT-CONG/" + sp.name, Config: cfg}
		f := c.anchor(p, sp.name)
		if f == nil {
			c.Set.Add(o)
			continue
		}
		o.Pos = p.Rel(f.Pos())
		d := absint.NewLimbDom(p, true)
		d.Flat = true
		in := absint.New(p, d)
		mkWords := func(name string, n int, elem types.Type, hi *big.Int, sym bool) (absint.Ptr, *poly.Poly) {
			arr := &absint.Agg{Elems: make([]absint.Val, n)}
			val := d.R.Int(0)
			shift := uint(64)
			if elem == u8 {
				shift = 8
			}
			for i := range arr.Elems {
				if sym {
					whi := hi
					if elem == u64 && n == 4 && i == 3 && !strings.HasSuffix(sp.name, "Bytes") {
						whi = two(60) // precondition eval < l: the top word is at most 0x1000000000000000
					}
					arr.Elems[i] = d.Sym(fmt.Sprintf("%s%d", name, i), big.NewInt(0), whi)
					val = val.Add(d.R.Var(fmt.Sprintf("%s%d", name, i)).Scale(two(shift * uint(i))))
				} else {
					arr.Elems[i] = absint.MkInt(0)
				}
			}
			return absint.Ptr{Obj: in.NewObject(name, types.NewArray(elem, int64(n)), arr)}, val
		}
		var outP, aP, bP absint.Ptr
		var aV, bV *poly.Poly
		var args []absint.Val
		switch sp.shape {
		case "www":
			outP, _ = mkWords("out", 4, u64, max64, false)
			aP, aV = mkWords("a", 4, u64, max64, true)
			bP, bV = mkWords("b", 4, u64, max64, true)
			args = []absint.Val{outP, aP, bP}
		case "ww":
			outP, _ = mkWords("out", 4, u64, max64, false)
			aP, aV = mkWords("a", 4, u64, max64, true)
			args = []absint.Val{outP, aP}
		case "bw":
			outP, _ = mkWords("out", 32, u8, big.NewInt(255), false)
			aP, aV = mkWords("a", 4, u64, max64, true)
			args = []absint.Val{outP, aP}
		case "wb":
			outP, _ = mkWords("out", 4, u64, max64, false)
			aP, aV = mkWords("a", 32, u8, big.NewInt(255), true)
			args = []absint.Val{outP, aP}
		}
		out := in.Run(f, args)
		if out.Kind != absint.ExitReturn {
			o.Detail = out.Undecided + out.PanicMsg
			c.Set.Add(o)
			continue
		}
		// value of the output
		oa := outP.Obj.Val.(*absint.Agg)
		ov := d.R.Int(0)
		shift := uint(64)
		if sp.shape == "bw" {
			shift = 8
		}
		okPoly := true
		for i, e := range oa.Elems {
			pp := valPoly(d, e)
			if pp == nil {
				okPoly = false
				o.Detail = fmt.Sprintf("output word %d has no polynomial form (a machine operation may wrap around)", i)
				break
			}
			ov = ov.Add(pp.Scale(two(shift * uint(i))))
		}
		if !okPoly {
			c.Set.Add(o)
			continue
		}
		bad := 0
		first := ""
		for _, ob := range in.Obls {
			if !ob.OK {
				bad++
				if first == "" {
					first = ob.Kind + " at " + ob.Pos + ": " + ob.Detail
				}
			}
		}
		res := sp.check(d, ov, aV, bV)
		var ok bool
		why := ""
		if sp.exact {
			ok = res.IsZero()
			if !ok {
				why = "residual " + res.String()
			}
		} else {
			ok = true
			var offenders []string
			Rm := new(big.Int).Mod(R, l)
			negRm := new(big.Int).Mod(new(big.Int).Neg(R), l)
			nB, nH := 0, 0
			res.Terms(func(vars map[string]int, co *big.Int) {
				m := new(big.Int).Mod(co, l)
				if sp.topCarry && m.Sign() != 0 && len(vars) == 1 {
					for v, e := range vars {
						if e == 1 && strings.HasPrefix(v, "bh64") && m.Cmp(Rm) == 0 {
							nB++
							return
						}
						if e == 1 && strings.HasPrefix(v, "h64") && m.Cmp(negRm) == 0 {
							nH++
							return
						}
					}
				}
				if new(big.Int).Mod(co, l).Sign() != 0 {
					ok = false
					var vs []string
					for v := range vars {
						vs = append(vs, v)
					}
					sort.Strings(vs)
					if len(offenders) < 2 {
						s := strings.Join(vs, "·")
						if len(s) > 120 {
							s = s[:120] + "…"
						}
						offenders = append(offenders, s)
					}
				}
			})
			why = "terms with a coefficient not ≡ 0 (mod l): " + strings.Join(offenders, "; ")
			if sp.topCarry && !(nB == 1 && nH == 1) && !(nB == 0 && nH == 0) {
				ok = false
				why = fmt.Sprintf("residual is not 2^256·(final borrow − final carry): %d borrow and %d carry terms; %s", nB, nH, why)
			}
		}
		o.OK = ok && bad == 0
		if sp.topCarry && o.OK {
			sp.desc += " up to 2^256·(final borrow − final carry), which vanishes when both operands are < l (the add-back of l carries out exactly when the subtraction borrowed; range argument, not decided)"
		}
		o.Detail = fmt.Sprintf("%s: %s — polynomial identity over the input words with %d explicit carry/borrow/high-word symbols all cancelling; %d machine-operation obligations discharged (range out < l and saturation remain the generator's guarantee)", sp.name, sp.desc, len(res.Vars())+len(ov.Vars()), len(in.Obls))
		if !o.OK {
			o.Detail = fmt.Sprintf("%s does not satisfy its documented congruence %s: %s", sp.name, sp.desc, why)
			if bad > 0 {
				o.Detail += fmt.Sprintf("; %d machine-operation obligations fail (first: %s)", bad, first)
			}
		}
		c.Set.Add(o)
	}
}
