package props

import (
	"fmt"
	"go/types"
	"math/big"
	"strings"

	"golang.org/x/tools/go/ssa"

	"verif/checker/absint"
	"verif/checker/poly"
	"verif/checker/report"
)

type groupSess struct {
	c   *Ctx
	cfg string
	in  *absint.Interp
	d   *absint.GroupDom
}

func (c *Ctx) newGroup(cfg string) *groupSess {
	p := c.Prog(cfg)
	if p == nil {
		return nil
	}
	d := absint.NewGroupDom()
	return &groupSess{c: c, cfg: cfg, in: absint.New(p, d), d: d}
}

func (s *groupSess) point(name string, v *absint.GV) absint.Ptr {
	t := s.in.P.Root.Members["Point"].Type()
	return absint.Ptr{Obj: s.in.NewObject(name, t, v)}
}

func (s *groupSess) scalar(name string) absint.Ptr {
	t := s.in.P.Root.Members["Scalar"].Type()
	return absint.Ptr{Obj: s.in.NewObject(name, t, nil)}
}

func (s *groupSess) ptrSlice(elemType types.Type, ps []absint.Ptr) absint.Val {
	if ps == nil {
		return absint.Nil{}
	}
	arr := &absint.Agg{Elems: make([]absint.Val, len(ps))}
	for i, p := range ps {
		arr.Elems[i] = p
	}
	obj := s.in.NewObject("slice", types.NewArray(types.NewPointer(elemType), int64(len(ps))), arr)
	return absint.SliceV{Obj: obj, Len: len(ps), Cap: len(ps)}
}

// ruleScalarMultLoops: the constant-time scalar-multiplication drivers compute Σ_j (Σ_i d_{j,i}·16^i)·P_j
// in the group-expression domain, for every aliasing of the receiver with an input and prior receiver content.
func (c *Ctx) ruleScalarMultLoops(cfg string) {
	p := c.Prog(cfg)
	if p == nil {
		return
	}
	emit := func(key, fname string, ok bool, good, bad string) {
		o := report.Obligation{Rule: "GROUP", Key: key, Config: cfg, OK: ok, Detail: good}
		if f := p.ByName[fname]; f != nil {
			o.Pos = p.Rel(f.Pos())
		}
		if !ok {
			o.Detail = bad
		}
		c.Set.Add(o)
	}
	outMsg := func(out absint.Outcome) string {
		if out.Kind == absint.ExitPanic {
			return "abstract execution panics: " + out.PanicMsg
		}
		return out.Undecided
	}
	// ScalarMult
	for _, al := range []string{"fresh receiver", "used receiver", "v=q"} {
		fname := "(*Point).ScalarMult"
		s := c.newGroup(cfg)
		f := c.anchor(p, fname)
		if f == nil {
			break
		}
		q := s.point("q", s.d.Sym("Q"))
		var v absint.Ptr
		switch al {
		case "fresh receiver":
			v = s.point("v", &absint.GV{Invalid: true})
		case "used receiver":
			v = s.point("v", s.d.Sym("OLD"))
		default:
			v = q
		}
		out := s.in.Run(f, []absint.Val{v, s.scalar("x"), q})
		key := "GROUP/" + fname + "[" + al + "]"
		if out.Kind != absint.ExitReturn {
			emit(key, fname, false, "", outMsg(out))
			continue
		}
		got, _ := v.Obj.Val.(*absint.GV)
		want := &absint.GV{Terms: map[string]*poly.Poly{"Q": s.d.DigitSum("x", 64)}}
		pr, isP := out.Results[0].(absint.Ptr)
		ok := got != nil && got.Equal(want) && isP && pr.Obj == v.Obj
		emit(key, fname, ok, "the 64-digit double-and-add loop leaves the receiver at [Σ d_i·16^i]·Q (formal identity in the digit symbols; 4 doublings per digit, lookup contract per digit) and returns it — independent of the receiver's prior content", fmt.Sprintf("ScalarMult (%s) yields %v, expected [Σ d_i·16^i]·Q", al, got))
	}
	// ScalarBaseMult
	for _, al := range []string{"fresh receiver", "used receiver"} {
		fname := "(*Point).ScalarBaseMult"
		s := c.newGroup(cfg)
		f := c.anchor(p, fname)
		if f == nil {
			break
		}
		v := s.point("v", &absint.GV{Invalid: true})
		if al == "used receiver" {
			v = s.point("v", s.d.Sym("OLD"))
		}
		out := s.in.Run(f, []absint.Val{v, s.scalar("x")})
		key := "GROUP/" + fname + "[" + al + "]"
		if out.Kind != absint.ExitReturn {
			emit(key, fname, false, "", outMsg(out))
			continue
		}
		got, _ := v.Obj.Val.(*absint.GV)
		want := &absint.GV{Terms: map[string]*poly.Poly{"B": s.d.DigitSum("x", 64)}}
		ok := got != nil && got.Equal(want)
		emit(key, fname, ok, "the fixed-base comb (32 tables of 256^i·B built under sync.Once by 8 doublings each, odd digits first, ×16, even digits) leaves the receiver at [Σ d_i·16^i]·B", fmt.Sprintf("ScalarBaseMult (%s) yields %v, expected [Σ d_i·16^i]·B", al, got))
	}
	// MultiScalarMult for n = 0..3, receiver fresh / used / aliased to each input
	{
		fname := "(*Point).MultiScalarMult"
		f := c.anchor(p, fname)
		pt := p.Root.Members["Point"].Type()
		st := p.Root.Members["Scalar"].Type()
		bound := 3
		if f != nil {
			base := 3
			if c.Tier == "thorough" {
				base = 6 // deeper enumeration in the thorough tier
			}
			b, detail, ok := c.termBound(p, f, base)
			bound = b
			c.Set.Add(report.Obligation{Rule: "N-UNIFORM", Key: "N-UNIFORM/" + fname, Config: cfg, Pos: p.Rel(f.Pos()), OK: ok, Detail: detail})
		}
		for n := 0; f != nil && n <= bound; n++ {
			variants := []string{"fresh receiver", "used receiver"}
			for j := 0; j < n; j++ {
				variants = append(variants, fmt.Sprintf("v=points[%d]", j))
			}
			if n >= 2 {
				variants = append(variants, "points[0]=points[1]")
			}
			for _, al := range variants {
				s := c.newGroup(cfg)
				var pts, scs []absint.Ptr
				want := &absint.GV{Terms: map[string]*poly.Poly{}}
				for j := 0; j < n; j++ {
					name := fmt.Sprintf("P%d", j)
					if al == "points[0]=points[1]" && j == 1 {
						pts = append(pts, pts[0])
						name = "P0"
					} else {
						pts = append(pts, s.point(fmt.Sprintf("p%d", j), s.d.Sym(name)))
					}
					scs = append(scs, s.scalar(fmt.Sprintf("k%d", j)))
					sum := s.d.DigitSum(fmt.Sprintf("k%d", j), 64)
					if old, ok := want.Terms[name]; ok {
						sum = old.Add(sum)
					}
					want.Terms[name] = sum
				}
				v := s.point("v", &absint.GV{Invalid: true})
				switch {
				case al == "used receiver":
					v = s.point("v", s.d.Sym("OLD"))
				case strings.HasPrefix(al, "v=points["):
					var j int
					fmt.Sscanf(al, "v=points[%d]", &j)
					v = pts[j]
				}
				var ps, ss absint.Val = s.ptrSlice(pt, pts), s.ptrSlice(st, scs)
				if n == 0 {
					ps, ss = absint.Nil{}, absint.Nil{}
				}
				out := s.in.Run(f, []absint.Val{v, ss, ps})
				key := fmt.Sprintf("GROUP/%s[n=%d,%s]", fname, n, al)
				if out.Kind != absint.ExitReturn {
					emit(key, fname, false, "", outMsg(out))
					continue
				}
				got, _ := v.Obj.Val.(*absint.GV)
				ok := got != nil && got.Equal(want)
				emit(key, fname, ok, fmt.Sprintf("with %d terms the receiver ends at Σ_j [Σ_i d_{j,i}·16^i]·P_j (the identity for n=0) and inputs are unchanged", n), fmt.Sprintf("MultiScalarMult (n=%d, %s) yields %v, expected %v", n, al, got, want))
			}
		}
	}
	_ = big.NewInt
}

// ruleLookupTables: E9 exhaustive evaluation of the constant-time selectors over all 17 digits,
// the NAF selectors over all odd digits, and table contents in the group domain.
func (c *Ctx) ruleLookupTables(cfg string) {
	p := c.Prog(cfg)
	if p == nil {
		return
	}
	type tab struct {
		typ, entry string
		n          int
		fields     []string
	}
	for _, t := range []tab{{"projLookupTable", "projCached", 8, []string{"YplusX", "YminusX", "Z", "T2d"}}, {"affineLookupTable", "affineCached", 8, []string{"YplusX", "YminusX", "T2d"}}} {
		fname := "(*" + t.typ + ").SelectInto"
		o := report.Obligation{Rule: "SELECT", Key: "SELECT/" + fname, Config: cfg}
		f := c.anchor(p, fname)
		if f == nil {
			c.Set.Add(o)
			continue
		}
		o.Pos = p.Rel(f.Pos())
		o.OK = true
		for x := -8; x <= 8 && o.OK; x++ {
			s := c.newE9(cfg, nil)
			if !s.ok {
				return
			}
			d := s.d
			tbl := s.newStruct(t.typ, "table", nil)
			entries := tableEntries(tbl)
			if entries == nil || len(entries.Elems) != t.n {
				o.OK = false
				o.Detail = fmt.Sprintf("UNDECIDED: %s is not (a struct around) an array of %d entries", t.typ, t.n)
				break
			}
			for i := 0; i < t.n; i++ {
				fields := map[string]absint.Val{}
				for _, fn := range t.fields {
					fields[fn] = d.Var(fmt.Sprintf("e%d.%s", i, fn))
				}
				entries.Elems[i] = s.in.StructVal(s.namedType(s.p.Root, t.entry), fields)
			}
			dest := s.newStruct(t.entry, "dest", nil)
			out := s.in.Run(f, []absint.Val{tbl, dest, absint.MkInt(int64(x))})
			if out.Kind != absint.ExitReturn {
				o.OK = false
				o.Detail = fmt.Sprintf("digit %d: %s%s", x, out.Undecided, out.PanicMsg)
				break
			}
			got := s.coords(dest, t.fields...)
			abs := x
			if abs < 0 {
				abs = -abs
			}
			for k, fn := range t.fields {
				var want *absint.FE
				src := fn
				if x < 0 { // negation of a cached point: swap Y+X and Y−X, negate 2dT
					switch fn {
					case "YplusX":
						src = "YminusX"
					case "YminusX":
						src = "YplusX"
					}
				}
				if abs == 0 {
					want = map[string]*absint.FE{"YplusX": d.Const(big.NewInt(1)), "YminusX": d.Const(big.NewInt(1)), "Z": d.Const(big.NewInt(1)), "T2d": d.Const(big.NewInt(0))}[fn]
				} else {
					want = d.Var(fmt.Sprintf("e%d.%s", abs-1, src))
					if x < 0 && fn == "T2d" {
						want = d.Neg(want)
					}
				}
				if !d.EqualFE(got[k], want) {
					o.OK = false
					o.Detail = fmt.Sprintf("for digit %d field %s of the selected entry is %s, expected %s", x, fn, feStr(got[k]), feStr(want))
				}
			}
		}
		if o.OK {
			o.Detail = "for each of the 17 digits −8…8 (exhaustive): the result is entry |x|−1, the neutral element for 0, and for x<0 its negation (Y+X ↔ Y−X swapped, 2dT negated); the table is not modified"
		}
		c.Set.Add(o)
	}
	// table contents in the group domain: entry i = (i+1)·Q resp. (2i+1)·Q
	for _, t := range []struct {
		typ   string
		n     int
		coeff func(i int) int64
		desc  string
	}{
		{"projLookupTable", 8, func(i int) int64 { return int64(i + 1) }, "(i+1)·Q"},
		{"affineLookupTable", 8, func(i int) int64 { return int64(i + 1) }, "(i+1)·Q"},
		{"nafLookupTable5", 8, func(i int) int64 { return int64(2*i + 1) }, "(2i+1)·Q"},
		{"nafLookupTable8", 64, func(i int) int64 { return int64(2*i + 1) }, "(2i+1)·Q"},
	} {
		fname := "(*" + t.typ + ").FromP3"
		o := report.Obligation{Rule: "TABLE", Key: "TABLE/" + fname, Config: cfg}
		f := c.anchor(p, fname)
		if f == nil {
			c.Set.Add(o)
			continue
		}
		o.Pos = p.Rel(f.Pos())
		s := c.newGroup(cfg)
		tt := p.Root.Members[t.typ].Type()
		tbl := absint.Ptr{Obj: s.in.NewObject("table", tt, nil)}
		q := s.point("q", s.d.Sym("Q"))
		out := s.in.Run(f, []absint.Val{tbl, q})
		if out.Kind != absint.ExitReturn {
			o.Detail = out.Undecided + out.PanicMsg
			c.Set.Add(o)
			continue
		}
		arr := tableEntries(tbl)
		if arr == nil {
			o.Detail = fmt.Sprintf("UNDECIDED: %s is not (a struct around) an array of entries", t.typ)
			c.Set.Add(o)
			continue
		}
		o.OK = len(arr.Elems) == t.n
		for i, e := range arr.Elems {
			g, _ := e.(*absint.GV)
			want := &absint.GV{Terms: map[string]*poly.Poly{"Q": s.d.R.Int(t.coeff(i))}}
			if g == nil || !g.Equal(want) {
				o.OK = false
				o.Detail = fmt.Sprintf("entry %d is %v, expected %d·Q", i, e, t.coeff(i))
				break
			}
		}
		if o.OK {
			o.Detail = fmt.Sprintf("all %d entries: entry i = %s in the group-expression domain (each from the previous one by one verified addition)", t.n, t.desc)
		}
		c.Set.Add(o)
	}
	// NAF selectors: x odd -> entry x/2
	for _, t := range []struct {
		typ, entry string
		n          int
	}{{"nafLookupTable5", "projCached", 8}, {"nafLookupTable8", "affineCached", 64}} {
		fname := "(*" + t.typ + ").SelectInto"
		o := report.Obligation{Rule: "SELECT", Key: "SELECT/" + fname, Config: cfg}
		f := c.anchor(p, fname)
		if f == nil {
			c.Set.Add(o)
			continue
		}
		o.Pos = p.Rel(f.Pos())
		o.OK = true
		for x := 1; x < 2*t.n && o.OK; x += 2 {
			s := c.newGroup(cfg)
			tt := p.Root.Members[t.typ].Type()
			tbl := absint.Ptr{Obj: s.in.NewObject("table", tt, nil)}
			arr := tableEntries(tbl)
			if arr == nil {
				o.OK = false
				o.Detail = fmt.Sprintf("UNDECIDED: %s is not (a struct around) an array of entries", t.typ)
				break
			}
			for i := range arr.Elems {
				arr.Elems[i] = s.d.Sym(fmt.Sprintf("E%d", i))
			}
			dest := absint.Ptr{Obj: s.in.NewObject("dest", p.Root.Members[t.entry].Type(), nil)}
			out := s.in.Run(f, []absint.Val{tbl, dest, absint.MkInt(int64(x))})
			g, _ := dest.Obj.Val.(*absint.GV)
			if out.Kind != absint.ExitReturn || g == nil || !g.Equal(s.d.Sym(fmt.Sprintf("E%d", x/2))) {
				o.OK = false
				o.Detail = fmt.Sprintf("for odd digit %d the selected entry is %v, expected entry %d %s%s", x, dest.Obj.Val, x/2, out.Undecided, out.PanicMsg)
			}
		}
		if o.OK {
			o.Detail = fmt.Sprintf("for every odd digit 1…%d (exhaustive) the result is entry ⌊x/2⌋, i.e. x·Q given the table contents", 2*t.n-1)
		}
		c.Set.Add(o)
	}
}

// ruleRadix16: the signed radix-16 recoding satisfies Σ d_i·16^i = Σ b_j·256^j with every digit in [−8,8].
func (c *Ctx) ruleRadix16(cfg string) {
	p := c.Prog(cfg)
	if p == nil {
		return
	}
	fname := "(*Scalar).signedRadix16"
	o := report.Obligation{Rule: "RECODE", Key: "RECODE/" + fname, Config: cfg}
	f := c.anchor(p, fname)
	if f == nil {
		c.Set.Add(o)
		return
	}
	o.Pos = p.Rel(f.Pos())
	d := absint.NewLimbDom(p, true)
	d.Prims = map[string]func(*absint.Interp, ssa.Instruction, []absint.Val) []absint.Val{}
	d.Prims["(*Scalar).Bytes"] = func(in *absint.Interp, site ssa.Instruction, args []absint.Val) []absint.Val {
		arr := &absint.Agg{Elems: make([]absint.Val, 32)}
		for i := range arr.Elems {
			hi := int64(255)
			if i == 31 {
				hi = 16 // every Scalar is < l < 2^253 (fiat post-condition): the top byte is at most 0x10
			}
			arr.Elems[i] = d.Sym(fmt.Sprintf("b%d", i), big.NewInt(0), big.NewInt(hi))
		}
		obj := in.NewObject("Bytes()", types.NewArray(types.Typ[types.Uint8], 32), arr)
		return []absint.Val{absint.SliceV{Obj: obj, Len: 32, Cap: 32}}
	}
	d.Prims["(*Scalar).bytes"] = func(in *absint.Interp, site ssa.Instruction, args []absint.Val) []absint.Val {
		arr := &absint.Agg{Elems: make([]absint.Val, 32)}
		for i := range arr.Elems {
			hi := int64(255)
			if i == 31 {
				hi = 16
			}
			arr.Elems[i] = d.Sym(fmt.Sprintf("b%d", i), big.NewInt(0), big.NewInt(hi))
		}
		in.Store(site, args[1], arr)
		pr, _ := args[1].(absint.Ptr)
		return []absint.Val{absint.SliceV{Obj: pr.Obj, Path: pr.Path, Len: 32, Cap: 32}}
	}
	in := absint.New(p, d)
	sc := absint.Ptr{Obj: in.NewObject("s", p.Root.Members["Scalar"].Type(), nil)}
	callArgs := []absint.Val{sc}
	var outArr *absint.Object
	if len(f.Params) == 2 {
		// the digits are delivered through an out-parameter (*[64]int8) instead of being returned
		if pt, ok := f.Params[1].Type().Underlying().(*types.Pointer); ok {
			outArr = in.NewObject("digits", pt.Elem(), nil)
			callArgs = append(callArgs, absint.Ptr{Obj: outArr})
		}
	}
	out := in.Run(f, callArgs)
	if out.Kind != absint.ExitReturn {
		o.Detail = out.Undecided + out.PanicMsg
		c.Set.Add(o)
		return
	}
	var digits *absint.Agg
	if outArr != nil {
		digits, _ = outArr.Val.(*absint.Agg)
	} else if len(out.Results) > 0 {
		digits, _ = out.Results[0].(*absint.Agg)
	}
	if digits == nil || len(digits.Elems) != 64 {
		o.Detail = "result is not [64]int8"
		c.Set.Add(o)
		return
	}
	sum := d.R.Int(0)
	rangeOK := true
	worst := ""
	for i, e := range digits.Elems {
		lo, hi, ok := valBounds(e)
		pp := valPoly(d, e)
		if !ok || pp == nil {
			o.Detail = fmt.Sprintf("digit %d has no polynomial form / bounds (%v)", i, e)
			c.Set.Add(o)
			return
		}
		if lo.Cmp(big.NewInt(-8)) < 0 || hi.Cmp(big.NewInt(8)) > 0 {
			rangeOK = false
			worst = fmt.Sprintf("digit %d ranges over [%s,%s]", i, lo, hi)
		}
		sum = sum.Add(pp.Scale(new(big.Int).Lsh(big.NewInt(1), uint(4*i))))
	}
	want := d.R.Int(0)
	for j := 0; j < 32; j++ {
		want = want.Add(d.R.Var(fmt.Sprintf("b%d", j)).Scale(new(big.Int).Lsh(big.NewInt(1), uint(8*j))))
	}
	bad := 0
	for _, ob := range in.Obls {
		if !ob.OK {
			bad++
			if worst == "" {
				worst = ob.Kind + " at " + ob.Pos + ": " + ob.Detail
			}
		}
	}
	same := sum.Equal(want)
	o.OK = same && rangeOK && bad == 0
	o.Detail = fmt.Sprintf("Σ d_i·16^i = Σ b_j·256^j as a polynomial identity (nibble and carry symbols cancel), every digit ∈ [−8,8] (centred-remainder lemma d − 16·⌊(d+8)/16⌋ ∈ [−8,7]; top digit ≤ 2 because the top byte is ≤ 0x10), %d int8 machine obligations discharged", len(in.Obls))
	if !o.OK {
		o.Detail = fmt.Sprintf("recoding: sum identity %v, digit range %v, failing machine obligations %d; %s", same, rangeOK, bad, worst)
	}
	c.Set.Add(o)
}

// nafSum is Σ name.n_i · 2^i.
func nafSum(d *absint.GroupDom, name string) *poly.Poly {
	s := d.R.Int(0)
	for i := 0; i < 256; i++ {
		s = s.Add(d.R.Var(fmt.Sprintf("%s.n%d", name, i)).Scale(new(big.Int).Lsh(big.NewInt(1), uint(i))))
	}
	return s
}

// ruleVarTimeLoops: the two variable-time drivers, with the data-dependent
// branches on NAF digits joined (not enumerated), compute Σ_j [Σ_i n_{j,i}·2^i]·P_j.
func (c *Ctx) ruleVarTimeLoops(cfg string) {
	p := c.Prog(cfg)
	if p == nil {
		return
	}
	emit := func(key, fname string, ok bool, good, bad string) {
		o := report.Obligation{Rule: "GROUP", Key: key, Config: cfg, OK: ok, Detail: good}
		if f := p.ByName[fname]; f != nil {
			o.Pos = p.Rel(f.Pos())
		}
		if !ok {
			o.Detail = bad
		}
		c.Set.Add(o)
	}
	msg := func(out absint.Outcome) string {
		if out.Kind == absint.ExitPanic {
			return "abstract execution panics: " + out.PanicMsg
		}
		return out.Undecided
	}
	// VarTimeDoubleScalarBaseMult
	for _, al := range []string{"fresh receiver", "used receiver", "v=A"} {
		fname := "(*Point).VarTimeDoubleScalarBaseMult"
		f := c.anchor(p, fname)
		if f == nil {
			break
		}
		s := c.newGroup(cfg)
		A := s.point("A", s.d.Sym("A"))
		v := s.point("v", &absint.GV{Invalid: true})
		switch al {
		case "used receiver":
			v = s.point("v", s.d.Sym("OLD"))
		case "v=A":
			v = A
		}
		out := s.in.Run(f, []absint.Val{v, s.scalar("a"), A, s.scalar("b")})
		key := "GROUP/" + fname + "[" + al + "]"
		if out.Kind != absint.ExitReturn {
			emit(key, fname, false, "", msg(out))
			continue
		}
		got, _ := v.Obj.Val.(*absint.GV)
		want := &absint.GV{Terms: map[string]*poly.Poly{"A": nafSum(s.d, "a"), "B": nafSum(s.d, "b")}}
		emit(key, fname, got != nil && got.Equal(want), fmt.Sprintf("with the %d data-dependent digit branches joined (both sides of each agree, the skipped case being the digit-0 specialisation), the 256-step loop leaves the receiver at [Σ a_i·2^i]·A + [Σ b_i·2^i]·B for width-5/width-8 NAF digits a_i, b_i", s.in.Merges), fmt.Sprintf("VarTimeDoubleScalarBaseMult (%s) yields %v", al, got))
	}
	// VarTimeMultiScalarMult, n = 0..2
	{
		fname := "(*Point).VarTimeMultiScalarMult"
		f := c.anchor(p, fname)
		pt := p.Root.Members["Point"].Type()
		st := p.Root.Members["Scalar"].Type()
		bound := 2
		if f != nil {
			base := 2
			if c.Tier == "thorough" {
				base = 4
			}
			b, detail, ok := c.termBound(p, f, base)
			bound = b
			c.Set.Add(report.Obligation{Rule: "N-UNIFORM", Key: "N-UNIFORM/" + fname, Config: cfg, Pos: p.Rel(f.Pos()), OK: ok, Detail: detail})
		}
		for n := 0; f != nil && n <= bound; n++ {
			variants := []string{"fresh receiver", "used receiver"}
			for j := 0; j < n; j++ {
				variants = append(variants, fmt.Sprintf("v=points[%d]", j))
			}
			for _, al := range variants {
				s := c.newGroup(cfg)
				var pts, scs []absint.Ptr
				want := &absint.GV{Terms: map[string]*poly.Poly{}}
				for j := 0; j < n; j++ {
					pts = append(pts, s.point(fmt.Sprintf("p%d", j), s.d.Sym(fmt.Sprintf("P%d", j))))
					scs = append(scs, s.scalar(fmt.Sprintf("k%d", j)))
					want.Terms[fmt.Sprintf("P%d", j)] = nafSum(s.d, fmt.Sprintf("k%d", j))
				}
				v := s.point("v", &absint.GV{Invalid: true})
				if al == "used receiver" {
					v = s.point("v", s.d.Sym("OLD"))
				} else if strings.HasPrefix(al, "v=points[") {
					var j int
					fmt.Sscanf(al, "v=points[%d]", &j)
					v = pts[j]
				}
				var ps, ss absint.Val = s.ptrSlice(pt, pts), s.ptrSlice(st, scs)
				if n == 0 {
					ps, ss = absint.Nil{}, absint.Nil{}
				}
				out := s.in.Run(f, []absint.Val{v, ss, ps})
				key := fmt.Sprintf("GROUP/%s[n=%d,%s]", fname, n, al)
				if out.Kind != absint.ExitReturn {
					emit(key, fname, false, "", msg(out))
					continue
				}
				got, _ := v.Obj.Val.(*absint.GV)
				emit(key, fname, got != nil && got.Equal(want), fmt.Sprintf("with %d terms and %d joined digit branches the receiver ends at Σ_j [Σ_i n_{j,i}·2^i]·P_j (the identity for n=0)", n, s.in.Merges), fmt.Sprintf("VarTimeMultiScalarMult (n=%d, %s) yields %v, expected %v", n, al, got, want))
			}
		}
	}
}

// tableEntries: the entry array of a lookup table object, whether the table type is the array itself
// (type T [8]entry) or a struct holding it (type T struct{ points [8]entry }).
func tableEntries(tbl absint.Ptr) *absint.Agg {
	top, ok := tbl.Obj.Val.(*absint.Agg)
	if !ok {
		return nil
	}
	switch tbl.Obj.Type.Underlying().(type) {
	case *types.Array:
		return top
	case *types.Struct:
		st := tbl.Obj.Type.Underlying().(*types.Struct)
		for i := 0; i < st.NumFields() && i < len(top.Elems); i++ {
			if _, isArr := st.Field(i).Type().Underlying().(*types.Array); isArr {
				a, _ := top.Elems[i].(*absint.Agg)
				return a
			}
		}
	}
	return nil
}
