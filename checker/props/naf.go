package props

import (
	"fmt"
	"go/constant"
	"go/types"
	"math/big"
	"sort"

	"golang.org/x/tools/go/ssa"

	"verif/checker/absint"
	"verif/checker/load"
	"verif/checker/report"
)

// ruleNAF decides the width-w non-adjacent-form recoding used by the two
// variable-time drivers: Σ n_i·2^i = k, every non-zero digit odd with
// |n_i| < 2^(w−1), for every scalar k < 2^253 and every width the drivers pass.
//
// The recoding loop advances a position that depends on the data, so it is
// neither unrolled along one path nor merged at its branches. It is checked
// inductively instead. State at the loop header is partitioned by the values of
// the header's phis (position, carry: all concrete); from every reachable
// partition one iteration is interpreted in the bit-provenance domain with the
// scalar's bits symbolic; the bits the iteration actually inspects are
// enumerated exhaustively (declared two-way forks). With S = Σ_{i<pos} n_i·2^i
// the invariant is
//
//	S = (k mod 2^pos) − carry·2^pos
//
// which holds trivially at first arrival (pos = 0, carry = 0, all digits 0) and
// gives S = k at every exit with carry = 0 and no set bit at or above pos.
// Per iteration (pos,c) → (pos',c') with digit writes W the obligations are:
// pos' > pos; every write lands in the result array at an index in [pos,pos');
// Σ_W d·2^(i−pos) = v + c − c'·2^(pos'−pos) where v are the bits
// [pos,pos') of k, all of which the iteration must have inspected; every
// written digit is odd and |d| < 2^(w−1).
func (c *Ctx) ruleNAF(cfg string) {
	p := c.Prog(cfg)
	if p == nil {
		return
	}
	fname := "(*Scalar).nonAdjacentForm"
	f := c.anchor(p, fname)
	if f == nil {
		c.Set.Add(report.Obligation{Rule: "NAF", Key: "NAF/" + fname, Config: cfg})
		return
	}
	widths, tablesOK := c.nafWidths(p, cfg, f)
	if len(widths) == 0 {
		c.Set.Add(report.Obligation{Rule: "NAF", Key: "NAF/" + fname, Config: cfg, Pos: p.Rel(f.Pos()), Detail: "no call of the recoding with a constant width found"})
		return
	}
	_ = tablesOK
	for _, w := range widths {
		o := report.Obligation{Rule: "NAF", Key: fmt.Sprintf("NAF/%s[w=%d]", fname, w), Config: cfg, Pos: p.Rel(f.Pos())}
		ok, detail := c.nafCheck(p, f, w)
		o.OK, o.Detail = ok, detail
		c.Set.Add(o)
	}
}

// nafWidths collects the constant widths at the call sites of the recoding
// (one NAF-WIDTH obligation per call site: the width is a constant in 2…8).
// That the digits of each width only index tables with at least 2^(w−2)
// entries is checked where the digits are used: in the group-expression run of
// the variable-time drivers (GROUP obligations), which follows the digits
// through helpers.
func (c *Ctx) nafWidths(p *load.Program, cfg string, naf *ssa.Function) ([]int, bool) {
	set := map[int]bool{}
	all := true
	for _, fn := range p.Funcs {
		n := 0
		for _, b := range fn.Blocks {
			for _, ins := range b.Instrs {
				call, ok := ins.(*ssa.Call)
				if !ok {
					continue
				}
				callee, _ := load.StaticCallee(call)
				if callee != naf {
					continue
				}
				args := call.Call.Args
				o := report.Obligation{Rule: "NAF-WIDTH", Key: fmt.Sprintf("NAF-WIDTH/%s/call#%d", load.ShortName(fn), n), Config: cfg, Pos: p.Rel(call.Pos())}
				n++
				// the width is a literal here, or a parameter that every caller of this (unexported) function binds to a literal
				ws, isConst := constArgValues(p, fn, args[len(args)-1], 0)
				if !isConst || len(ws) == 0 {
					o.Detail = "the recoding width is not a constant at this call: the digit range, and with it the table index, is not decided"
					c.Set.Add(o)
					all = false
					continue
				}
				bad := false
				for _, w64 := range ws {
					if w64 < 2 || w64 > 8 {
						o.Detail = fmt.Sprintf("width %d is outside 2…8", w64)
						bad = true
					}
				}
				if bad {
					c.Set.Add(o)
					all = false
					continue
				}
				o.OK = true
				for _, w64 := range ws {
					w := int(w64)
					set[w] = true
					o.Detail += fmt.Sprintf("constant width %d: digits are odd with |d| ≤ %d (NAF obligations); every table they index has at least %d entries (checked at each selector call in the GROUP runs). ", w, (1<<uint(w-1))-1, 1<<uint(w-2))
				}
				c.Set.Add(o)
			}
		}
	}
	var ws []int
	for w := range set {
		ws = append(ws, w)
	}
	sort.Ints(ws)
	return ws, all
}

// nafLoopHeader picks the loop of f that writes int8 digits: the header is a
// block with a predecessor it dominates, and some block between them stores an int8.
func nafLoopHeader(f *ssa.Function) (*ssa.BasicBlock, string) {
	var found []*ssa.BasicBlock
	for _, h := range f.Blocks {
		isHeader := false
		for _, pr := range h.Preds {
			if h.Dominates(pr) {
				isHeader = true
			}
		}
		if !isHeader {
			continue
		}
		// natural loop body: blocks dominated by h that reach a back edge; approximation: all blocks dominated by h
		stores := false
		for _, b := range f.Blocks {
			if !h.Dominates(b) {
				continue
			}
			// b must be able to reach h again (inside the loop)
			if !reaches(b, h) {
				continue
			}
			for _, ins := range b.Instrs {
				if st, ok := ins.(*ssa.Store); ok {
					if bt, ok := st.Val.Type().Underlying().(*types.Basic); ok && bt.Kind() == types.Int8 {
						stores = true
					}
				}
			}
		}
		if stores {
			found = append(found, h)
		}
	}
	if len(found) != 1 {
		return nil, fmt.Sprintf("expected exactly one loop that stores int8 digits, found %d", len(found))
	}
	return found[0], ""
}

func reaches(from, to *ssa.BasicBlock) bool {
	seen := map[*ssa.BasicBlock]bool{}
	var walk func(b *ssa.BasicBlock) bool
	walk = func(b *ssa.BasicBlock) bool {
		for _, s := range b.Succs {
			if s == to {
				return true
			}
			if !seen[s] {
				seen[s] = true
				if walk(s) {
					return true
				}
			}
		}
		return false
	}
	return walk(from)
}

const nafScalarBits = 253 // every Scalar is < l < 2^253

func (c *Ctx) nafCheck(p *load.Program, f *ssa.Function, w int) (bool, string) {
	header, why := nafLoopHeader(f)
	if header == nil {
		return false, "UNDECIDED: " + why
	}
	d := absint.NewBitDom(p)
	d.Enum = true
	mkBytes := func() *absint.Agg {
		arr := &absint.Agg{Elems: make([]absint.Val, 32)}
		for i := range arr.Elems {
			n := 8
			if 8*i+8 > nafScalarBits {
				n = nafScalarBits - 8*i
				if n < 0 {
					n = 0
				}
			}
			bv := absint.BVSymPadded("k", 8*i, n, 8)
			arr.Elems[i] = bv
		}
		return arr
	}
	d.Prims["(*Scalar).Bytes"] = func(in *absint.Interp, site ssa.Instruction, args []absint.Val) []absint.Val {
		obj := in.NewObject("Bytes()", types.NewArray(types.Typ[types.Uint8], 32), mkBytes())
		return []absint.Val{absint.SliceV{Obj: obj, Len: 32, Cap: 32}}
	}
	d.Prims["(*Scalar).bytes"] = func(in *absint.Interp, site ssa.Instruction, args []absint.Val) []absint.Val {
		in.Store(site, args[1], mkBytes())
		pr, _ := args[1].(absint.Ptr)
		return []absint.Val{absint.SliceV{Obj: pr.Obj, Path: pr.Path, Len: 32, Cap: 32}}
	}
	in := absint.New(p, d)
	sc := absint.Ptr{Obj: in.NewObject("s", p.Root.Members["Scalar"].Type(), nil)}
	// the scalar's integer value taken as four words straight from the Montgomery form of the scalar itself (what Bytes
	// serialises: FIAT-CONG / C08): the same 253 bits, 64 to a word
	d.Prims["fiatScalarFromMontgomery"] = func(in *absint.Interp, site ssa.Instruction, args []absint.Val) []absint.Val {
		src, ok := args[1].(absint.Ptr)
		if !ok || src.Obj != sc.Obj {
			in.Undecided(site, "fiatScalarFromMontgomery of something other than the scalar being recoded")
		}
		arr := &absint.Agg{Elems: make([]absint.Val, 4)}
		for i := range arr.Elems {
			n := 64
			if 64*i+64 > nafScalarBits {
				n = nafScalarBits - 64*i
			}
			arr.Elems[i] = absint.BVSymPadded("k", 64*i, n, 64)
		}
		in.Store(site, args[0], arr)
		return nil
	}
	ls, first, out := in.RunToHeader(f, []absint.Val{sc, absint.MkInt(int64(w))}, header)
	if out.Kind != absint.ExitReturn {
		return false, "before the loop: " + out.Undecided + out.PanicMsg
	}
	if len(out.Trace) != 0 {
		return false, "UNDECIDED: the code before the loop branches on scalar bits"
	}
	type key struct{ s string }
	keyOf := func(m map[*ssa.Phi]absint.Val) (string, []int64, bool) {
		var vals []int64
		s := ""
		for _, ph := range ls.Phis {
			iv, ok := m[ph].(absint.Int)
			if !ok || !iv.V.IsInt64() {
				return "", nil, false
			}
			vals = append(vals, iv.V.Int64())
			s += fmt.Sprintf("%d,", iv.V.Int64())
		}
		return s, vals, true
	}
	// which phi is the position, which the carry: the position is the one that is 0 first and strictly grows;
	// identified structurally as the phi compared in the header's exit condition.
	posIdx, carryIdx := -1, -1
	if len(ls.Phis) != 2 {
		return false, fmt.Sprintf("UNDECIDED: the recoding loop carries %d variables; the invariant is stated for (position, carry)", len(ls.Phis))
	}
	for i, ph := range ls.Phis {
		for _, ref := range *ph.Referrers() {
			if bo, ok := ref.(*ssa.BinOp); ok && bo.Block() == header {
				for _, r2 := range *bo.Referrers() {
					if _, ok := r2.(*ssa.If); ok {
						posIdx = i
					}
				}
			}
		}
	}
	if posIdx < 0 {
		return false, "UNDECIDED: no loop variable is tested by the loop condition"
	}
	carryIdx = 1 - posIdx
	k0, v0, ok := keyOf(first)
	if !ok || v0[posIdx] != 0 || v0[carryIdx] != 0 {
		return false, fmt.Sprintf("the loop is entered with (position, carry) = %v, expected (0, 0)", first)
	}
	// the result array: all zero at first arrival; found as the object the iterations write
	type pend struct {
		key  string
		vals []int64
	}
	work := []pend{{k0, v0}}
	seen := map[string]bool{k0: true}
	var resObj *absint.Object
	steps, partitions, exits := 0, 0, 0
	var exitKeys [][]int64
	maxDigit := int64(0)
	limit := int64(1) << uint(w-1)
	for len(work) > 0 {
		cur := work[len(work)-1]
		work = work[:len(work)-1]
		partitions++
		pos, carry := cur.vals[posIdx], cur.vals[carryIdx]
		phi := map[*ssa.Phi]absint.Val{}
		for i, ph := range ls.Phis {
			phi[ph] = absint.MkInt(cur.vals[i])
		}
		var fail string
		setFail := func(format string, a ...interface{}) {
			if fail == "" {
				fail = fmt.Sprintf(format, a...)
			}
		}
		outs, err := absint.Explore(1<<12, func(dec []bool) absint.Outcome {
			in.Decisions, in.Trace, in.PathCond = dec, nil, nil
			d.ResetAssignment(in)
			return ls.Step(phi, func(r *absint.StepResult) {
				steps++
				asg := d.Assignment(in)
				bit := func(i int64) (int64, bool) {
					if i >= nafScalarBits {
						return 0, true
					}
					b, ok := asg[fmt.Sprintf("k:%d", i)]
					return int64(b), ok
				}
				if r.Exit {
					exits++
					if carry != 0 {
						setFail("the loop exits at position %d with carry %d pending: Σ n_i·2^i = k − %d·2^%d", pos, carry, carry, pos)
						return
					}
					if pos < nafScalarBits {
						setFail("the loop exits at position %d: bits %d…%d of the scalar are never recoded", pos, pos, nafScalarBits-1)
						return
					}
					exitKeys = append(exitKeys, cur.vals)
					return
				}
				nk, nv, ok := keyOf(r.Next)
				if !ok {
					setFail("from (position %d, carry %d) the next loop state is not concrete: %v", pos, carry, r.Next)
					return
				}
				npos, ncarry := nv[posIdx], nv[carryIdx]
				if npos <= pos || npos-pos > 62 {
					setFail("from position %d the loop moves to position %d (no progress / too far)", pos, npos)
					return
				}
				delta := uint(npos - pos)
				sum := new(big.Int)
				for _, wr := range r.Writes {
					if wr.Obj.ID >= r.FirstNewObj {
						continue // scratch allocated by this very iteration: it cannot carry state to the next one
					}
					if resObj == nil {
						if a, isArr := wr.Obj.Type.Underlying().(*types.Array); isArr && a.Len() == 256 {
							resObj = wr.Obj
						}
					}
					if wr.Obj != resObj || len(wr.Path) != 1 {
						setFail("UNDECIDED: iteration at position %d writes %s%v, memory that outlives the iteration and is not the digit array (loop state outside the header's variables)", pos, wr.Obj.Name, wr.Path)
						return
					}
					idx := int64(wr.Path[0])
					if idx < pos || idx >= npos {
						setFail("iteration (position %d → %d) writes digit index %d outside [%d,%d)", pos, npos, idx, pos, npos)
						return
					}
					dv := d.Concretise(in, wr.Val, types.Typ[types.Int8], nil)
					dd := dv.V.Int64()
					if dd%2 == 0 || dd <= -limit || dd >= limit {
						setFail("digit %d written at index %d (position %d, carry %d) is not odd with |d| < %d", dd, idx, pos, carry, limit)
						return
					}
					if a := abs64(dd); a > maxDigit {
						maxDigit = a
					}
					sum.Add(sum, new(big.Int).Lsh(big.NewInt(dd), uint(idx-pos)))
				}
				// v = bits [pos, npos) of k; all must have been inspected
				v := new(big.Int)
				for j := int64(0); j < int64(delta); j++ {
					b, ok := bit(pos + j)
					if !ok {
						setFail("iteration (position %d → %d, carry %d → %d) never inspects bit %d of the scalar, so its digits cannot account for it", pos, npos, carry, ncarry, pos+j)
						return
					}
					if b == 1 {
						v.SetBit(v, int(j), 1)
					}
				}
				want := new(big.Int).Add(v, big.NewInt(carry))
				want.Sub(want, new(big.Int).Lsh(big.NewInt(ncarry), delta))
				if sum.Cmp(want) != 0 {
					setFail("iteration (position %d → %d, carry %d → %d) with scalar bits %s writes digits worth %s·2^%d; the invariant S = (k mod 2^pos) − carry·2^pos needs %s·2^%d", pos, npos, carry, ncarry, v.Text(2), sum, pos, want, pos)
					return
				}
				if !seen[nk] {
					seen[nk] = true
					work = append(work, pend{nk, nv})
				}
			})
		})
		if err != nil {
			return false, "UNDECIDED: " + err.Error()
		}
		for _, o := range outs {
			if o.Kind != absint.ExitReturn {
				return false, fmt.Sprintf("iteration at (position %d, carry %d): %s%s", pos, carry, o.Undecided, o.PanicMsg)
			}
		}
		if fail != "" {
			return false, fail
		}
	}
	if resObj == nil || exits == 0 {
		return false, "UNDECIDED: no iteration writes a digit / the loop never exits"
	}
	// every exit returns the digit array as the loop left it: with the array set to distinct sentinels,
	// one more step from each exiting partition must hand back exactly those sentinels
	if arr0, ok := resObj.Val.(*absint.Agg); ok && len(arr0.Elems) == 256 {
		saved := arr0.Elems
		sent := make([]absint.Val, 256)
		for i := range sent {
			sent[i] = absint.MkInt(int64(i%100 + 1))
		}
		for _, vals := range exitKeys {
			resObj.Val = &absint.Agg{Elems: append([]absint.Val{}, sent...)}
			phi := map[*ssa.Phi]absint.Val{}
			for i, ph := range ls.Phis {
				phi[ph] = absint.MkInt(vals[i])
			}
			bad := ""
			in.Decisions, in.Trace, in.PathCond = nil, nil, nil
			d.ResetAssignment(in)
			o := ls.Step(phi, func(r *absint.StepResult) {
				if !r.Exit || len(r.Ret) != 1 {
					bad = "the exit is not reproducible"
					return
				}
				got, _ := r.Ret[0].(*absint.Agg)
				if got == nil || len(got.Elems) != 256 {
					bad = "the returned value is not the 256-entry digit array"
					return
				}
				for i, e := range got.Elems {
					iv, ok := e.(absint.Int)
					if !ok || iv.V.Int64() != int64(i%100+1) {
						bad = fmt.Sprintf("entry %d of the returned array is not entry %d of the digit array the loop wrote", i, i)
						return
					}
				}
			})
			resObj.Val = &absint.Agg{Elems: saved}
			if o.Kind != absint.ExitReturn {
				bad = o.Undecided + o.PanicMsg
			}
			if bad != "" {
				return false, fmt.Sprintf("exit from (position, carry) = %v: %s", vals, bad)
			}
		}
	}
	// digits start at zero
	arr, _ := resObj.Val.(*absint.Agg)
	if arr == nil || len(arr.Elems) != 256 {
		return false, "the digit array does not have 256 entries"
	}
	for i, e := range arr.Elems {
		iv, ok := e.(absint.Int)
		if !ok || iv.V.Sign() != 0 {
			return false, fmt.Sprintf("digit %d is %v before the loop, expected 0", i, e)
		}
	}
	c.Samples = append(c.Samples, map[string]interface{}{"rule": "NAF", "width": w, "partitions": partitions, "iterations": steps, "max_digit": maxDigit})
	return true, fmt.Sprintf("width %d: from each of the %d reachable (position, carry) partitions one iteration was interpreted for every value of the scalar bits it inspects (%d iterations); each preserves S = (k mod 2^pos) − carry·2^pos, writes only odd digits |d| ≤ %d < 2^(w−1) inside [pos,pos'), and every exit has carry 0 at a position ≥ %d; hence Σ n_i·2^i = k for every k < 2^%d", w, partitions, steps, maxDigit, nafScalarBits, nafScalarBits)
}

func abs64(x int64) int64 {
	if x < 0 {
		return -x
	}
	return x
}

// constArgValues resolves an integer operand of fn to the set of constants it
// can hold: a literal, or a parameter of an unexported function all of whose
// call sites pass (recursively) such constants.
func constArgValues(p *load.Program, fn *ssa.Function, v ssa.Value, depth int) ([]int64, bool) {
	switch x := v.(type) {
	case *ssa.Const:
		if x.Value == nil || x.Value.Kind() != constant.Int {
			return nil, false
		}
		n, ok := constant.Int64Val(x.Value)
		return []int64{n}, ok
	case *ssa.Convert:
		return constArgValues(p, fn, x.X, depth)
	case *ssa.ChangeType:
		return constArgValues(p, fn, x.X, depth)
	case *ssa.Parameter:
		if depth > 4 || p.IsAPIRoot(fn) {
			return nil, false
		}
		idx := -1
		for i, q := range fn.Params {
			if q == x {
				idx = i
			}
		}
		if idx < 0 {
			return nil, false
		}
		seen := map[int64]bool{}
		var out []int64
		sites := 0
		for _, g := range p.Funcs {
			for _, b := range g.Blocks {
				for _, ins := range b.Instrs {
					call, ok := ins.(*ssa.Call)
					if !ok {
						continue
					}
					callee, _ := load.StaticCallee(call)
					if callee != fn {
						// the function used as a value (stored, passed on): callers unknown
						for _, op := range ins.Operands(nil) {
							if *op == ssa.Value(fn) {
								return nil, false
							}
						}
						continue
					}
					sites++
					args := load.Actuals(call)
					if idx >= len(args) {
						return nil, false
					}
					vs, ok := constArgValues(p, g, args[idx], depth+1)
					if !ok {
						return nil, false
					}
					for _, n := range vs {
						if !seen[n] {
							seen[n] = true
							out = append(out, n)
						}
					}
				}
			}
		}
		return out, sites > 0
	}
	return nil, false
}
