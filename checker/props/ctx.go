// Package props wires the engines to the properties C01–C20: one function per
// property builds its obligation set; frozen exception tables and floors live
// next to the rules they belong to.
package props

import (
	"fmt"
	"sort"
	"strings"

	"golang.org/x/tools/go/ssa"

	"verif/checker/absint"
	"verif/checker/effects"
	"verif/checker/guards"
	"verif/checker/load"
	"verif/checker/report"
	"verif/checker/taint"
)

type Ctx struct {
	Tier string
	// QuickArm64: include the arm64 configuration (fe_arm64.s) in the quick tier
	QuickArm64 bool
	progs      map[string]*load.Program
	eff        map[string]*effects.Analysis
	grd        map[string]*guards.Engine
	tnt        map[string]*taint.Engine
	Set        *report.Set
	loaded     []string
	Samples    []interface{}
	// limbPositional names abstract Element inputs by position (for sibling comparison)
	limbPositional bool
	limbInts       []int64 // concrete values for integer parameters (variant comparison)
	cglob          map[string]map[string]absint.Val
	pointOps       map[string]*absint.PointOp
	Extra          map[string]interface{}
}

func NewCtx(tier string) *Ctx {
	c := &Ctx{Tier: tier, progs: map[string]*load.Program{}, eff: map[string]*effects.Analysis{}, grd: map[string]*guards.Engine{},
		tnt: map[string]*taint.Engine{}, Set: &report.Set{}, Extra: map[string]interface{}{}}
	absint.PlainGlobalHook = func(p *load.Program, g *ssa.Global) (absint.Val, bool) {
		m := c.concreteGlobals(p.Config.Name)
		if m == nil {
			return nil, false
		}
		key := g.Name()
		if g.Pkg == p.Field {
			key = "field." + key
		}
		v, ok := m[key]
		return v, ok && v != nil
	}
	absint.PointOpHook = func(p *load.Program, fn *ssa.Function) (*absint.PointOp, bool) {
		return c.recognisePointOp(p.Config.Name, fn)
	}
	return c
}

// Configs analysed per tier.
func (c *Ctx) Configs() []string {
	if c.Tier == "thorough" {
		return []string{"amd64", "purego", "arm64", "386"}
	}
	if c.QuickArm64 {
		// the properties that rest on the limb code analyse the arm64 assembly and the 32-bit-int configuration on
		// every change too (a mask written as cond<<63>>63 is right wherever int has 64 bits and always 0 on 386)
		return []string{"amd64", "purego", "arm64", "386"}
	}
	return []string{"amd64", "purego"}
}

func (c *Ctx) Prog(cfg string) *load.Program {
	if p, ok := c.progs[cfg]; ok {
		return p
	}
	p, err := load.Load(cfg)
	if err != nil {
		c.Set.Problem("LOAD %s: %v", cfg, err)
		c.progs[cfg] = nil
		return nil
	}
	for _, pr := range p.Problems {
		c.Set.Problem("[%s] %s", cfg, pr)
	}
	for _, n := range p.Notes {
		c.Set.Note("[%s] %s", cfg, n)
	}
	c.progs[cfg] = p
	c.loaded = append(c.loaded, cfg)
	return p
}

func (c *Ctx) Eff(cfg string) *effects.Analysis {
	if a, ok := c.eff[cfg]; ok {
		return a
	}
	p := c.Prog(cfg)
	if p == nil {
		c.eff[cfg] = nil
		return nil
	}
	a := effects.Run(p)
	// Swap(v,v) is decided by evaluation (ruleSelfSwap, part of C11); its helpers inherit no alias demand from it
	a.AliasByEvaluation = map[string]bool{"field.(*Element).Swap": true}
	c.eff[cfg] = a
	return a
}

// ScopeProblems adds the function-local problems (structural assertions,
// effect-analysis UNDECIDEDs) that can influence this property's obligations:
// those arising in a function that some function named by an obligation can
// reach. Whole-program problems always count.
func (c *Ctx) ScopeProblems() {
	for _, cfg := range c.loaded {
		p := c.progs[cfg]
		if p == nil {
			continue
		}
		var roots []*ssa.Function
		for _, o := range c.Set.Obls {
			if o.Config != cfg && !strings.HasPrefix(o.Config, cfg+"+") {
				continue
			}
			parts := strings.SplitN(o.Key, "/", 3)
			if len(parts) >= 2 {
				name := parts[1]
				if i := strings.Index(name, "["); i > 0 {
					name = name[:i]
				}
				if f := p.ByName[name]; f != nil {
					roots = append(roots, f)
				}
			}
		}
		reach := p.Reachable(roots)
		emit := func(f *ssa.Function, msg string) {
			if f == nil || reach[f] || len(roots) == 0 {
				c.Set.Problem("[%s] %s", cfg, msg)
			} else {
				c.Set.Note("[%s] not relevant to this property's obligations (arises in %s, which none of them reaches): %s", cfg, load.ShortName(f), msg)
			}
		}
		for _, fp := range p.FnProblems {
			emit(fp.Fn, fp.Msg)
		}
		if a := c.eff[cfg]; a != nil {
			for i, pr := range a.Problems {
				emit(a.ProblemFn[i], pr)
			}
		}
	}
}

func (c *Ctx) Guards(cfg string) *guards.Engine {
	if g, ok := c.grd[cfg]; ok {
		return g
	}
	a := c.Eff(cfg)
	if a == nil {
		return nil
	}
	g := guards.New(a)
	for _, pr := range g.Problems {
		c.Set.Problem("[%s] %s", cfg, pr)
	}
	c.grd[cfg] = g
	return g
}

func (c *Ctx) Taint(cfg string) *taint.Engine {
	if t, ok := c.tnt[cfg]; ok {
		return t
	}
	a := c.Eff(cfg)
	if a == nil {
		return nil
	}
	t := taint.New(a)
	for _, pr := range t.Problems {
		c.Set.Problem("[%s] %s", cfg, pr)
	}
	c.tnt[cfg] = t
	return t
}

// Inventory describes what was loaded, for the evidence file.
func (c *Ctx) Inventory() map[string]interface{} {
	inv := map[string]interface{}{}
	for _, cfg := range c.loaded {
		p := c.progs[cfg]
		if p == nil {
			continue
		}
		var files []string
		for _, f := range p.Files {
			files = append(files, p.RelFile(f))
		}
		m := map[string]interface{}{"packages": len(p.Pkgs), "files": files, "functions": len(p.Funcs), "ssa_instructions": p.NInstr, "api_roots": len(p.APIRoots())}
		if a := c.eff[cfg]; a != nil {
			m["effects"] = a.Stats()
		}
		var asmf []string
		for f, s := range p.Asm {
			asmf = append(asmf, fmt.Sprintf("%s(%d instructions)", load.ShortName(f), len(s.Func.Insts)))
		}
		sort.Strings(asmf)
		m["asm_bodies"] = asmf
		inv[cfg] = m
	}
	return inv
}

// anchor resolves a function by construct name or records a problem.
func (c *Ctx) anchor(p *load.Program, name string) *ssa.Function {
	f := p.ByName[name]
	if f == nil {
		c.Set.Problem("[%s] ANCHOR %s not found in the loaded program", p.Config.Name, name)
	}
	return f
}

func keep(obls []report.Obligation, pred func(report.Obligation) bool) []report.Obligation {
	var out []report.Obligation
	for _, o := range obls {
		if pred(o) {
			out = append(out, o)
		}
	}
	return out
}

func keyHasFunc(o report.Obligation, names map[string]bool) bool {
	parts := strings.SplitN(o.Key, "/", 3)
	return len(parts) >= 2 && names[parts[1]]
}

// reachableNames: construct names of the functions reachable from the named roots.
func reachableNames(p *load.Program, roots []string) map[string]bool {
	var fs []*ssa.Function
	for _, r := range roots {
		if f := p.ByName[r]; f != nil {
			fs = append(fs, f)
		}
	}
	out := map[string]bool{}
	for f := range p.Reachable(fs) {
		out[load.ShortName(f)] = true
	}
	return out
}
