package props

import (
	"fmt"
	"math/big"

	"verif/checker/absint"
	"verif/checker/report"
)

// ruleExponent: fn(x) = x^want by exponent arithmetic over its addition chain.
func (c *Ctx) ruleExponent(cfg, fname, typePkg, typeName string, want *big.Int, wantDesc string) {
	p := c.Prog(cfg)
	if p == nil {
		return
	}
	o := report.Obligation{Rule: "E7-EXP", Key: "E7-EXP/" + fname, Config: cfg}
	f := p.ByName[fname]
	if f == nil {
		o.Detail = "ANCHOR " + fname + " not found"
		c.Set.Add(o)
		return
	}
	o.Pos = p.Rel(f.Pos())
	d := absint.NewExpoDom()
	d.Descend[fname] = true
	d.Descend["(*Scalar).pow2k"] = true
	in := absint.New(p, d)
	pkg := p.Field
	if typePkg == "root" {
		pkg = p.Root
	}
	t := pkg.Members[typeName].Type()
	x := absint.Ptr{Obj: in.NewObject("x", t, absint.MonoVar("x"))}
	v := absint.Ptr{Obj: in.NewObject("v", t, absint.MonoVar("old"))}
	out := in.Run(f, []absint.Val{v, x})
	if out.Kind != absint.ExitReturn {
		o.Detail = out.Undecided + out.PanicMsg
		c.Set.Add(o)
		return
	}
	m, _ := v.Obj.Val.(*absint.Mono)
	if m == nil || len(m.Exp) != 1 || m.Exp["x"] == nil {
		o.Detail = fmt.Sprintf("result is %v, not a power of the argument alone", v.Obj.Val)
		c.Set.Add(o)
		return
	}
	o.OK = m.Exp["x"].Cmp(want) == 0
	o.Detail = fmt.Sprintf("%s(x) = x^(%s): exponent arithmetic over the whole addition chain (%d interpreter steps) gives exactly %s", fname, wantDesc, in.Steps, want)
	if !o.OK {
		diff := new(big.Int).Sub(m.Exp["x"], want)
		o.Detail = fmt.Sprintf("%s(x) = x^e with e = %s, expected %s = %s (difference %s)", fname, m.Exp["x"], wantDesc, want, diff)
	}
	if pr, ok := out.Results[0].(absint.Ptr); !ok || pr.Obj != v.Obj {
		o.OK = false
		o.Detail += "; does not return the receiver"
	}
	c.Set.Add(o)
}

func (c *Ctx) ruleFieldExponents(cfg string) {
	pm2 := new(big.Int).Sub(absint.P25519, big.NewInt(2))
	p58 := new(big.Int).Sub(absint.P25519, big.NewInt(5))
	p58.Rsh(p58, 3)
	c.ruleExponent(cfg, "field.(*Element).Invert", "field", "Element", pm2, "p−2")
	c.ruleExponent(cfg, "field.(*Element).Pow22523", "field", "Element", p58, "(p−5)/8 = 2^252−3")
}

// L25519 is the group order l.
func L25519() *big.Int {
	l, _ := new(big.Int).SetString("27742317777372353535851937790883648493", 10)
	return l.Add(l, new(big.Int).Lsh(big.NewInt(1), 252))
}

func (c *Ctx) ruleScalarInvertExponent(cfg string) {
	c.ruleExponent(cfg, "(*Scalar).Invert", "root", "Scalar", new(big.Int).Sub(L25519(), big.NewInt(2)), "l−2")
}
