package props

import (
	"fmt"
	"go/types"

	"verif/checker/absint"
	"verif/checker/report"
)

// ruleLengthSweep: for every length 0..maxLen other than want, the setter
// returns (nil, error) — it neither panics nor looks at the data.
func (c *Ctx) ruleLengthSweep(cfg, fname string, want, maxLen int) {
	p := c.Prog(cfg)
	if p == nil {
		return
	}
	o := report.Obligation{Rule: "LEN-SWEEP", Key: "LEN-SWEEP/" + fname, Config: cfg}
	f := p.ByName[fname]
	if f == nil {
		o.Detail = "ANCHOR " + fname + " not found"
		c.Set.Add(o)
		return
	}
	o.Pos = p.Rel(f.Pos())
	o.OK = true
	n := 0
	for ln := -1; ln <= maxLen; ln++ {
		if ln == want {
			continue
		}
		in := absint.New(p, absint.OpaqueDom{})
		recvT := f.Params[0].Type().(*types.Pointer).Elem()
		recv := absint.Ptr{Obj: in.NewObject("recv", recvT, nil)}
		before := fmt.Sprint(recv.Obj.Val)
		var x absint.Val = absint.Nil{}
		if ln >= 0 {
			arr := &absint.Agg{Elems: make([]absint.Val, ln)}
			for i := range arr.Elems {
				arr.Elems[i] = absint.Opaque{Name: fmt.Sprintf("x[%d]", i)}
			}
			obj := in.NewObject("x", types.NewArray(types.Typ[types.Uint8], int64(ln)), arr)
			x = absint.SliceV{Obj: obj, Len: ln, Cap: ln}
		}
		out := in.Run(f, []absint.Val{recv, x})
		n++
		what := fmt.Sprintf("length %d", ln)
		if ln < 0 {
			what = "a nil slice"
		}
		switch {
		case out.Kind == absint.ExitPanic:
			o.OK = false
			o.Detail = fmt.Sprintf("input of %s panics instead of being rejected: %s", what, out.PanicMsg)
		case out.Kind == absint.ExitUndecided:
			o.OK = false
			o.Detail = fmt.Sprintf("input of %s: %s", what, out.Undecided)
		default:
			_, isErr := out.Results[1].(absint.ErrV)
			_, isNil := out.Results[0].(absint.Nil)
			if !isErr || !isNil {
				o.OK = false
				o.Detail = fmt.Sprintf("input of %s is not rejected with (nil, error)", what)
			} else if fmt.Sprint(recv.Obj.Val) != before {
				o.OK = false
				o.Detail = fmt.Sprintf("input of %s is rejected but the receiver was modified", what)
			}
		}
		if !o.OK {
			break
		}
	}
	if o.OK {
		o.Detail = fmt.Sprintf("every length in 0..%d other than %d (and nil) returns (nil, error) without reading a byte, without panicking and without touching the receiver (%d abstract runs on opaque data)", maxLen, want, n)
	}
	c.Set.Add(o)
}
