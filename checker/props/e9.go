package props

import (
	"fmt"
	"go/types"
	"math/big"
	"sort"
	"strings"

	"golang.org/x/tools/go/ssa"

	"verif/checker/absint"
	"verif/checker/load"
	"verif/checker/poly"
	"verif/checker/report"
)

// e9 is one element-mode abstract interpretation session.
type e9 struct {
	c   *Ctx
	cfg string
	p   *load.Program
	in  *absint.Interp
	d   *absint.FieldDom
	ok  bool
}

func (c *Ctx) newE9(cfg string, decisions []bool, descend ...string) *e9 {
	p := c.Prog(cfg)
	if p == nil {
		return &e9{c: c, cfg: cfg}
	}
	d := absint.NewFieldDom(p)
	for _, n := range descend {
		d.Descend[n] = true
	}
	in := absint.New(p, d)
	in.Decisions = decisions
	s := &e9{c: c, cfg: cfg, p: p, in: in, d: d, ok: true}
	out := in.Exec(func() []absint.Val { in.RunInit(p.Root); return nil })
	if out.Kind != absint.ExitReturn {
		c.Set.Problem("[%s] element-mode evaluation of the package initialiser failed: %s%s", cfg, out.Undecided, out.PanicMsg)
		s.ok = false
	}
	return s
}

func (s *e9) fn(name string) *ssa.Function {
	f := s.p.ByName[name]
	if f == nil {
		s.c.Set.Problem("[%s] ANCHOR %s not found", s.cfg, name)
	}
	return f
}

func (s *e9) namedType(pkg *ssa.Package, name string) types.Type {
	m := pkg.Members[name]
	if m == nil {
		s.c.Set.Problem("[%s] ANCHOR type %s not found", s.cfg, name)
		return nil
	}
	return m.Type()
}

// newStruct allocates an object of a named struct type of the root package with the given field values.
func (s *e9) newStruct(typeName, objName string, fields map[string]absint.Val) absint.Ptr {
	t := s.namedType(s.p.Root, typeName)
	obj := s.in.NewObject(objName, t, nil)
	if fields != nil {
		obj.Val = s.in.StructVal(t, fields)
	}
	return absint.Ptr{Obj: obj}
}

func (s *e9) newElem(name string, v *absint.FE) absint.Ptr {
	t := s.namedType(s.p.Field, "Element")
	return absint.Ptr{Obj: s.in.NewObject(name, t, v)}
}

type symPoint struct {
	X, Y, Z, T *absint.FE
	ptr        absint.Ptr
}

// point creates a symbolic Point; valid=true ties T to X·Y/Z.
func (s *e9) point(name string, valid bool) symPoint {
	d := s.d
	sp := symPoint{X: d.Var("X" + name), Y: d.Var("Y" + name), Z: d.Var("Z" + name)}
	if valid {
		sp.T = d.Mul(d.Mul(sp.X, sp.Y), d.Inv(sp.Z))
	} else {
		sp.T = d.Var("T" + name)
	}
	sp.ptr = s.newStruct("Point", "P"+name, map[string]absint.Val{"x": sp.X, "y": sp.Y, "z": sp.Z, "t": sp.T})
	return sp
}

func (s *e9) coords(p absint.Ptr, names ...string) []*absint.FE {
	out := make([]*absint.FE, len(names))
	for i, n := range names {
		v := s.in.FieldOf(p.Obj, n)
		fe, _ := v.(*absint.FE)
		if fe == nil {
			fe = s.d.Var("?" + n)
		}
		out[i] = fe
	}
	return out
}

func (s *e9) call(name string, args ...absint.Val) absint.Outcome {
	f := s.fn(name)
	if f == nil {
		return absint.Outcome{Kind: absint.ExitUndecided, Undecided: "anchor " + name + " missing"}
	}
	return s.in.Run(f, args)
}

// obl records one term-identity obligation.
func (s *e9) obl(rule, key string, f string, ok bool, good, bad string) {
	o := report.Obligation{Rule: rule, Key: key, Config: s.cfg, OK: ok, Detail: good}
	if fn := s.p.ByName[f]; fn != nil {
		o.Pos = s.p.Rel(fn.Pos())
	}
	if !ok {
		o.Detail = bad
	}
	s.c.Set.Add(o)
}

func (s *e9) failOutcome(rule, key, f string, out absint.Outcome) bool {
	if out.Kind == absint.ExitReturn {
		return false
	}
	msg := out.Undecided
	if out.Kind == absint.ExitPanic {
		msg = "abstract execution panics: " + out.PanicMsg
	}
	s.obl(rule, key, f, false, "", msg)
	return true
}

func feStr(f *absint.FE) string {
	if c, ok := f.Den.IsConst(); ok && c.Cmp(big.NewInt(1)) == 0 {
		return f.Num.String()
	}
	return "(" + f.Num.String() + ") / (" + f.Den.String() + ")"
}

// affine law of the twisted Edwards curve -x²+y² = 1+dx²y²
func (s *e9) addLaw(x1, y1, x2, y2 *absint.FE) (x3, y3 *absint.FE) {
	d := s.d
	dd := d.Const(absint.DSpec())
	one := d.Const(big.NewInt(1))
	k := d.Mul(dd, d.Mul(d.Mul(x1, x2), d.Mul(y1, y2)))
	x3 = d.Mul(d.Add(d.Mul(x1, y2), d.Mul(y1, x2)), d.Inv(d.Add(one, k)))
	y3 = d.Mul(d.Add(d.Mul(y1, y2), d.Mul(x1, x2)), d.Inv(d.Sub(one, k)))
	return
}

func (s *e9) affine(p symPoint) (x, y *absint.FE) {
	zi := s.d.Inv(p.Z)
	return s.d.Mul(p.X, zi), s.d.Mul(p.Y, zi)
}

// checkPointIs compares the Point in ptr with affine (x,y): X/Z=x, Y/Z=y, T/Z=xy.
func (s *e9) checkPointIs(ptr absint.Ptr, x, y *absint.FE) (bool, string) {
	c := s.coords(ptr, "x", "y", "z", "t")
	d := s.d
	zi := d.Inv(c[2])
	gx, gy, gt := d.Mul(c[0], zi), d.Mul(c[1], zi), d.Mul(c[3], zi)
	switch {
	case !d.EqualFE(gx, x):
		return false, "x-coordinate X/Z differs from the specification"
	case !d.EqualFE(gy, y):
		return false, "y-coordinate Y/Z differs from the specification"
	case !d.EqualFE(gt, d.Mul(x, y)):
		return false, "T/Z differs from x·y (extended coordinate inconsistent)"
	}
	return true, ""
}

// projInvariant: is f unchanged when the coordinates named vars are all scaled by λ?
func (s *e9) projInvariant(f *absint.FE, vars []string) bool {
	lam := s.d.R.Var("λ")
	num, den := f.Num, f.Den
	for _, v := range vars {
		r := s.d.R.Var(v).Mul(lam)
		num = num.Subst(v, r)
		den = den.Subst(v, r)
	}
	return num.Mul(f.Den).Equal(f.Num.Mul(den))
}

// ---- C02 ---------------------------------------------------------------------------

func (c *Ctx) e9GroupLaw(cfg string) {
	c.e9ConstD(cfg)
	c.e9GroupLawBody(cfg)
}

// e9ConstD audits the curve constants evaluated from their initialiser literals.
func (c *Ctx) e9ConstD(cfg string) {
	s := c.newE9(cfg, nil)
	if !s.ok {
		return
	}
	d := s.d
	for _, g := range []struct {
		name string
		want *big.Int
		what string
	}{
		{"d", absint.DSpec(), "-121665/121666 mod p"},
		{"d2", new(big.Int).Mod(new(big.Int).Lsh(absint.DSpec(), 1), absint.P25519), "2·d mod p"},
		{"feOne", big.NewInt(1), "1"},
	} {
		key := "E9-CONST/" + g.name
		valueOf := func(gv *ssa.Global) (*big.Int, bool) {
			ptr := s.in.Globals[gv]
			if ptr == nil {
				return nil, false
			}
			if fe, isF := ptr.Val.(*absint.FE); isF {
				return d.IsConst(fe) // the variable is an Element value, not a pointer to one
			}
			pp, isP := ptr.Val.(absint.Ptr)
			if !isP {
				return nil, false
			}
			fe, isF := pp.Obj.Val.(*absint.FE)
			if !isF {
				return nil, false
			}
			return d.IsConst(fe)
		}
		gv, _ := s.p.Root.Members[g.name].(*ssa.Global)
		if gv == nil {
			// the variable is not there under this name: any package-level *Element holding the value stands for it
			// (renamed); if none does, nothing materialises the constant and the formulas that need it are
			// checked by value in the E9 rules of the same run
			var names []string
			for n, m := range s.p.Root.Members {
				if og, ok := m.(*ssa.Global); ok {
					if v, ok := valueOf(og); ok && v.Cmp(g.want) == 0 {
						names = append(names, n)
					}
				}
			}
			sort.Strings(names)
			if len(names) > 0 {
				s.obl("E9-CONST", key, "", true, fmt.Sprintf("%s = %s is held by package-level variable %s (evaluated from its initialiser literal)", g.name, g.what, strings.Join(names, ", ")), "")
			} else {
				s.obl("E9-CONST", key, "", true, fmt.Sprintf("no package-level variable named %s or holding %s exists; every formula that needs the constant is checked by value", g.name, g.what), "")
			}
			continue
		}
		ok := false
		got := "?"
		if cv, isC := valueOf(gv); isC {
			ok = cv.Cmp(g.want) == 0
			got = cv.String()
		}
		s.obl("E9-CONST", key, "", ok, g.name+" = "+g.what+" (evaluated from its initialiser literal)", fmt.Sprintf("%s evaluates to %s, expected %s = %s", g.name, got, g.what, g.want))
	}
}

func (c *Ctx) e9GroupLawBody(cfg string) {

	// Negate
	{
		s := c.newE9(cfg, nil)
		p := s.point("1", false)
		v := s.newStruct("Point", "v", nil)
		out := s.call("(*Point).Negate", v, p.ptr)
		key := "E9/(*Point).Negate/spec"
		if !s.failOutcome("E9", key, "(*Point).Negate", out) {
			g := s.coords(v, "x", "y", "z", "t")
			d := s.d
			ok := d.EqualFE(g[0], d.Neg(p.X)) && d.EqualFE(g[1], p.Y) && d.EqualFE(g[2], p.Z) && d.EqualFE(g[3], d.Neg(p.T))
			s.obl("E9", key, "(*Point).Negate", ok, "Negate(X:Y:Z:T) = (−X : Y : Z : −T) for all X,Y,Z,T", fmt.Sprintf("Negate(X:Y:Z:T) = (%s : %s : %s : %s), expected (−X : Y : Z : −T)", feStr(g[0]), feStr(g[1]), feStr(g[2]), feStr(g[3])))
		}
	}
	// Add / Subtract against the affine law, for every aliasing pattern of {receiver, p, q}
	for _, op := range []struct {
		fn   string
		sign int64
	}{{"(*Point).Add", 1}, {"(*Point).Subtract", -1}} {
		for _, al := range []string{"distinct", "v=p", "v=q", "p=q", "v=p=q"} {
			s := c.newE9(cfg, nil)
			d := s.d
			p := s.point("1", true)
			q := p
			if al != "p=q" && al != "v=p=q" {
				q = s.point("2", true)
			}
			v := s.newStruct("Point", "v", nil)
			switch al {
			case "v=p", "v=p=q":
				v = p.ptr
			case "v=q":
				v = q.ptr
			}
			out := s.call(op.fn, v, p.ptr, q.ptr)
			key := "E9/" + op.fn + "/law"
			if al != "distinct" {
				key += "[" + al + "]"
			}
			if s.failOutcome("E9", key, op.fn, out) {
				continue
			}
			x1, y1 := s.affine(p)
			x2, y2 := s.affine(q)
			if op.sign < 0 {
				x2 = d.Neg(x2)
			}
			x3, y3 := s.addLaw(x1, y1, x2, y2)
			ok, why := s.checkPointIs(v, x3, y3)
			what := "P+Q"
			if op.sign < 0 {
				what = "P−Q = P+(−Q)"
			}
			s.obl("E9", key, op.fn, ok, op.fn+" ("+al+" storage) equals the affine twisted-Edwards law for "+what+" as an identity of rational functions in the input coordinates with T=XY/Z, and T3·Z3 = X3·Y3", op.fn+" with "+al+" storage: "+why)
			if al != "distinct" {
				continue
			}
			// representation independence
			g := s.coords(v, "x", "y", "z", "t")
			zi := d.Inv(g[2])
			inv := true
			for _, vars := range [][]string{{"X1", "Y1", "Z1"}, {"X2", "Y2", "Z2"}} {
				if !s.projInvariant(d.Mul(g[0], zi), vars) || !s.projInvariant(d.Mul(g[1], zi), vars) {
					inv = false
				}
			}
			s.obl("E9", "E9/"+op.fn+"/projective-invariance", op.fn, inv, "affine result unchanged when either input is rescaled (λX:λY:λZ:λT)", "the affine result changes when an input's projective representation is rescaled")
		}
	}
	// doubling: fromP1xP1(Double(FromP3(P))) equals the law for P+P modulo the curve equation
	{
		s := c.newE9(cfg, nil)
		d := s.d
		p := s.point("1", true)
		p2 := s.newStruct("projP2", "p2", nil)
		r := s.newStruct("projP1xP1", "r", nil)
		v := s.newStruct("Point", "v", nil)
		key := "E9/(*projP1xP1).Double/law"
		out := s.in.Exec(func() []absint.Val {
			s.in.Call(nil, s.fn("(*projP2).FromP3"), []absint.Val{p2, p.ptr})
			s.in.Call(nil, s.fn("(*projP1xP1).Double"), []absint.Val{r, p2})
			s.in.Call(nil, s.fn("(*Point).fromP1xP1"), []absint.Val{v, r})
			return nil
		})
		if !s.failOutcome("E9", key, "(*projP1xP1).Double", out) {
			x1, y1 := s.affine(p)
			x3, y3 := s.addLaw(x1, y1, x1, y1)
			g := s.coords(v, "x", "y", "z", "t")
			// curve: -X²Z² + Y²Z² = Z⁴ + dX²Y²  =>  Z⁴ -> Y²Z² - X²Z² - dX²Y²
			R := d.R
			X, Y, Z := R.Var("X1"), R.Var("Y1"), R.Var("Z1")
			repl := Y.Mul(Y).Mul(Z).Mul(Z).Sub(X.Mul(X).Mul(Z).Mul(Z)).Sub(R.Const(absint.DSpec()).Mul(X).Mul(X).Mul(Y).Mul(Y))
			eqMod := func(a, b *absint.FE) bool {
				diff := a.Num.Mul(b.Den).Sub(b.Num.Mul(a.Den))
				return diff.ReduceByRule("Z1", 4, repl).IsZero()
			}
			zi := d.Inv(g[2])
			ok := eqMod(d.Mul(g[0], zi), x3) && eqMod(d.Mul(g[1], zi), y3) && eqMod(d.Mul(g[3], zi), d.Mul(x3, y3))
			s.obl("E9", key, "(*projP1xP1).Double", ok, "FromP3 → Double → fromP1xP1 equals the affine law for P+P modulo the curve equation −X²Z²+Y²Z² = Z⁴+dX²Y²", "dedicated doubling differs from the affine law for P+P (modulo the curve equation)")
		}
	}
	// MultByCofactor = three applications of the same doubling
	{
		s := c.newE9(cfg, nil)
		d := s.d
		p := s.point("1", false)
		v := s.newStruct("Point", "v", nil)
		key := "E9/(*Point).MultByCofactor/dbl3"
		out := s.call("(*Point).MultByCofactor", v, p.ptr)
		if !s.failOutcome("E9", key, "(*Point).MultByCofactor", out) {
			w := s.newStruct("Point", "w", map[string]absint.Val{"x": p.X, "y": p.Y, "z": p.Z, "t": p.T})
			out2 := s.in.Exec(func() []absint.Val {
				for i := 0; i < 3; i++ {
					p2 := s.newStruct("projP2", "p2", nil)
					r := s.newStruct("projP1xP1", "r", nil)
					s.in.Call(nil, s.fn("(*projP2).FromP3"), []absint.Val{p2, w})
					s.in.Call(nil, s.fn("(*projP1xP1).Double"), []absint.Val{r, p2})
					s.in.Call(nil, s.fn("(*Point).fromP1xP1"), []absint.Val{w, r})
				}
				return nil
			})
			if !s.failOutcome("E9", key, "(*Point).MultByCofactor", out2) {
				g, h := s.coords(v, "x", "y", "z", "t"), s.coords(w, "x", "y", "z", "t")
				ok := true
				// identical coordinates (the usual case), else the same projective point by cross ratios
				ident := true
				for i := 0; i < 4; i++ {
					if !g[i].Num.Equal(h[i].Num) || !g[i].Den.Equal(h[i].Den) {
						ident = false
					}
				}
				if !ident {
					for i := 0; i < 4; i++ {
						if !d.EqualFE(d.Mul(g[i], h[2]), d.Mul(h[i], g[2])) {
							ok = false
						}
					}
				}
				s.obl("E9", key, "(*Point).MultByCofactor", ok, "MultByCofactor(P) is the same projective point as dbl(dbl(dbl(P))) with dbl = FromP3→Double→fromP1xP1 (whose law is a separate obligation): [8]P", "MultByCofactor(P) is not three applications of the doubling")
			}
		}
	}
	// siblings: Sub vs Add∘neg on cached form; AddAffine/SubAffine vs projective at the same point
	{
		s := c.newE9(cfg, nil)
		d := s.d
		p, q := s.point("1", true), s.point("2", true)
		run := func(cache, op string) []*absint.FE {
			cc := s.newStruct(map[string]string{"proj": "projCached", "aff": "affineCached"}[cache], "qc", nil)
			r := s.newStruct("projP1xP1", "r", nil)
			v := s.newStruct("Point", "v", nil)
			out := s.in.Exec(func() []absint.Val {
				s.in.Call(nil, s.fn(map[string]string{"proj": "(*projCached).FromP3", "aff": "(*affineCached).FromP3"}[cache]), []absint.Val{cc, q.ptr})
				s.in.Call(nil, s.fn("(*projP1xP1)."+op), []absint.Val{r, p.ptr, cc})
				s.in.Call(nil, s.fn("(*Point).fromP1xP1"), []absint.Val{v, r})
				return nil
			})
			if out.Kind != absint.ExitReturn {
				s.c.Set.Problem("[%s] %s%s", cfg, out.Undecided, out.PanicMsg)
				return nil
			}
			g := s.coords(v, "x", "y", "z", "t")
			zi := d.Inv(g[2])
			return []*absint.FE{d.Mul(g[0], zi), d.Mul(g[1], zi), d.Mul(g[3], zi)}
		}
		same := func(a, b []*absint.FE) bool {
			if a == nil || b == nil {
				return false
			}
			for i := range a {
				if !d.EqualFE(a[i], b[i]) {
					return false
				}
			}
			return true
		}
		add, sub, adda, suba := run("proj", "Add"), run("proj", "Sub"), run("aff", "AddAffine"), run("aff", "SubAffine")
		s.obl("E9", "E9/(*projP1xP1).AddAffine/sibling", "(*projP1xP1).AddAffine", same(add, adda), "AddAffine(P, affineCached(Q)) is the same point as Add(P, projCached(Q))", "AddAffine with the affine-cached form disagrees with Add on the projective-cached form")
		s.obl("E9", "E9/(*projP1xP1).SubAffine/sibling", "(*projP1xP1).SubAffine", same(sub, suba), "SubAffine(P, affineCached(Q)) is the same point as Sub(P, projCached(Q))", "SubAffine disagrees with Sub")
		x1, y1 := s.affine(p)
		x2, y2 := s.affine(q)
		x3, y3 := s.addLaw(x1, y1, d.Neg(x2), y2)
		okSub := sub != nil && d.EqualFE(sub[0], x3) && d.EqualFE(sub[1], y3)
		s.obl("E9", "E9/(*projP1xP1).Sub/sibling", "(*projP1xP1).Sub", okSub, "Sub(P, cached(Q)) = P + (−Q) by the affine law", "Sub on the cached form is not P + (−Q)")
	}
}

// ---- C12.4: neutral elements of each coordinate system and XY=ZT preservation ------------

func (c *Ctx) e9Neutral(cfg string) {
	s := c.newE9(cfg, nil)
	if !s.ok {
		return
	}
	d := s.d
	one, zero := d.Const(big.NewInt(1)), d.Const(big.NewInt(0))
	for _, z := range []struct {
		typ, fn string
		names   []string
		want    []*absint.FE
		show    string
	}{
		{"projP2", "(*projP2).Zero", []string{"X", "Y", "Z"}, []*absint.FE{zero, one, one}, "(0 : 1 : 1)"},
		{"projCached", "(*projCached).Zero", []string{"YplusX", "YminusX", "Z", "T2d"}, []*absint.FE{one, one, one, zero}, "(Y+X, Y−X, Z, 2dT) = (1, 1, 1, 0)"},
		{"affineCached", "(*affineCached).Zero", []string{"YplusX", "YminusX", "T2d"}, []*absint.FE{one, one, zero}, "(y+x, y−x, 2dxy) = (1, 1, 0)"},
	} {
		o := s.newStruct(z.typ, "z", map[string]absint.Val{})
		// start from a non-identity content so that a missing write is visible
		for _, n := range z.names {
			if i := absint.FieldIndex(o.Obj.Type, n); i >= 0 {
				o.Obj.Val.(*absint.Agg).Elems[i] = d.Var("old" + n)
			}
		}
		out := s.call(z.fn, o)
		key := "E9/" + z.fn + "/identity"
		if s.failOutcome("E9", key, z.fn, out) {
			continue
		}
		g := s.coords(o, z.names...)
		ok := true
		var got []string
		for i := range g {
			got = append(got, feStr(g[i]))
			if !d.EqualFE(g[i], z.want[i]) {
				ok = false
			}
		}
		s.obl("E9", key, z.fn, ok, z.fn+" is the neutral element "+z.show+" of its coordinate system (Z = 1, not 0)", z.fn+" yields ("+strings.Join(got, ", ")+"), expected "+z.show)
	}
	// conversions preserve X·Y = Z·T identically
	{
		r := s.newStruct("projP1xP1", "r", map[string]absint.Val{"X": d.Var("A"), "Y": d.Var("B"), "Z": d.Var("C"), "T": d.Var("D")})
		v := s.newStruct("Point", "v", nil)
		out := s.call("(*Point).fromP1xP1", v, r)
		key := "E9/(*Point).fromP1xP1/XY=ZT"
		if !s.failOutcome("E9", key, "(*Point).fromP1xP1", out) {
			g := s.coords(v, "x", "y", "z", "t")
			ok := d.EqualFE(d.Mul(g[0], g[1]), d.Mul(g[2], g[3]))
			want := d.EqualFE(g[0], d.Mul(d.Var("A"), d.Var("D"))) && d.EqualFE(g[1], d.Mul(d.Var("B"), d.Var("C"))) && d.EqualFE(g[2], d.Mul(d.Var("C"), d.Var("D"))) && d.EqualFE(g[3], d.Mul(d.Var("A"), d.Var("B")))
			s.obl("E9", key, "(*Point).fromP1xP1", ok && want, "((X:Z),(Y:T)) ↦ (XT : YZ : ZT : XY): X3·Y3 = Z3·T3 identically", "conversion from P1xP1 breaks X·Y = Z·T or is not (XT : YZ : ZT : XY)")
		}
		p2 := s.newStruct("projP2", "p2", map[string]absint.Val{"X": d.Var("A"), "Y": d.Var("B"), "Z": d.Var("C")})
		w := s.newStruct("Point", "w", nil)
		out = s.call("(*Point).fromP2", w, p2)
		key = "E9/(*Point).fromP2/XY=ZT"
		if !s.failOutcome("E9", key, "(*Point).fromP2", out) {
			g := s.coords(w, "x", "y", "z", "t")
			ok := d.EqualFE(d.Mul(g[0], g[1]), d.Mul(g[2], g[3])) && d.EqualFE(d.Mul(g[0], d.Var("C")), d.Mul(d.Var("A"), g[2])) && d.EqualFE(d.Mul(g[1], d.Var("C")), d.Mul(d.Var("B"), g[2]))
			s.obl("E9", key, "(*Point).fromP2", ok, "(X:Y:Z) ↦ (XZ : YZ : Z² : XY): same point, X3·Y3 = Z3·T3 identically", "conversion from P2 breaks X·Y = Z·T or changes the point")
		}
	}
}

// ---- C06 -----------------------------------------------------------------------------

func (c *Ctx) e9Equal(cfg string) {
	s := c.newE9(cfg, nil)
	if !s.ok {
		return
	}
	d := s.d
	p, q := s.point("1", false), s.point("2", false)
	out := s.call("(*Point).Equal", p.ptr, q.ptr)
	key := "E9/(*Point).Equal/spec"
	if s.failOutcome("E9", key, "(*Point).Equal", out) {
		return
	}
	got, ok := out.Results[0].(absint.BitP)
	want := d.Eq(d.Mul(p.X, q.Z), d.Mul(q.X, p.Z)).Mul(d.Eq(d.Mul(p.Y, q.Z), d.Mul(q.Y, p.Z)))
	good := ok && got.P.Equal(want)
	gs := "?"
	if ok {
		gs = s.describeBits(got.P)
	}
	s.obl("E9", key, "(*Point).Equal", good, "Equal = [X1·Z2 = X2·Z1] ∧ [Y1·Z2 = Y2·Z1]: both cross-multiplied coordinates participate, combined with AND", "Equal computes "+gs+", expected [X1·Z2 − X2·Z1 = 0]·[Y1·Z2 − Y2·Z1 = 0]")
}

// describeBits renders a bit polynomial with its atoms expanded.
func (s *e9) describeBits(p *poly.Poly) string {
	out := p.String()
	var ds []string
	for _, v := range p.Vars() {
		fn, args := s.d.AtomArgs(v)
		if fn == "" {
			continue
		}
		var as []string
		for _, a := range args {
			as = append(as, feStr(a))
		}
		ds = append(ds, v+" := "+fn+"("+strings.Join(as, ", ")+")")
	}
	sort.Strings(ds)
	if len(ds) > 0 {
		out += " where " + strings.Join(ds, "; ")
	}
	return out
}

// ---- C05 / C17 -----------------------------------------------------------------------

// encodingOf inspects a returned byte slice: all 32 bytes must be the encoding of one expression.
func (s *e9) encodingOf(v absint.Val) (arg *absint.FE, or31 string, concrete []byte, err string) {
	el := s.in.SliceElems(nil, v)
	if len(el) != 32 {
		return nil, "", nil, fmt.Sprintf("result has %d bytes", len(el))
	}
	if _, isInt := el[0].(absint.Int); isInt {
		out := make([]byte, 32)
		for i, e := range el {
			iv, ok := e.(absint.Int)
			if !ok {
				return nil, "", nil, "mixed concrete/symbolic bytes"
			}
			out[i] = byte(iv.V.Int64())
		}
		return nil, "", out, ""
	}
	name := ""
	for i, e := range el {
		b, ok := e.(absint.ByteS)
		if !ok || b.Enc == "" || b.Idx != i {
			return nil, "", nil, fmt.Sprintf("byte %d is not byte %d of a canonical field encoding", i, i)
		}
		if name == "" {
			name = b.Enc
		} else if name != b.Enc {
			return nil, "", nil, "bytes come from encodings of different values"
		}
		if b.Or != "" {
			if i != 31 {
				return nil, "", nil, fmt.Sprintf("extra bits or-ed into byte %d", i)
			}
			or31 = b.Or
		}
	}
	_, args := s.d.AtomArgs(name)
	if len(args) != 1 {
		return nil, "", nil, "unknown encoding atom"
	}
	return args[0], or31, nil, ""
}

func (c *Ctx) e9Bytes(cfg string) {
	s := c.newE9(cfg, nil)
	if !s.ok {
		return
	}
	d := s.d
	p := s.point("1", false)
	buf := absint.Ptr{Obj: s.in.NewObject("buf", types.NewArray(types.Typ[types.Uint8], 32), nil)}
	out := s.call("(*Point).bytes", p.ptr, buf)
	key := "E9/(*Point).bytes/spec"
	if s.failOutcome("E9", key, "(*Point).bytes", out) {
		return
	}
	arg, or31, _, err := s.encodingOf(out.Results[0])
	zi := d.Inv(p.Z)
	wantY, wantX := d.Mul(p.Y, zi), d.Mul(p.X, zi)
	wantOr := "7:" + d.IsNeg(wantX).Key()
	ok := err == "" && arg != nil && d.EqualFE(arg, wantY) && or31 == wantOr
	bad := err
	if bad == "" && arg != nil {
		bad = fmt.Sprintf("encodes %s with sign bits %q; expected enc(Y/Z) with bit 255 = neg?(X/Z)", feStr(arg), or31)
	}
	s.obl("E9", key, "(*Point).bytes", ok, "Bytes = enc(Y·Z⁻¹) with bit 7 of byte 31 or-ed with IsNegative(X·Z⁻¹); both arguments are invariant under rescaling (X:Y:Z:T)", "Point.bytes: "+bad)
	if ok {
		inv := s.projInvariant(arg, []string{"X1", "Y1", "Z1", "T1"}) && s.projInvariant(wantX, []string{"X1", "Y1", "Z1", "T1"})
		s.obl("E9", "E9/(*Point).bytes/projective-invariance", "(*Point).bytes", inv, "encoded quantities have homogeneity degree 0", "encoded quantity depends on the projective representation")
	}
}

func (c *Ctx) e9Montgomery(cfg string) {
	s := c.newE9(cfg, nil)
	if !s.ok {
		return
	}
	d := s.d
	p := s.point("1", false)
	buf := absint.Ptr{Obj: s.in.NewObject("buf", types.NewArray(types.Typ[types.Uint8], 32), nil)}
	out := s.call("(*Point).bytesMontgomery", p.ptr, buf)
	key := "E9/(*Point).bytesMontgomery/spec"
	if s.failOutcome("E9", key, "(*Point).bytesMontgomery", out) {
		return
	}
	arg, or31, _, err := s.encodingOf(out.Results[0])
	one := d.Const(big.NewInt(1))
	y := d.Mul(p.Y, d.Inv(p.Z))
	want := d.Mul(d.Add(one, y), d.Inv(d.Sub(one, y)))
	ok := err == "" && arg != nil && d.EqualFE(arg, want) && or31 == ""
	bad := err
	if bad == "" && arg != nil {
		bad = "encodes " + feStr(arg) + ", expected (Z+Y)/(Z−Y) = (1+y)/(1−y)"
	}
	s.obl("E9", key, "(*Point).bytesMontgomery", ok, "BytesMontgomery = enc((1+y)/(1−y)) with y = Y/Z: independent of X and T (equal for P and −P) and of the projective representation", "BytesMontgomery: "+bad)
	if ok {
		indep := true
		for _, v := range append(arg.Num.Vars(), arg.Den.Vars()...) {
			if v == "X1" || v == "T1" {
				indep = false
			}
		}
		s.obl("E9", "E9/(*Point).bytesMontgomery/independent-of-X-T", "(*Point).bytesMontgomery", indep && s.projInvariant(arg, []string{"X1", "Y1", "Z1", "T1"}), "u depends on Y/Z only", "u depends on X or T, or on the projective representation")
	}
	// exceptional set: a rational-function identity holds only where every inverted expression is non-zero, and
	// Invert(0) = 0 otherwise. The specification inverts Z (non-zero for valid points) and Z−Y (the identity's y = 1,
	// handled below); any other inverted expression creates points where the result silently differs.
	{
		R := d.R
		Z, Y := R.Var("Z1"), R.Var("Y1")
		okInv := true
		badInv := ""
		for _, q := range d.NonZero {
			allowed := false
			base := R.Int(1)
			for a := 0; a <= 3 && !allowed; a++ {
				zy := R.Int(1)
				for b := 0; b <= 3 && !allowed; b++ {
					if q.Monic().Equal(base.Mul(zy).Monic()) {
						allowed = true
					}
					zy = zy.Mul(Z.Sub(Y))
				}
				base = base.Mul(Z)
			}
			if !allowed {
				okInv = false
				badInv = q.String()
			}
		}
		s.obl("E9", "E9/(*Point).bytesMontgomery/exceptional-set", "(*Point).bytesMontgomery", okInv, "the only inverted expressions are products of powers of Z and Z−Y: with Invert(0)=0 the result can differ from (1+y)/(1−y) only at y = 1, which is specified (zero)", "the computation inverts "+badInv+": where it vanishes (on valid points other than the identity) Invert(0) = 0 silently yields a value different from (1+y)/(1−y)")
	}
	// identity: y = 1 (Y = Z): Invert(0) = 0 gives 32 zero bytes
	s2 := c.newE9(cfg, nil)
	z := s2.d.Var("Z1")
	pt := s2.newStruct("Point", "Pid", map[string]absint.Val{"x": s2.d.Var("X1"), "y": z, "z": z, "t": s2.d.Var("T1")})
	buf2 := absint.Ptr{Obj: s2.in.NewObject("buf", types.NewArray(types.Typ[types.Uint8], 32), nil)}
	out2 := s2.call("(*Point).bytesMontgomery", pt, buf2)
	key = "E9/(*Point).bytesMontgomery/y=1"
	if s2.failOutcome("E9", key, "(*Point).bytesMontgomery", out2) {
		return
	}
	_, _, conc, err2 := s2.encodingOf(out2.Results[0])
	allZero := err2 == "" && conc != nil
	for _, b := range conc {
		if b != 0 {
			allZero = false
		}
	}
	s2.obl("E9", key, "(*Point).bytesMontgomery", allZero, "with Y = Z (y = 1, any X, T, Z) the inverted denominator is the zero polynomial, Invert(0) = 0, and the output is 32 zero bytes", "with Y = Z (the identity's y) the output is not 32 zero bytes")
}
