package absint

import (
	"fmt"
	"go/token"
	"go/types"
	"math/big"
	"sort"
	"strings"

	"golang.org/x/tools/go/ssa"

	"verif/checker/load"
	"verif/checker/poly"
)

// ---- E9: field-expression domain (element mode) ---------------------------------
//
// field.Element values are fractions of polynomials over GF(p) in the symbols
// of the inputs; {0,1}-valued integers (results of Equal, IsNegative, cond
// bits) are multilinear polynomials over idempotent variables, so Select is
// b + c·(a−b) and all term identities are decided by normal-form comparison.

var P25519 = func() *big.Int {
	p := new(big.Int).Lsh(big.NewInt(1), 255)
	return p.Sub(p, big.NewInt(19))
}()

type FE struct{ Num, Den *poly.Poly }

// BitP is a {0,1}-valued integer or a boolean given by a multilinear polynomial.
type BitP struct{ P *poly.Poly }

// ShBit is a BitP shifted left by K bits (byte(x.IsNegative() << 7)).
type ShBit struct {
	P *poly.Poly
	K int
}

// ByteS is a symbolic byte: an input byte, a byte of the canonical encoding of
// a field expression, possibly with extra bits or-ed in.
type ByteS struct {
	In   string // input slice name ("" if not an input byte)
	Enc  string // atom name of the encoding ("" if not an encoding byte)
	Idx  int
	Base int    // concrete base value when In == Enc == ""
	Or   string // canonical rendering of or-ed bits, e.g. "7:<poly>"
}

type feAtom struct {
	fn   string
	args []*FE
	name string
}

type PathLit struct {
	P     *poly.Poly
	Truth bool
}

type FieldDom struct {
	R       *poly.Ring
	atoms   []feAtom
	eqAtoms map[string]string // monic key -> var name
	Path    []PathLit
	NonZero []*poly.Poly // denominators assumed non-zero (inverted expressions)
	// Descend: functions of package field to interpret instead of treating as primitives
	Descend map[string]bool
	prog    *load.Program
	inputs  map[string]*FE // decoded input slices
	encOf   map[string]*FE // canonical-encoding atom name -> the element it encodes
}

func NewFieldDom(p *load.Program) *FieldDom {
	return &FieldDom{R: poly.NewRing(P25519), eqAtoms: map[string]string{}, Descend: map[string]bool{}, prog: p, inputs: map[string]*FE{}, encOf: map[string]*FE{}}
}

// encodedElement: is s the complete canonical encoding (32 bytes, in order) of one element?
func (d *FieldDom) encodedElement(in *Interp, site ssa.Instruction, s Val) (*FE, bool) {
	sl, ok := s.(SliceV)
	if !ok || sl.Len != 32 {
		return nil, false
	}
	el := in.SliceElems(site, s)
	name := ""
	allConst := true
	val := new(big.Int)
	for i, e := range el {
		switch b := e.(type) {
		case ByteS:
			allConst = false
			if b.Enc == "" || b.Idx != i || (name != "" && b.Enc != name) {
				return nil, false
			}
			name = b.Enc
		case Int:
			if name != "" {
				return nil, false
			}
			val.Or(val, new(big.Int).Lsh(b.V, uint(8*i)))
		default:
			return nil, false
		}
	}
	if allConst {
		if val.Cmp(P25519) >= 0 {
			return nil, false
		}
		return d.Const(val), true
	}
	fe, ok := d.encOf[name]
	return fe, ok
}

func (d *FieldDom) Name() string { return "field-expression (E9)" }

func isNamed(t types.Type, pkgPath, name string) bool {
	n, ok := t.(*types.Named)
	return ok && n.Obj().Name() == name && n.Obj().Pkg() != nil && n.Obj().Pkg().Path() == pkgPath
}

func (d *FieldDom) IsAtom(t types.Type) bool { return isNamed(t, load.FieldPath, "Element") }

func (d *FieldDom) ZeroAtom(t types.Type) Val { return d.Const(big.NewInt(0)) }

func (d *FieldDom) Const(c *big.Int) *FE { return &FE{Num: d.R.Const(c), Den: d.R.Int(1)} }
func (d *FieldDom) Var(name string) *FE  { return &FE{Num: d.R.Var(name), Den: d.R.Int(1)} }
func (d *FieldDom) FromPoly(p *poly.Poly) *FE {
	return &FE{Num: p, Den: d.R.Int(1)}
}

func (d *FieldDom) norm(f *FE) *FE {
	if f.Num.IsZero() {
		return d.Const(big.NewInt(0))
	}
	if c, ok := f.Den.IsConst(); ok && c.Cmp(big.NewInt(1)) != 0 {
		inv := new(big.Int).ModInverse(c, P25519)
		return &FE{Num: f.Num.Scale(inv), Den: d.R.Int(1)}
	}
	return f
}

func (d *FieldDom) Add(a, b *FE) *FE {
	if a.Den.Equal(b.Den) {
		return d.norm(&FE{Num: a.Num.Add(b.Num), Den: a.Den})
	}
	return d.norm(&FE{Num: a.Num.Mul(b.Den).Add(b.Num.Mul(a.Den)), Den: a.Den.Mul(b.Den)})
}
func (d *FieldDom) Neg(a *FE) *FE    { return &FE{Num: a.Num.Neg(), Den: a.Den} }
func (d *FieldDom) Sub(a, b *FE) *FE { return d.Add(a, d.Neg(b)) }
func (d *FieldDom) Mul(a, b *FE) *FE {
	return d.norm(&FE{Num: a.Num.Mul(b.Num), Den: a.Den.Mul(b.Den)})
}

// Inv follows Element.Invert: 0 maps to 0; otherwise the numerator is assumed non-zero.
func (d *FieldDom) Inv(a *FE) *FE {
	if a.Num.IsZero() {
		return d.Const(big.NewInt(0))
	}
	if _, ok := a.Num.IsConst(); !ok {
		d.NonZero = append(d.NonZero, a.Num)
	}
	return d.norm(&FE{Num: a.Den, Den: a.Num})
}

func (d *FieldDom) EqualFE(a, b *FE) bool { return a.Num.Mul(b.Den).Equal(b.Num.Mul(a.Den)) }

func (d *FieldDom) IsConst(a *FE) (*big.Int, bool) {
	a = d.norm(a)
	if c, ok := a.Den.IsConst(); ok && c.Cmp(big.NewInt(1)) == 0 {
		return a.Num.IsConst()
	}
	return nil, false
}

// fnAtom interns an opaque function application by semantic equality of its arguments.
func (d *FieldDom) fnAtomName(fn string, args ...*FE) string {
	for _, at := range d.atoms {
		if at.fn != fn || len(at.args) != len(args) {
			continue
		}
		same := true
		for i := range args {
			if !d.EqualFE(at.args[i], args[i]) {
				same = false
			}
		}
		if same {
			return at.name
		}
	}
	name := fmt.Sprintf("%s#%d", fn, len(d.atoms))
	d.atoms = append(d.atoms, feAtom{fn: fn, args: args, name: name})
	return name
}

func (d *FieldDom) Fn(fn string, args ...*FE) *FE { return d.Var(d.fnAtomName(fn, args...)) }

func (d *FieldDom) BitFn(fn string, args ...*FE) *poly.Poly {
	return d.R.BitVar(d.fnAtomName(fn, args...))
}

// AtomArgs returns the arguments an atom was created with.
func (d *FieldDom) AtomArgs(name string) (string, []*FE) {
	for _, at := range d.atoms {
		if at.name == name {
			return at.fn, at.args
		}
	}
	return "", nil
}

// Eq is the {0,1} term of Element.Equal.
func (d *FieldDom) Eq(a, b *FE) *poly.Poly {
	diff := a.Num.Mul(b.Den).Sub(b.Num.Mul(a.Den))
	if diff.IsZero() {
		return d.R.Int(1)
	}
	if _, ok := diff.IsConst(); ok {
		return d.R.Int(0)
	}
	key := diff.Monic().Key()
	if n, ok := d.eqAtoms[key]; ok {
		return d.R.BitVar(n)
	}
	name := fmt.Sprintf("eq#%d", len(d.eqAtoms))
	d.eqAtoms[key] = name
	d.atoms = append(d.atoms, feAtom{fn: "eq", args: []*FE{d.FromPoly(diff.Monic())}, name: name})
	return d.R.BitVar(name)
}

// IsNeg is the {0,1} term of Element.IsNegative.
func (d *FieldDom) IsNeg(a *FE) *poly.Poly {
	if c, ok := d.IsConst(a); ok {
		return d.R.Int(int64(c.Bit(0)))
	}
	return d.BitFn("neg", a)
}

// Sel is Select(a, b, cond) = b + cond·(a − b).
func (d *FieldDom) Sel(c *poly.Poly, a, b *FE) *FE {
	return d.Add(b, d.Mul(d.FromPoly(c), d.Sub(a, b)))
}

// Abs is Absolute(u) = Select(−u, u, IsNegative(u)).
func (d *FieldDom) Abs(u *FE) *FE { return d.Sel(d.IsNeg(u), d.Neg(u), u) }

func (d *FieldDom) bitOf(in *Interp, v Val, pos ssa.Instruction) *poly.Poly {
	switch x := v.(type) {
	case BitP:
		return x.P
	case Int:
		if x.V.Sign() == 0 || x.V.Cmp(big.NewInt(1)) == 0 {
			return d.R.Int(x.V.Int64())
		}
	case Bool:
		if x.B {
			return d.R.Int(1)
		}
		return d.R.Int(0)
	}
	in.Undecided(pos, "value %v is not a {0,1} term", v)
	return nil
}

func (d *FieldDom) BinOp(in *Interp, op token.Token, x, y Val, xt types.Type, pos ssa.Instruction) Val {
	// symbolic input byte >> 7 : the sign bit
	if b, ok := x.(ByteS); ok && op == token.SHR {
		if k, ok := y.(Int); ok && k.V.Int64() == 7 && b.In != "" && b.Or == "" {
			return BitP{d.R.BitVar(fmt.Sprintf("bit(%s,%d)", b.In, 8*b.Idx+7))}
		}
	}
	if op == token.OR {
		if bs, sb, ok := byteAndShift(x, y); ok {
			bs.Or = fmt.Sprintf("%d:%s", sb.K, sb.P.Key())
			return bs
		}
		if _, ok := x.(ShBit); ok {
			if yi, ok := y.(Int); ok && yi.V.Sign() == 0 {
				return x
			}
		}
	}
	_, xb := x.(BitP)
	_, yb := y.(BitP)
	if xb || yb {
		if op == token.SHL {
			if k, ok := y.(Int); ok {
				return ShBit{P: x.(BitP).P, K: int(k.V.Int64())}
			}
		}
		a, b := d.bitOf(in, x, pos), d.bitOf(in, y, pos)
		two := big.NewInt(2)
		switch op {
		case token.AND:
			return BitP{a.Mul(b)}
		case token.OR:
			return BitP{a.Add(b).Sub(a.Mul(b))}
		case token.XOR:
			return BitP{a.Add(b).Sub(a.Mul(b).Scale(two))}
		case token.EQL:
			return BitP{d.R.Int(1).Sub(a.Add(b).Sub(a.Mul(b).Scale(two)))}
		case token.NEQ:
			return BitP{a.Add(b).Sub(a.Mul(b).Scale(two))}
		}
	}
	in.Undecided(pos, "E9 has no transfer function for %v %s %v", x, op, y)
	return nil
}

func byteAndShift(x, y Val) (ByteS, ShBit, bool) {
	if b, ok := x.(ByteS); ok {
		if s, ok := y.(ShBit); ok {
			return b, s, true
		}
	}
	if b, ok := y.(ByteS); ok {
		if s, ok := x.(ShBit); ok {
			return b, s, true
		}
	}
	if b, ok := x.(Int); ok {
		if s, ok := y.(ShBit); ok {
			return ByteS{Base: int(b.V.Int64())}, s, true
		}
	}
	return ByteS{}, ShBit{}, false
}

func (d *FieldDom) UnOp(in *Interp, op token.Token, x Val, xt types.Type, pos ssa.Instruction) Val {
	if b, ok := x.(BitP); ok && op == token.NOT {
		return BitP{d.R.Int(1).Sub(b.P)}
	}
	in.Undecided(pos, "E9 has no transfer function for %s %v", op, x)
	return nil
}

func (d *FieldDom) Convert(in *Interp, x Val, from, to types.Type, pos ssa.Instruction) Val {
	switch x.(type) {
	case BitP, ShBit, ByteS:
		return x // {0,1} terms and single bytes survive integer conversions unchanged
	}
	in.Undecided(pos, "E9 cannot convert %v from %s to %s", x, from, to)
	return nil
}

func (d *FieldDom) Branch(in *Interp, cond Val, site *ssa.If) (bool, bool, bool) {
	b, ok := cond.(BitP)
	if !ok {
		return false, false, false
	}
	if c, ok := b.P.IsConst(); ok {
		return c.Sign() != 0, true, false
	}
	// a condition already decided on this path (or its complement) is not a new fork
	for _, l := range d.Path {
		if l.P.Equal(b.P) {
			return l.Truth, true, false
		}
		if s := l.P.Add(b.P); s != nil {
			if c, ok := s.IsConst(); ok && c.Cmp(big.NewInt(1)) == 0 {
				return !l.Truth, true, false
			}
		}
	}
	return false, false, true
}

func (d *FieldDom) Assume(in *Interp, cond Val, truth bool, site *ssa.If) {
	b := cond.(BitP)
	d.Path = append(d.Path, PathLit{P: b.P, Truth: truth})
	in.PathCond = append(in.PathCond, fmt.Sprintf("[%s] = %v", b.P.String(), truth))
}

// ---- primitives -----------------------------------------------------------------------

func (d *FieldDom) loadFE(in *Interp, site ssa.Instruction, p Val) *FE {
	v := in.Load(site, p)
	f, ok := v.(*FE)
	if !ok {
		in.Undecided(site, "expected a field element, found %T", v)
	}
	return f
}

// GlobalValue gives package field's variables their literal values.
func (d *FieldDom) GlobalValue(in *Interp, g *ssa.Global) (Val, bool) {
	if g.Pkg != in.P.Field {
		return nil, false
	}
	lit, ok := ElementLiterals(in.P)[g.Name()]
	if !ok {
		return nil, false
	}
	obj := in.NewObject("*"+g.Name(), g.Type().(*types.Pointer).Elem().(*types.Pointer).Elem(), d.Const(lit))
	return Ptr{Obj: obj}, true
}

func (d *FieldDom) Call(in *Interp, site ssa.Instruction, fn *ssa.Function, args []Val) ([]Val, bool) {
	if fn.Pkg == in.P.Field && fn.Synthetic != "" && fn.Name() == "init" {
		return nil, true
	}
	if fn.Pkg == in.P.Root && in.P.Guards().IsExactGuard(fn) {
		// the guard (in whatever shape it is written) inspects the limb representation; symbolic inputs stand for
		// initialised points (that uninitialised ones panic is C15's rule)
		return nil, true
	}
	if fn.Pkg == in.P.Root {
		if v, ok := in.P.Guards().PredOnInitialised(fn); ok {
			// a predicate of the guard ("was this Point ever set"): its value on initialised points
			if types.Identical(fn.Signature.Results().At(0).Type().Underlying(), types.Typ[types.Bool]) {
				return []Val{Bool{B: v != 0}}, true
			}
		}
	}
	if fn.String() == "crypto/subtle.ConstantTimeCompare" && len(args) == 2 {
		// canonical encodings are equal exactly when the elements are
		a, okA := d.encodedElement(in, site, args[0])
		b, okB := d.encodedElement(in, site, args[1])
		if okA && okB {
			return []Val{BitP{d.Eq(a, b)}}, true
		}
		return nil, false
	}
	if fn.Pkg != in.P.Field {
		return nil, false
	}
	name := load.ShortName(fn)
	if d.Descend[name] {
		return nil, false
	}
	recv := fn.Signature.Recv()
	if recv == nil || !strings.HasPrefix(name, "field.(*Element).") {
		// a helper of package field that is not an Element method the domain knows: interpret its body; it is
		// meaningful here as long as it only combines Elements through their methods (touching limbs is undecided)
		if len(fn.Blocks) == 0 {
			in.Undecided(site, "call of %s (no body) from element mode", name)
		}
		return nil, false
	}
	get := func(i int) *FE { return d.loadFE(in, site, args[i]) }
	put := func(v *FE) []Val { in.Store(site, args[0], v); return []Val{args[0]} }
	switch fn.Name() {
	case "Zero":
		return put(d.Const(big.NewInt(0))), true
	case "One":
		return put(d.Const(big.NewInt(1))), true
	case "Set":
		return put(get(1)), true
	case "Add":
		return put(d.Add(get(1), get(2))), true
	case "Subtract":
		return put(d.Sub(get(1), get(2))), true
	case "Negate":
		return put(d.Neg(get(1))), true
	case "Multiply":
		return put(d.Mul(get(1), get(2))), true
	case "Square":
		a := get(1)
		return put(d.Mul(a, a)), true
	case "Invert":
		return put(d.Inv(get(1))), true
	case "Absolute":
		return put(d.Abs(get(1))), true
	case "Pow22523":
		a := get(1)
		if c, ok := d.IsConst(a); ok {
			e := new(big.Int).Sub(P25519, big.NewInt(5))
			e.Rsh(e, 3)
			return put(d.Const(new(big.Int).Exp(c, e, P25519))), true
		}
		return put(d.Fn("pow22523", a)), true
	case "Mult32":
		y, ok := args[2].(Int)
		if !ok {
			in.Undecided(site, "Mult32 by a non-constant")
		}
		return put(d.Mul(get(1), d.Const(y.V))), true
	case "Select":
		return put(d.Sel(d.bitOf(in, args[3], site), get(1), get(2))), true
	case "Swap":
		c := d.bitOf(in, args[2], site)
		v, u := get(0), get(1)
		in.Store(site, args[0], d.Sel(c, u, v))
		in.Store(site, args[1], d.Sel(c, v, u))
		return nil, true
	case "Equal":
		return []Val{BitP{d.Eq(get(0), get(1))}}, true
	case "IsNegative":
		return []Val{BitP{d.IsNeg(get(0))}}, true
	case "SqrtRatio":
		u, v := get(1), get(2)
		cu, okU := d.IsConst(u)
		cv, okV := d.IsConst(v)
		if okU && okV {
			r, ok := SqrtRatioM1(cu, cv)
			in.Store(site, args[0], d.Const(r))
			return []Val{args[0], MkInt(int64(ok))}, true
		}
		in.Store(site, args[0], d.Fn("sqrtRatio.r", u, v))
		return []Val{args[0], BitP{d.BitFn("sqrtRatio.ok", u, v)}}, true
	case "SetBytes":
		el := in.SliceElems(site, args[1])
		if len(el) != 32 {
			return []Val{Nil{}, ErrV{"edwards25519: invalid field element input size"}}, true
		}
		allInt := true
		src := ""
		for i, e := range el {
			switch b := e.(type) {
			case Int:
			case ByteS:
				allInt = false
				if b.In == "" || b.Idx != i || b.Or != "" || (src != "" && src != b.In) {
					in.Undecided(site, "SetBytes of bytes that are not the unmodified input slice")
				}
				src = b.In
			default:
				in.Undecided(site, "SetBytes of %T", e)
			}
		}
		if allInt {
			v := new(big.Int)
			for i := 31; i >= 0; i-- {
				v.Lsh(v, 8)
				v.Or(v, el[i].(Int).V)
			}
			v.SetBit(v, 255, 0)
			v.Mod(v, P25519)
			return append(put(d.Const(v)), Nil{}), true
		}
		if src == "" {
			in.Undecided(site, "SetBytes of a mix of concrete and symbolic bytes")
		}
		f := d.Var("dec255(" + src + ")")
		d.inputs[src] = f
		return append(put(f), Nil{}), true
	case "Bytes":
		a := get(0)
		arr := &Agg{Elems: make([]Val, 32)}
		if c, ok := d.IsConst(a); ok {
			for i := 0; i < 32; i++ {
				b := new(big.Int).Rsh(c, uint(8*i))
				arr.Elems[i] = Int{b.And(b, big.NewInt(255))}
			}
		} else {
			name := d.fnAtomName("enc", a)
			d.encOf[name] = a
			for i := 0; i < 32; i++ {
				arr.Elems[i] = ByteS{Enc: name, Idx: i}
			}
		}
		u8 := types.Typ[types.Uint8]
		obj := in.NewObject("Bytes()", types.NewArray(u8, 32), arr)
		return []Val{SliceV{Obj: obj, Len: 32, Cap: 32}}, true
	}
	if len(fn.Blocks) > 0 {
		// an Element method the domain has no transfer function for (an unexported helper, or a convenience method
		// added to the package's API such as Double or IsZero): interpret its body — it is meaningful here as long
		// as it only combines Elements through the methods the domain knows (touching limbs stays undecided)
		return nil, false
	}
	in.Undecided(site, "field primitive %s has no algebraic transfer function in E9", name)
	return nil, false
}

// SqrtRatioM1 is the RFC 9496 §4.2 specification on concrete values.
func SqrtRatioM1(u, v *big.Int) (*big.Int, int) {
	p := P25519
	mul := func(a, b *big.Int) *big.Int { return new(big.Int).Mod(new(big.Int).Mul(a, b), p) }
	neg := func(a *big.Int) *big.Int { return new(big.Int).Mod(new(big.Int).Neg(a), p) }
	sqrtM1 := SqrtM1Spec()
	v3 := mul(mul(v, v), v)
	v7 := mul(mul(v3, v3), v)
	e := new(big.Int).Sub(p, big.NewInt(5))
	e.Rsh(e, 3)
	r := mul(mul(u, v3), new(big.Int).Exp(mul(u, v7), e, p))
	check := mul(v, mul(r, r))
	correct := check.Cmp(new(big.Int).Mod(u, p)) == 0
	flipped := check.Cmp(neg(u)) == 0
	flippedI := check.Cmp(mul(neg(u), sqrtM1)) == 0
	if flipped || flippedI {
		r = mul(r, sqrtM1)
	}
	if r.Bit(0) == 1 {
		r = neg(r)
	}
	ok := 0
	if correct || flipped {
		ok = 1
	}
	return r, ok
}

// SqrtM1Spec is 2^((p-1)/4) mod p, computed independently of the source literal.
func SqrtM1Spec() *big.Int {
	e := new(big.Int).Sub(P25519, big.NewInt(1))
	e.Rsh(e, 2)
	return new(big.Int).Exp(big.NewInt(2), e, P25519)
}

// DSpec is -121665/121666 mod p.
func DSpec() *big.Int {
	inv := new(big.Int).ModInverse(big.NewInt(121666), P25519)
	d := new(big.Int).Mul(big.NewInt(-121665), inv)
	return d.Mod(d, P25519)
}

// ElementLiterals evaluates the &Element{l0,…,l4} literals assigned to package
// field's variables by its initialiser: name -> value mod p.
func ElementLiterals(p *load.Program) map[string]*big.Int {
	out := map[string]*big.Int{}
	init := p.Field.Func("init")
	if init == nil {
		return out
	}
	limbs := map[ssa.Value][5]*big.Int{}
	for _, b := range init.Blocks {
		for _, ins := range b.Instrs {
			st, ok := ins.(*ssa.Store)
			if !ok {
				continue
			}
			if fa, ok := st.Addr.(*ssa.FieldAddr); ok {
				if c, ok := st.Val.(*ssa.Const); ok && c.Value != nil {
					l := limbs[fa.X]
					v, _ := new(big.Int).SetString(c.Value.ExactString(), 10)
					if fa.Field < 5 {
						l[fa.Field] = v
					}
					limbs[fa.X] = l
				}
			}
		}
	}
	for _, b := range init.Blocks {
		for _, ins := range b.Instrs {
			st, ok := ins.(*ssa.Store)
			if !ok {
				continue
			}
			g, ok := st.Addr.(*ssa.Global)
			if !ok {
				continue
			}
			l, ok := limbs[st.Val]
			if !ok {
				if _, isAlloc := st.Val.(*ssa.Alloc); isAlloc {
					l = [5]*big.Int{}
				} else {
					continue
				}
			}
			v := new(big.Int)
			for k := 4; k >= 0; k-- {
				v.Lsh(v, 51)
				if l[k] != nil {
					v.Add(v, l[k])
				}
			}
			out[g.Name()] = v.Mod(v, P25519)
		}
	}
	return out
}

// ---- helpers for drivers ----------------------------------------------------------------

// FieldIndex resolves a (canonical) field name of a struct type; -1 if there is none.
func FieldIndex(t types.Type, name string) int { return load.FieldIndex(t, name) }

// StructVal builds an aggregate for a struct type from named field values.
func (in *Interp) StructVal(t types.Type, fields map[string]Val) Val {
	a := in.Zero(t).(*Agg)
	for name, v := range fields {
		path := load.FieldSteps(t, name)
		cur := a
		for k, i := range path {
			if k == len(path)-1 {
				cur.Elems[i] = v
				break
			}
			next, ok := cur.Elems[i].(*Agg)
			if !ok {
				break
			}
			cur = next
		}
	}
	return a
}

// FieldOf reads a named field from a struct object (looking through embedded structs).
func (in *Interp) FieldOf(o *Object, name string) Val {
	var cur Val = o.Val
	path := load.FieldSteps(o.Type, name)
	if path == nil {
		return nil
	}
	for _, i := range path {
		a, ok := cur.(*Agg)
		if !ok || i >= len(a.Elems) {
			return nil
		}
		cur = a.Elems[i]
	}
	return cur
}

func (d *FieldDom) PathString() string {
	var ls []string
	for _, l := range d.Path {
		ls = append(ls, fmt.Sprintf("[%s]=%v", l.P.String(), l.Truth))
	}
	sort.Strings(ls)
	return strings.Join(ls, " ∧ ")
}
