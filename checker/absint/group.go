package absint

import (
	"fmt"
	"go/token"
	"go/types"
	"math/big"
	"sort"
	"strings"

	"golang.org/x/tools/go/ssa"

	"verif/checker/load"
	"verif/checker/poly"
)

// ---- group-expression domain (E10) ---------------------------------------------------
//
// Values of the five point types are elements of the free abelian group on
// input-point symbols with coefficients that are integer polynomials in digit
// symbols: Σ c_b·b. The group-law primitives (P1xP1 Add/Sub/AddAffine/SubAffine/
// Double, the conversions, the Zero constructors) get their algebraic meaning —
// what C02/C12 establish for them — and the scalar-multiplication drivers are
// interpreted on top with concrete loop counts.

type GV struct {
	Invalid bool // the zero value of a point type: not a group element
	Terms   map[string]*poly.Poly
	// Ones: (only on an Invalid value) the coordinates of a zero-valued object that have since been set with
	// Element.One(), by field index: the object is being built coordinate by coordinate
	Ones map[int]bool
}

// CoordPtr points at one coordinate of a point-like object the group domain owns.
type CoordPtr struct {
	P     Ptr
	Field int
}

// identityOnes: per coordinate system, the coordinates that are 1 in the neutral element (all others are 0).
var identityOnes = map[string][]string{
	"projP2":       {"Y", "Z"},
	"projCached":   {"YplusX", "YminusX", "Z"},
	"affineCached": {"YplusX", "YminusX"},
	"Point":        {"y", "z"},
}

// FieldAddrAtom: the address of a coordinate of a point-like object. The only thing the domain lets code do
// with it is store the constants 0 and 1 (Element.Zero / Element.One) into a zero-valued object.
func (d *GroupDom) FieldAddrAtom(in *Interp, site ssa.Instruction, p Ptr, field int) (Val, bool) {
	return CoordPtr{P: p, Field: field}, true
}

// DigitV is a small signed integer given as a polynomial in digit symbols.
type DigitV struct{ P *poly.Poly }

// DCmp is a comparison of a digit with zero (data-dependent control in the VarTime drivers).
type DCmp struct {
	P  *poly.Poly
	Op token.Token
}

type digitAssume struct {
	key   string
	op    token.Token
	truth bool
	v     string // the single digit variable, if the digit is ±one variable
}

type GroupDom struct {
	R      *poly.Ring
	assume []digitAssume
	Notes  []string
	// DigitBound: assumed range of signed radix-16 digits (established separately)
	Prims map[string]bool
	// NafWidth: digit-name prefix ("a.n") -> width the recoding was asked for
	NafWidth map[string]int
	// WidthChecks counts selector calls whose table size was checked against the digit width
	WidthChecks int
}

func NewGroupDom() *GroupDom { return &GroupDom{R: poly.NewRing(nil), NafWidth: map[string]int{}} }

func (d *GroupDom) Name() string { return "group expressions (free abelian group over point symbols)" }

var groupAtoms = map[string]bool{"Point": true, "projP2": true, "projP1xP1": true, "projCached": true, "affineCached": true}

func (d *GroupDom) IsAtom(t types.Type) bool {
	n, ok := t.(*types.Named)
	return ok && n.Obj().Pkg() != nil && n.Obj().Pkg().Path() == load.RootPath && groupAtoms[n.Obj().Name()]
}
func (d *GroupDom) ZeroAtom(t types.Type) Val { return &GV{Invalid: true} }

func (d *GroupDom) Zero() *GV { return &GV{Terms: map[string]*poly.Poly{}} }
func (d *GroupDom) Sym(name string) *GV {
	return &GV{Terms: map[string]*poly.Poly{name: d.R.Int(1)}}
}
func (d *GroupDom) Digit(name string) DigitV { return DigitV{P: d.R.Var(name)} }

func (d *GroupDom) add(a, b *GV, sign int64) *GV {
	r := d.Zero()
	for k, c := range a.Terms {
		r.Terms[k] = c
	}
	for k, c := range b.Terms {
		cc := c
		if sign < 0 {
			cc = c.Neg()
		}
		if old, ok := r.Terms[k]; ok {
			cc = old.Add(cc)
		}
		if cc.IsZero() {
			delete(r.Terms, k)
		} else {
			r.Terms[k] = cc
		}
	}
	return r
}

func (d *GroupDom) scale(a *GV, c *poly.Poly) *GV {
	r := d.Zero()
	for k, v := range a.Terms {
		p := v.Mul(c)
		if !p.IsZero() {
			r.Terms[k] = p
		}
	}
	return r
}

func (g *GV) Equal(o *GV) bool {
	if g.Invalid || o.Invalid || len(g.Terms) != len(o.Terms) {
		return false
	}
	for k, c := range g.Terms {
		oc, ok := o.Terms[k]
		if !ok || !c.Equal(oc) {
			return false
		}
	}
	return true
}

func (g *GV) String() string {
	if g.Invalid {
		return "<uninitialised>"
	}
	if len(g.Terms) == 0 {
		return "O"
	}
	var ks []string
	for k := range g.Terms {
		ks = append(ks, k)
	}
	sort.Strings(ks)
	var s []string
	for _, k := range ks {
		s = append(s, "["+g.Terms[k].String()+"]·"+k)
	}
	return strings.Join(s, " + ")
}

func (d *GroupDom) BinOp(in *Interp, op token.Token, x, y Val, xt types.Type, pos ssa.Instruction) Val {
	if dv, ok := x.(DigitV); ok {
		if c, ok := y.(Int); ok && c.V.Sign() == 0 {
			switch op {
			case token.GTR, token.LSS, token.NEQ, token.EQL, token.GEQ, token.LEQ:
				return DCmp{P: dv.P, Op: op}
			}
		}
	}
	if dv, ok := x.(DigitV); ok && op == token.QUO {
		if c, ok := y.(Int); ok && c.V.Cmp(big.NewInt(2)) == 0 {
			return DigitHalf{P: dv.P} // ⌊x/2⌋: the table index of an odd positive digit x
		}
	}
	in.Undecided(pos, "group domain: %T %s %T (a data-dependent operation on digits or points is outside the recognised primitives)", x, op, y)
	return nil
}

// DigitHalf is ⌊x/2⌋ for a digit x: the index of x·Q in a table of odd multiples.
type DigitHalf struct{ P *poly.Poly }

// nafEntry is the contract of a variable-time lookup in a table of odd multiples:
// for an odd digit 0 < x < 2^(w−1), entry ⌊x/2⌋ is x·(entry 0), provided the table
// holds (2i+1)·(entry 0) and has at least 2^(w−2) entries.
func (d *GroupDom) nafEntry(in *Interp, site ssa.Instruction, arr *Agg, p *poly.Poly, name string) *GV {
	for _, v := range p.Vars() {
		w := 0
		for pre, pw := range d.NafWidth {
			if strings.HasPrefix(v, pre) {
				w = pw
			}
		}
		if w == 0 {
			in.Undecided(site, "%s indexed by %s, which is not a NAF digit of known width", name, v)
		}
		if need := 1 << uint(w-2); len(arr.Elems) < need {
			in.Undecided(site, "%s has %d entries but is indexed by width-%d NAF digits (odd, up to %d): it needs %d", name, len(arr.Elems), w, (1<<uint(w-1))-1, need)
		}
		d.WidthChecks++
	}
	base, ok := arr.Elems[0].(*GV)
	if !ok || base.Invalid {
		in.Undecided(site, "%s on a table that was never built", name)
	}
	for i, e := range arr.Elems {
		g, ok := e.(*GV)
		if !ok || !g.Equal(d.scale(base, d.R.Int(int64(2*i+1)))) {
			in.Undecided(site, "%s: table entry %d is %v, not %d·(entry 0)", name, i, e, 2*i+1)
		}
	}
	return d.scale(base, p)
}

// IndexAddr: &table[⌊x/2⌋] for a NAF digit x designates x·(entry 0) (read-only use).
func (d *GroupDom) IndexAddr(in *Interp, site ssa.Instruction, base Val, idx Val) (Val, bool) {
	dh, ok := idx.(DigitHalf)
	if !ok {
		return nil, false
	}
	var arr *Agg
	switch b := base.(type) {
	case Ptr:
		arr, _ = in.Load(site, b).(*Agg)
	}
	if arr == nil || len(arr.Elems) == 0 {
		return nil, false
	}
	g := d.nafEntry(in, site, arr, dh.P, "table lookup")
	et := types.Type(nil)
	if first, ok := arr.Elems[0].(*GV); ok {
		_ = first
	}
	obj := &Object{Name: "table entry", Type: et, Val: g}
	in.nextObj++
	obj.ID = in.nextObj
	return Ptr{Obj: obj}, true
}
func (d *GroupDom) UnOp(in *Interp, op token.Token, x Val, xt types.Type, pos ssa.Instruction) Val {
	if dv, ok := x.(DigitV); ok && op == token.SUB {
		return DigitV{P: dv.P.Neg()}
	}
	in.Undecided(pos, "group domain: unary %s on %T", op, x)
	return nil
}
func (d *GroupDom) Convert(in *Interp, x Val, from, to types.Type, pos ssa.Instruction) Val {
	in.Undecided(pos, "group domain: conversion of %T", x)
	return nil
}
func (d *GroupDom) Branch(in *Interp, cond Val, site *ssa.If) (bool, bool, bool) {
	return false, false, false
}
func (d *GroupDom) Assume(in *Interp, cond Val, truth bool, site *ssa.If) {}

func (d *GroupDom) GlobalValue(in *Interp, g *ssa.Global) (Val, bool) {
	if g.Pkg != in.P.Root {
		return nil, false
	}
	mk := func(v *GV) (Val, bool) {
		t := g.Type().(*types.Pointer).Elem().(*types.Pointer).Elem()
		return Ptr{Obj: in.NewObject("*"+g.Name(), t, v)}, true
	}
	switch g {
	case in.P.PointConstant("identity"):
		return mk(d.Zero())
	case in.P.PointConstant("generator"):
		return mk(d.Sym("B"))
	}
	return nil, false
}

func (d *GroupDom) gv(in *Interp, site ssa.Instruction, p Val, who string) *GV {
	v := in.Load(site, p)
	g, ok := v.(*GV)
	if !ok {
		in.Undecided(site, "%s: operand is %T, not a point", who, v)
	}
	var t types.Type
	if pp, ok := p.(Ptr); ok && len(pp.Path) == 0 {
		t = pp.Obj.Type
	}
	return d.asGroup(in, site, g, t, who)
}

// asGroup turns the content of a point-like object of type t into a group element.
func (d *GroupDom) asGroup(in *Interp, site ssa.Instruction, g *GV, t types.Type, who string) *GV {
	if g.Invalid && len(g.Ones) > 0 {
		// built as "zero value + One() on some coordinates": the neutral element iff those are exactly its ones
		if pt, ok := t.(*types.Pointer); ok {
			t = pt.Elem()
		}
		if n, ok := t.(*types.Named); ok {
			want := identityOnes[n.Obj().Name()]
			match := len(want) > 0 && len(want) == len(g.Ones)
			for _, w := range want {
				if i := load.FieldIndex(t, w); i < 0 || !g.Ones[i] {
					match = false
				}
			}
			if match {
				return d.Zero()
			}
		}
		in.Undecided(site, "%s consumes a point object whose coordinates were set one by one to something that is not the neutral element", who)
	}
	if g.Invalid {
		in.Undecided(site, "%s consumes a point object that was never written (all-zero coordinates)", who)
	}
	return g
}

func (d *GroupDom) Call(in *Interp, site ssa.Instruction, fn *ssa.Function, args []Val) ([]Val, bool) {
	if fn.Pkg == in.P.Field && len(args) == 1 {
		if cp, ok := args[0].(CoordPtr); ok {
			name := load.ShortName(fn)
			if name == "field.(*Element).One" || name == "field.(*Element).Zero" {
				g, isG := in.Load(site, cp.P).(*GV)
				if !isG || !g.Invalid {
					in.Undecided(site, "%s on a coordinate of a point that already holds a group element", name)
				}
				n := &GV{Invalid: true, Ones: map[int]bool{}}
				for k := range g.Ones {
					n.Ones[k] = true
				}
				if name == "field.(*Element).One" {
					n.Ones[cp.Field] = true
				} else {
					delete(n.Ones, cp.Field)
				}
				in.Store(site, cp.P, n)
				return []Val{cp}, true
			}
			in.Undecided(site, "%s on a coordinate of a point (the group domain does not look inside points)", name)
		}
	}
	if fn.Pkg == in.P.Field {
		for _, a := range args {
			if _, isC := a.(CoordPtr); isC {
				who := "?"
				if len(in.Stack) > 0 {
					who = load.ShortName(in.Stack[len(in.Stack)-1])
				}
				in.Undecided(site, "%s does coordinate arithmetic on a point (%s) and is not one of the group operations, nor recognised as one by evaluation in the field-expression domain", who, load.ShortName(fn))
			}
		}
	}
	if fn.Pkg != in.P.Root {
		return nil, false
	}
	name := load.ShortName(fn)
	put := func(v *GV) []Val { in.Store(site, args[0], v); return []Val{args[0]} }
	if in.P.Guards().IsExactGuard(fn) {
		// the initialisation guard in whatever shape it is written (load/guardsem.go)
		for i, a := range args {
			var elems []Val
			if load.IsPointSlice(fn.Params[i].Type()) {
				elems = in.SliceElems(site, a)
			} else {
				elems = []Val{a}
			}
			for _, e := range elems {
				g, ok := in.Load(site, e).(*GV)
				if ok && g.Invalid {
					in.Undecided(site, "%s would panic: uninitialised point", name)
				}
			}
		}
		return nil, true
	}
	switch name {
	case "(*projP2).Zero", "(*projCached).Zero", "(*affineCached).Zero":
		return put(d.Zero()), true
	case "(*projP2).FromP1xP1", "(*projP2).FromP3", "(*Point).fromP1xP1", "(*Point).fromP2", "(*projCached).FromP3", "(*affineCached).FromP3", "(*Point).Set":
		return put(d.gv(in, site, args[1], name)), true
	case "(*Point).Add":
		// the exported group operations are the group law for every aliasing pattern (C02's E9 obligations)
		return put(d.add(d.gv(in, site, args[1], name), d.gv(in, site, args[2], name), 1)), true
	case "(*Point).Subtract":
		return put(d.add(d.gv(in, site, args[1], name), d.gv(in, site, args[2], name), -1)), true
	case "(*projP1xP1).Add", "(*projP1xP1).AddAffine":
		return put(d.add(d.gv(in, site, args[1], name), d.gv(in, site, args[2], name), 1)), true
	case "(*projP1xP1).Sub", "(*projP1xP1).SubAffine":
		return put(d.add(d.gv(in, site, args[1], name), d.gv(in, site, args[2], name), -1)), true
	case "(*projP1xP1).Double":
		a := d.gv(in, site, args[1], name)
		return put(d.add(a, a, 1)), true
	case "(*Point).Negate":
		return put(d.scale(d.gv(in, site, args[1], name), d.R.Int(-1))), true
	case "(*projCached).Select", "(*affineCached).Select":
		c, ok := args[3].(Int)
		if !ok {
			in.Undecided(site, "%s with a symbolic condition", name)
		}
		if c.V.Sign() != 0 {
			return put(d.gv(in, site, args[1], name)), true
		}
		return put(d.gv(in, site, args[2], name)), true
	case "(*projCached).CondNeg", "(*affineCached).CondNeg":
		c, ok := args[1].(Int)
		if !ok {
			in.Undecided(site, "%s with a symbolic condition", name)
		}
		g := d.gv(in, site, args[0], name)
		if c.V.Sign() != 0 {
			g = d.scale(g, d.R.Int(-1))
		}
		return put(g), true
	case "(*Scalar).signedRadix16":
		ptr, _ := args[0].(Ptr)
		nm := "k"
		if ptr.Obj != nil {
			nm = ptr.Obj.Name
		}
		a := &Agg{Elems: make([]Val, 64)}
		for i := range a.Elems {
			a.Elems[i] = d.Digit(fmt.Sprintf("%s.d%d", nm, i))
		}
		if fn.Signature.Results().Len() == 0 {
			// the digits are written through an out-parameter instead of being returned
			for _, arg := range args[1:] {
				if op, ok := arg.(Ptr); ok {
					in.Store(site, op, a)
					return nil, true
				}
			}
			in.Undecided(site, "signedRadix16 neither returns its digits nor has an array out-parameter")
		}
		return []Val{a}, true
	case "(*Scalar).nonAdjacentForm":
		ptr, _ := args[0].(Ptr)
		nm := "k"
		if ptr.Obj != nil {
			nm = ptr.Obj.Name
		}
		w, ok := args[1].(Int)
		if !ok || !w.V.IsInt64() || w.V.Int64() < 2 || w.V.Int64() > 8 {
			in.Undecided(site, "NAF recoding with a width that is not a constant in 2…8: %v", args[1])
		}
		d.NafWidth[nm+".n"] = int(w.V.Int64())
		a := &Agg{Elems: make([]Val, 256)}
		for i := range a.Elems {
			a.Elems[i] = d.Digit(fmt.Sprintf("%s.n%d", nm, i))
		}
		return []Val{a}, true
	case "(*nafLookupTable5).SelectInto", "(*nafLookupTable8).SelectInto":
		dv, isDigit := args[2].(DigitV)
		if !isDigit {
			return nil, false
		}
		// contract (SELECT/TABLE obligations): for odd 0 < x < 2^(w−1) the result is entry x/2 = x·points[0],
		// provided points[i] = (2i+1)·points[0]
		arr := tableArray(in.Load(site, args[0]))
		if arr == nil {
			in.Undecided(site, "%s: the table is not (a struct around) an array of entries", name)
		}
		in.Store(site, args[1], d.nafEntry(in, site, arr, dv.P, name))
		return nil, true
	case "(*projLookupTable).SelectInto", "(*affineLookupTable).SelectInto":
		dv, isDigit := args[2].(DigitV)
		if !isDigit {
			return nil, false // concrete digit: interpret the scan
		}
		// contract (established by the exhaustive 17-digit evaluation and the table-contents check):
		// for −8 ≤ x ≤ 8 the result is x·points[0], provided points[i] = (i+1)·points[0]
		arr := tableArray(in.Load(site, args[0]))
		if arr == nil || len(arr.Elems) == 0 {
			in.Undecided(site, "%s: the table is not (a struct around) an array of entries", name)
		}
		base, ok := arr.Elems[0].(*GV)
		if !ok || base.Invalid {
			in.Undecided(site, "%s on a table that was never built", name)
		}
		for i, e := range arr.Elems {
			g, ok := e.(*GV)
			if !ok || !g.Equal(d.scale(base, d.R.Int(int64(i+1)))) {
				in.Undecided(site, "%s: table entry %d is %v, not %d·(entry 0)", name, i, e, i+1)
			}
		}
		in.Store(site, args[1], d.scale(base, dv.P))
		return nil, true
	}
	// a helper the domain does not know by name: what it computes is decided once, by evaluation in the
	// field-expression domain (props/pointop.go)
	if PointOpHook != nil && len(fn.Blocks) > 0 {
		if op, ok := PointOpHook(in.P, fn); ok {
			res := d.Zero()
			for i, k := range op.Coeff {
				if k == 0 {
					continue
				}
				var g *GV
				switch a := args[i].(type) {
				case *GV:
					g = d.asGroup(in, site, a, fn.Params[i].Type(), name)
				default:
					g = d.gv(in, site, args[i], name)
				}
				res = d.add(res, d.scale(g, d.R.Int(int64(k))), 1)
			}
			switch {
			case op.OutParam0:
				in.Store(site, args[0], res)
				if op.ReturnsParam0 {
					return []Val{args[0]}, true
				}
				return nil, true
			case op.ReturnsValue:
				return []Val{res}, true
			}
		}
	}
	return nil, false
}

// PointOp: a function of the root package, recognised (props/pointop.go) as a group operation on its
// point-typed operands: result = Σ Coeff[i]·argument i.
type PointOp struct {
	Coeff         []int
	OutParam0     bool // the result is written through parameter 0
	ReturnsParam0 bool
	ReturnsValue  bool // the result is returned by value
}

func (op *PointOp) Describe(fn *ssa.Function) string {
	s := ""
	for i, k := range op.Coeff {
		if k == 0 {
			continue
		}
		s += fmt.Sprintf(" %+d·%s", k, fn.Params[i].Name())
	}
	if s == "" {
		return "neutral element"
	}
	return "result =" + s
}

// PointOpHook is set by the property drivers.
var PointOpHook func(p *load.Program, fn *ssa.Function) (*PointOp, bool)

// DigitSum is Σ name.d_i · 16^i.
func (d *GroupDom) DigitSum(name string, n int) *poly.Poly {
	s := d.R.Int(0)
	for i := 0; i < n; i++ {
		s = s.Add(d.R.Var(fmt.Sprintf("%s.d%d", name, i)).Scale(new(big.Int).Lsh(big.NewInt(1), uint(4*i))))
	}
	return s
}

// ---- joins at data-dependent branches on digits (MergeDomain) ------------------------

func (d *GroupDom) Mergeable(in *Interp, cond Val, site *ssa.If) bool {
	_, ok := cond.(DCmp)
	return ok
}

func (d *GroupDom) EnterSide(in *Interp, cond Val, truth bool) {
	c := cond.(DCmp)
	a := digitAssume{key: c.P.Key(), op: c.Op, truth: truth}
	if vs := c.P.Vars(); len(vs) == 1 && (c.P.Equal(d.R.Var(vs[0])) || c.P.Equal(d.R.Var(vs[0]).Neg())) {
		a.v = vs[0]
		if c.P.Equal(d.R.Var(vs[0]).Neg()) {
			// −x compared with 0: mirror the ordering
			switch c.Op {
			case token.GTR:
				a.op = token.LSS
			case token.LSS:
				a.op = token.GTR
			case token.GEQ:
				a.op = token.LEQ
			case token.LEQ:
				a.op = token.GEQ
			}
		}
	}
	d.assume = append(d.assume, a)
}

func (d *GroupDom) LeaveSide(in *Interp) { d.assume = d.assume[:len(d.assume)-1] }

// zeroDigits: digit variables forced to 0 by a set of assumptions.
func zeroDigits(as []digitAssume) map[string]bool {
	type st struct{ notPos, notNeg bool }
	m := map[string]*st{}
	z := map[string]bool{}
	for _, a := range as {
		if a.v == "" {
			continue
		}
		s := m[a.v]
		if s == nil {
			s = &st{}
			m[a.v] = s
		}
		switch {
		case a.op == token.EQL && a.truth, a.op == token.NEQ && !a.truth:
			z[a.v] = true
		case a.op == token.GTR && !a.truth, a.op == token.LEQ && a.truth:
			s.notPos = true
		case a.op == token.LSS && !a.truth, a.op == token.GEQ && a.truth:
			s.notNeg = true
		}
		if s.notPos && s.notNeg {
			z[a.v] = true
		}
	}
	return z
}

func (d *GroupDom) substZero(g *GV, zero map[string]bool) *GV {
	if g.Invalid || len(zero) == 0 {
		return g
	}
	r := d.Zero()
	for k, c := range g.Terms {
		p := c.WithoutVars(zero)
		if !p.IsZero() {
			r.Terms[k] = p
		}
	}
	return r
}

func (d *GroupDom) JoinAtoms(in *Interp, cond Val, t, f Val) Val {
	c, _ := cond.(DCmp)
	mk := func(truth bool) map[string]bool {
		as := append([]digitAssume{}, d.assume...)
		if c.P != nil {
			d.EnterSide(in, cond, truth)
			as = append(as, d.assume[len(d.assume)-1])
			d.LeaveSide(in)
		}
		return zeroDigits(as)
	}
	zt, zf := mk(true), mk(false)
	switch x := t.(type) {
	case *GV:
		y, ok := f.(*GV)
		if !ok {
			return &GV{Invalid: true}
		}
		switch {
		case x.Invalid || y.Invalid:
			return &GV{Invalid: true}
		case x.Equal(y):
			return x
		case d.substZero(x, zf).Equal(y):
			return x // the true-side value also describes the false side, where those digits are 0
		case d.substZero(y, zt).Equal(x):
			return y
		}
		return &GV{Invalid: true}
	case DigitV:
		if y, ok := f.(DigitV); ok && x.P.Equal(y.P) {
			return x
		}
	case DCmp:
		if y, ok := f.(DCmp); ok && x.Op == y.Op && x.P.Equal(y.P) {
			return x
		}
	}
	return Top{"joined values differ"}
}

// tableArray: the entry array of a loaded lookup table — the value itself (type T [n]entry) or the array-valued
// field of a struct around it (type T struct{ points [n]entry }).
func tableArray(tab Val) *Agg {
	top, ok := tab.(*Agg)
	if !ok || len(top.Elems) == 0 {
		return nil
	}
	if _, entries := top.Elems[0].(*Agg); !entries {
		return top // elements are entries already
	}
	for _, e := range top.Elems {
		if a, ok := e.(*Agg); ok {
			return a
		}
	}
	return nil
}
