package absint

import (
	"fmt"
	"go/token"
	"go/types"
	"math/big"

	"golang.org/x/tools/go/ssa"

	"verif/checker/asm"
)

// runAsm interprets a straight-line assembly body in the limb domain.
func (d *LimbDom) runAsm(in *Interp, site ssa.Instruction, fn *ssa.Function, af *asm.Func, args []Val) {
	in.Stack = append(in.Stack, fn)
	defer func() { in.Stack = in.Stack[:len(in.Stack)-1]; in.PosOverride = "" }()
	regs := map[string]Val{}
	var cf Val = MkInt(0)
	u64 := types.Typ[types.Uint64]
	und := func(i asm.Inst, format string, a ...interface{}) {
		in.PosOverride = in.P.RelFile(i.File) + fmt.Sprintf(":%d", i.Line)
		in.Undecided(nil, "asm %q: %s", i.Text, fmt.Sprintf(format, a...))
	}
	frame := map[int64]Val{}
	mem := func(i asm.Inst, op asm.Operand) Ptr {
		p, ok := regs[op.Reg].(Ptr)
		if !ok {
			und(i, "memory operand through %s, which does not hold a pointer argument", op.Reg)
		}
		if op.Off%8 != 0 {
			und(i, "unaligned offset")
		}
		return Ptr{Obj: p.Obj, Path: append(append([]int{}, p.Path...), int(op.Off/8))}
	}
	read := func(i asm.Inst, op asm.Operand) Val {
		switch op.Kind {
		case asm.Reg:
			v, ok := regs[op.Reg]
			if !ok {
				und(i, "read of undefined register %s", op.Reg)
			}
			return v
		case asm.Imm:
			return Int{V: new(big.Int).SetUint64(op.Imm)}
		case asm.Mem:
			if op.Reg == "SP" {
				v, ok := frame[op.Off]
				if !ok {
					und(i, "read of a stack slot that has not been written")
				}
				return v
			}
			return in.Load(nil, mem(i, op))
		case asm.MemIdx:
			// base + index*scale + off (LEAQ): plain integer arithmetic
			b, okb := regs[op.Reg]
			x, okx := regs[op.Reg2]
			if !okb || !okx {
				und(i, "read of undefined register in %s", op.Text)
			}
			if _, isP := b.(Ptr); isP {
				und(i, "address arithmetic on a pointer")
			}
			if _, isP := x.(Ptr); isP {
				und(i, "address arithmetic on a pointer")
			}
			v := in.binop(nil, token.ADD, b, in.binop(nil, token.MUL, x, Int{V: new(big.Int).SetUint64(op.Imm)}, u64, u64), u64, u64)
			if op.Off != 0 {
				v = in.binop(nil, token.ADD, v, Int{V: big.NewInt(op.Off)}, u64, u64)
			}
			return v
		case asm.FP:
			idx := int(op.Off / 8)
			if idx >= len(args) {
				und(i, "argument offset outside the frame")
			}
			return args[idx]
		case asm.RegShift:
			v, ok := regs[op.Reg]
			if !ok {
				und(i, "read of undefined register %s", op.Reg)
			}
			tok := token.SHR
			if op.Shift == "<<" {
				tok = token.SHL
			}
			return in.binop(nil, tok, v, Int{V: new(big.Int).SetUint64(op.Imm)}, u64, u64)
		}
		und(i, "operand %s", op.Text)
		return nil
	}
	write := func(i asm.Inst, op asm.Operand, v Val) {
		switch op.Kind {
		case asm.Reg:
			regs[op.Reg] = v
		case asm.Mem:
			if op.Reg == "SP" {
				if op.Off%8 != 0 || op.Off < 0 || op.Off+8 > af.FrameSize {
					und(i, "stack slot outside the declared frame")
				}
				frame[op.Off] = v
				return
			}
			in.Store(nil, mem(i, op), v)
		default:
			und(i, "destination %s", op.Text)
		}
	}
	bin := func(tok token.Token, x, y Val) Val { return in.binop(nil, tok, x, y, u64, u64) }
	for _, i := range af.Insts {
		in.Steps++
		in.PosOverride = in.P.RelFile(i.File) + fmt.Sprintf(":%d", i.Line)
		n := len(i.Ops)
		switch i.Mnemonic {
		case "RET":
			return
		case "MOVQ", "MOVD":
			if n != 2 {
				und(i, "operand count")
			}
			write(i, i.Ops[1], read(i, i.Ops[0]))
		case "LEAQ":
			if n != 2 || i.Ops[0].Kind != asm.MemIdx {
				und(i, "LEAQ other than base+index*scale arithmetic")
			}
			write(i, i.Ops[1], read(i, i.Ops[0]))
		case "MULQ":
			hi, lo := d.Mul64(in, read(i, asm.Operand{Kind: asm.Reg, Reg: "AX"}), read(i, i.Ops[0]), nil)
			regs["DX"], regs["AX"] = hi, lo
		case "IMUL3Q":
			if n != 3 {
				und(i, "operand count")
			}
			write(i, i.Ops[2], bin(token.MUL, read(i, i.Ops[1]), read(i, i.Ops[0])))
		case "ADDQ":
			x, y := read(i, i.Ops[1]), read(i, i.Ops[0])
			hx, okx := x.(Half)
			hy, oky := y.(Half)
			if okx && oky && !hx.High && !hy.High {
				s, c := d.Add64(in, x, y, MkInt(0), nil)
				write(i, i.Ops[1], s)
				cf = c
			} else {
				write(i, i.Ops[1], bin(token.ADD, x, y))
				cf = MkInt(0) // no wrap: discharged by the obligation of the addition
			}
		case "ADCQ":
			s, c := d.Add64(in, read(i, i.Ops[1]), read(i, i.Ops[0]), cf, nil)
			write(i, i.Ops[1], s)
			cf = c
		case "ANDQ":
			write(i, i.Ops[1], bin(token.AND, read(i, i.Ops[1]), read(i, i.Ops[0])))
		case "SHRQ":
			if n != 2 {
				und(i, "operand count")
			}
			write(i, i.Ops[1], bin(token.SHR, read(i, i.Ops[1]), read(i, i.Ops[0])))
		case "SHLQ":
			switch n {
			case 2:
				write(i, i.Ops[1], bin(token.SHL, read(i, i.Ops[1]), read(i, i.Ops[0])))
			case 3:
				// SHLQ $k, lo, hi : hi = hi<<k | lo>>(64-k)
				k := i.Ops[0].Imm
				hi := bin(token.SHL, read(i, i.Ops[2]), read(i, i.Ops[0]))
				lo := bin(token.SHR, read(i, i.Ops[1]), Int{V: new(big.Int).SetUint64(64 - k)})
				write(i, i.Ops[2], bin(token.OR, hi, lo))
			default:
				und(i, "operand count")
			}
		// arm64
		case "LDP":
			if n != 2 || i.Ops[1].Kind != asm.RegPair {
				und(i, "operands")
			}
			p := mem(i, i.Ops[0])
			regs[i.Ops[1].Reg] = in.Load(nil, p)
			p2 := Ptr{Obj: p.Obj, Path: append(append([]int{}, p.Path[:len(p.Path)-1]...), p.Path[len(p.Path)-1]+1)}
			regs[i.Ops[1].Reg2] = in.Load(nil, p2)
		case "STP":
			if n != 2 || i.Ops[0].Kind != asm.RegPair {
				und(i, "operands")
			}
			p := mem(i, i.Ops[1])
			in.Store(nil, p, read(i, asm.Operand{Kind: asm.Reg, Reg: i.Ops[0].Reg}))
			p2 := Ptr{Obj: p.Obj, Path: append(append([]int{}, p.Path[:len(p.Path)-1]...), p.Path[len(p.Path)-1]+1)}
			in.Store(nil, p2, read(i, asm.Operand{Kind: asm.Reg, Reg: i.Ops[0].Reg2}))
		case "AND":
			if n != 3 {
				und(i, "operand count")
			}
			write(i, i.Ops[2], bin(token.AND, read(i, i.Ops[1]), read(i, i.Ops[0])))
		case "ADD":
			if n != 3 {
				und(i, "operand count")
			}
			write(i, i.Ops[2], bin(token.ADD, read(i, i.Ops[1]), read(i, i.Ops[0])))
		case "LSR":
			if n != 3 {
				und(i, "operand count")
			}
			write(i, i.Ops[2], bin(token.SHR, read(i, i.Ops[1]), read(i, i.Ops[0])))
		case "MADD":
			// MADD Rm, Ra, Rn, Rd : Rd = Ra + Rn*Rm
			if n != 4 {
				und(i, "operand count")
			}
			write(i, i.Ops[3], bin(token.ADD, read(i, i.Ops[1]), bin(token.MUL, read(i, i.Ops[2]), read(i, i.Ops[0]))))
		default:
			und(i, "mnemonic has no transfer function")
		}
	}
	und(asm.Inst{File: af.File, Line: af.Line, Text: af.Name}, "fell off the end without RET")
}
