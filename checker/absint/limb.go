package absint

import (
	"crypto/sha256"
	"fmt"
	"go/token"
	"go/types"
	"math/big"

	"golang.org/x/tools/go/ssa"

	"verif/checker/load"
	"verif/checker/poly"
)

// ---- E4 × E5: limb domain ---------------------------------------------------------
//
// An abstract unsigned machine word carries an interval over ℕ and, optionally,
// an integer polynomial over input-limb symbols (reduced product): machine
// arithmetic is read as integer arithmetic exactly where the interval shows
// that no wrap-around can occur; otherwise the obligation fails and the
// polynomial is dropped. 128-bit quantities built by bits.Mul64/Add64 (or
// MULQ/ADDQ/ADCQ) are tracked as Wide values whose two halves stay paired.

type LV struct {
	Lo, Hi  *big.Int
	P       *poly.Poly // nil = not tracked
	xorOf   [2]Val     // operands when the value was produced by XOR
	maskBit *poly.Poly // set when the word is 0 or all-ones: the selecting bit
	// selBit/selXor: the word is mask(selBit) & (selXor[0] ^ selXor[1]) — one half of the branch-free select
	// a ^ (mask & (a ^ b))
	selBit *poly.Poly
	selXor [2]Val
	// lowZero: the low lowZero bits of the word are known to be zero (it was shifted left by a constant)
	lowZero uint
}

type Wide struct {
	Lo, Hi *big.Int
	P      *poly.Poly
	id     int
}

type Half struct {
	W    *Wide
	High bool
}

type CarryV struct{ A, B *Wide }

type hArg struct {
	P *poly.Poly
	K uint
}

type HiShl struct {
	W *Wide
	K uint
}
type LoShr struct {
	W *Wide
	K uint
}

var (
	two64  = new(big.Int).Lsh(big.NewInt(1), 64)
	two128 = new(big.Int).Lsh(big.NewInt(1), 128)
	big0   = big.NewInt(0)
)

func pow2(k uint) *big.Int { return new(big.Int).Lsh(big.NewInt(1), k) }

type LimbDom struct {
	R         *poly.Ring // integer coefficients
	TrackPoly bool
	// Flat: 128-bit products and carry chains are not kept paired; every word is an
	// independent polynomial with explicit carry symbols (word-by-word Montgomery code)
	Flat     bool
	nextWide int
	sums     map[[2]int]*Wide
	hArgs    map[string]hArg // carry symbols: name -> (argument polynomial, shift)
	prog     *load.Program
	// Prims: in-repo functions given a summary instead of being interpreted
	Prims map[string]func(in *Interp, site ssa.Instruction, args []Val) []Val
	// SubLog: every bits.Sub64 whose borrow is symbolic (Flat mode): operands, incoming and outgoing borrow
	SubLog []SubRec
	// MulLog: every bits.Mul64 by a constant (Flat mode): the constant and the other operand (a 64-bit word)
	MulLog []MulRec
	// NoCmovPrim: interpret the body of fiatScalarCmovznzU64 instead of applying its contract (FIAT-CMOV checks it)
	NoCmovPrim bool
}

// MulRec is one 64×64 multiplication of a word (polynomial Other, at most OtherHi) by the constant Const.
type MulRec struct {
	Const   *big.Int
	Other   *poly.Poly
	OtherHi *big.Int
}

// SubRec is one word of a multi-word subtraction: Out = [X − Y − In < 0].
type SubRec struct{ X, Y, In, Out *poly.Poly }

// LBool is a boolean given as a {0,1}-valued polynomial (true = 1).
type LBool struct{ P *poly.Poly }

// BorrowChain follows the borrow symbol out backwards through the log: if it is
// the final borrow of a complete multi-word subtraction X − Y (the chain starts
// with an incoming borrow of 0 and each word's incoming borrow is the previous
// word's outgoing one), it returns X = Σ x_i·2^(64i) and Y likewise; then
// out = [X < Y] (schoolbook subtraction).
func (d *LimbDom) BorrowChain(out *poly.Poly) (X, Y *poly.Poly, words int, ok bool) {
	chain, ok := d.BorrowChainRecs(out)
	if !ok {
		return nil, nil, 0, false
	}
	X, Y = d.R.Int(0), d.R.Int(0)
	for i, r := range chain {
		w := new(big.Int).Lsh(big.NewInt(1), uint(64*i))
		X = X.Add(r.X.Scale(w))
		Y = Y.Add(r.Y.Scale(w))
	}
	return X, Y, len(chain), true
}

// BorrowChainRecs returns the words of the chain (least significant first). Each word is looked for strictly
// before the one it feeds (a top word 0 − 0 − b has the same outgoing borrow b as the word below it).
func (d *LimbDom) BorrowChainRecs(out *poly.Poly) ([]SubRec, bool) {
	var chain []SubRec
	cur := out
	from := len(d.SubLog) - 1
	for steps := 0; steps < 64; steps++ {
		var rec *SubRec
		for i := from; i >= 0; i-- {
			if d.SubLog[i].Out.Equal(cur) {
				rec = &d.SubLog[i]
				from = i - 1
				break
			}
		}
		if rec == nil {
			return nil, false
		}
		chain = append([]SubRec{*rec}, chain...)
		if rec.In.IsZero() {
			return chain, true
		}
		cur = rec.In
	}
	return nil, false
}

func NewLimbDom(p *load.Program, trackPoly bool) *LimbDom {
	return &LimbDom{R: poly.NewRing(nil), TrackPoly: trackPoly, sums: map[[2]int]*Wide{}, prog: p}
}

func (d *LimbDom) Name() string              { return "limb intervals × polynomials (E4×E5)" }
func (d *LimbDom) IsAtom(t types.Type) bool  { return false }
func (d *LimbDom) ZeroAtom(t types.Type) Val { return MkInt(0) }

// Sym makes an input word with the given bounds and (if tracked) its own symbol.
func (d *LimbDom) Sym(name string, lo, hi *big.Int) *LV {
	v := &LV{Lo: new(big.Int).Set(lo), Hi: new(big.Int).Set(hi)}
	if d.TrackPoly {
		v.P = d.R.Var(name)
	}
	return v
}

func (d *LimbDom) lift(v Val) *LV { return d.liftS(v, false) }

func (d *LimbDom) liftS(v Val, signed bool) *LV {
	switch x := v.(type) {
	case *LV:
		return x
	case Int:
		u := x.V
		if u.Sign() < 0 && !signed {
			u = new(big.Int).Add(u, two64)
		}
		lv := &LV{Lo: u, Hi: u}
		if d.TrackPoly {
			lv.P = d.R.Const(u)
		}
		return lv
	case Bool:
		if x.B {
			return d.lift(MkInt(1))
		}
		return d.lift(MkInt(0))
	}
	return nil
}

func (d *LimbDom) mk(lo, hi *big.Int, p *poly.Poly) Val {
	if lo.Cmp(hi) == 0 {
		if p == nil {
			return Int{V: new(big.Int).Set(lo)}
		}
		if c, ok := p.IsConst(); ok && c.Cmp(lo) == 0 {
			return Int{V: new(big.Int).Set(lo)}
		}
	}
	if !d.TrackPoly {
		p = nil
	}
	return &LV{Lo: lo, Hi: hi, P: p}
}

func bitsOf(t types.Type, in *Interp) uint {
	if b, _, ok := intInfo(t, in.WordBits); ok {
		return uint(b)
	}
	return 64
}

func (d *LimbDom) shrPoly(p *poly.Poly, k uint, hi *big.Int) *poly.Poly {
	if p == nil {
		return nil
	}
	if hi.Cmp(pow2(k)) < 0 {
		return d.R.Int(0)
	}
	if c, ok := p.IsConst(); ok {
		return d.R.Const(new(big.Int).Rsh(c, k))
	}
	if q, ok := exactDiv(p, k); ok {
		return q // every coefficient is a multiple of 2^k and the symbols are integers: the quotient is exact
	}
	name := hName(k, p)
	if d.hArgs == nil {
		d.hArgs = map[string]hArg{}
	}
	d.hArgs[name] = hArg{P: p, K: k}
	if hi.Cmp(pow2(k+1)) < 0 {
		// the quotient is 0 or 1: a carry bit (idempotent)
		return d.R.BitVar(name)
	}
	return d.R.Var(name)
}

// hName is the canonical short name of the carry symbol ⌊P/2^k⌋: a digest of P's normal form
// (which mentions inner carry symbols by their own digests), so that equal carries get equal
// names in independent runs and nested names do not grow.
func hName(k uint, p *poly.Poly) string {
	key := p.Key()
	if len(key) <= 40 {
		return fmt.Sprintf("h%d(%s)", k, key)
	}
	sum := sha256.Sum256([]byte(key))
	return fmt.Sprintf("h%d#%x", k, sum[:8])
}

// exactDiv divides an integer polynomial by 2^k when every coefficient is a multiple of 2^k.
func exactDiv(p *poly.Poly, k uint) (*poly.Poly, bool) {
	m := pow2(k)
	ok := true
	p.Terms(func(vars map[string]int, c *big.Int) {
		if new(big.Int).Mod(c, m).Sign() != 0 {
			ok = false
		}
	})
	if !ok {
		return nil, false
	}
	out := p.R.Zero()
	p.Terms(func(vars map[string]int, c *big.Int) {
		t := p.R.Const(new(big.Int).Div(c, m))
		for v, e := range vars {
			for i := 0; i < e; i++ {
				t = t.Mul(p.R.Var(v))
			}
		}
		out = out.Add(t)
	})
	return out, true
}

// floorDiv is ⌊P/2^k⌋ for a word whose value ranges over [lo,hi] (possibly negative).
func (d *LimbDom) floorDiv(p *poly.Poly, k uint, lo, hi *big.Int) *poly.Poly {
	if p == nil {
		return nil
	}
	if lo.Sign() >= 0 {
		return d.shrPoly(p, k, hi)
	}
	// possibly negative: the quotient may be −1; never a {0,1} symbol
	if c, ok := p.IsConst(); ok {
		return d.R.Const(new(big.Int).Rsh(c, k))
	}
	if q, ok := exactDiv(p, k); ok {
		return q
	}
	name := "f" + hName(k, p)
	if d.hArgs == nil {
		d.hArgs = map[string]hArg{}
	}
	d.hArgs[name] = hArg{P: p, K: k}
	return d.R.Var(name)
}

// centeredRemainder recognises a − 2^s·⌊(a+r)/2^s⌋ = ((a+r) mod 2^s) − r ∈ [−r, 2^s−1−r].
func (d *LimbDom) centeredRemainder(a, b *LV) (lo, hi *big.Int, ok bool) {
	if a.P == nil || b.P == nil || b.P.NumTerms() != 1 {
		return nil, nil, false
	}
	vs := b.P.Vars()
	if len(vs) != 1 {
		return nil, nil, false
	}
	h, known := d.hArgs[vs[0]]
	if !known || !b.P.Equal(d.R.Var(vs[0]).Scale(pow2(h.K))) {
		return nil, nil, false
	}
	r, isC := h.P.Sub(a.P).IsConst()
	if !isC || r.Sign() < 0 || r.Cmp(pow2(h.K)) >= 0 {
		return nil, nil, false
	}
	return new(big.Int).Neg(r), new(big.Int).Sub(new(big.Int).Sub(pow2(h.K), big.NewInt(1)), r), true
}

func (d *LimbDom) BinOp(in *Interp, op token.Token, x, y Val, xt types.Type, pos ssa.Instruction) Val {
	// paired halves of a wide value: (Hi(W) << k) | (Lo(W) >> (64-k))  =  W >> (64-k)
	switch op {
	case token.SHL:
		if h, ok := x.(Half); ok && h.High {
			if k, ok := y.(Int); ok {
				return HiShl{W: h.W, K: uint(k.V.Uint64())}
			}
		}
	case token.SHR:
		if h, ok := x.(Half); ok && !h.High {
			if k, ok := y.(Int); ok {
				return LoShr{W: h.W, K: uint(k.V.Uint64())}
			}
		}
	case token.SUB:
		// 0 − b for a bit b of an unsigned word type: the same select mask as −b
		if z, ok := x.(Int); ok && z.V.Sign() == 0 {
			if lv, ok := y.(*LV); ok && lv.P != nil && lv.Lo.Sign() >= 0 && lv.Hi.Cmp(big.NewInt(1)) <= 0 && lv.Hi.Sign() > 0 {
				if _, sgn, ok := intInfo(xt, in.WordBits); ok && !sgn {
					return d.UnOp(in, token.SUB, y, xt, pos)
				}
			}
		}
	case token.OR:
		hs, ok1 := x.(HiShl)
		ls, ok2 := y.(LoShr)
		if !ok1 || !ok2 {
			hs, ok1 = y.(HiShl)
			ls, ok2 = x.(LoShr)
		}
		if ok1 && ok2 && hs.W == ls.W && hs.K+ls.K == 64 {
			return d.wideShr(in, hs.W, ls.K, pos)
		}
	case token.AND:
		// Lo(W) & (2^j - 1) = W mod 2^j
		if h, ok := x.(Half); ok && !h.High {
			if m, ok := y.(Int); ok {
				if j, isMask := maskBits(m.V); isMask && j <= 64 {
					return d.wideMod(h.W, j)
				}
			}
		}
	}
	_, signed, _ := intInfo(xt, in.WordBits)
	a, b := d.liftS(x, signed), d.liftS(y, signed)
	if a == nil || b == nil {
		in.Undecided(pos, "limb domain has no transfer function for %T %s %T", x, op, y)
	}
	bits := bitsOf(xt, in)
	lim := pow2(bits)
	minV := big.NewInt(0)
	if signed {
		lim = pow2(bits - 1)
		minV = new(big.Int).Neg(lim)
	}
	fits := func(hi *big.Int) bool { return hi.Cmp(lim) < 0 }
	top := func() Val { return d.mk(new(big.Int).Set(minV), new(big.Int).Sub(lim, big.NewInt(1)), nil) }
	if signed && (a.Lo.Sign() < 0 || b.Lo.Sign() < 0) {
		switch op {
		case token.ADD, token.SUB, token.SHR, token.EQL, token.NEQ, token.LSS, token.LEQ, token.GTR, token.GEQ:
		default:
			in.Undecided(pos, "limb domain: %s on possibly negative operands", op)
		}
	}
	polyOp := func(f func(p, q *poly.Poly) *poly.Poly) *poly.Poly {
		if a.P == nil || b.P == nil {
			return nil
		}
		return f(a.P, b.P)
	}
	switch op {
	case token.ADD:
		hi := new(big.Int).Add(a.Hi, b.Hi)
		ok := fits(hi) && new(big.Int).Add(a.Lo, b.Lo).Cmp(minV) >= 0
		in.Oblige("no-overflow(+)", pos, ok, "%s + %s ≤ %s must be < 2^%d", a.Hi, b.Hi, hi, bits)
		if !ok {
			return top()
		}
		return d.mk(new(big.Int).Add(a.Lo, b.Lo), hi, polyOp(func(p, q *poly.Poly) *poly.Poly { return p.Add(q) }))
	case token.SUB:
		lo := new(big.Int).Sub(a.Lo, b.Hi)
		hi := new(big.Int).Sub(a.Hi, b.Lo)
		if clo, chi, isCR := d.centeredRemainder(a, b); isCR {
			if clo.Cmp(lo) > 0 {
				lo = clo
			}
			if chi.Cmp(hi) < 0 {
				hi = chi
			}
		}
		ok := lo.Cmp(minV) >= 0 && fits(hi)
		in.Oblige("no-underflow(-)", pos, ok, "minuend ≥ %s, subtrahend ≤ %s: difference ≥ %s must be ≥ %s", a.Lo, b.Hi, lo, minV)
		if !ok {
			return top()
		}
		return d.mk(lo, hi, polyOp(func(p, q *poly.Poly) *poly.Poly { return p.Sub(q) }))
	case token.MUL:
		hi := new(big.Int).Mul(a.Hi, b.Hi)
		ok := fits(hi)
		in.Oblige("no-overflow(*)", pos, ok, "%s · %s = %s must be < 2^%d", a.Hi, b.Hi, hi, bits)
		if !ok {
			return top()
		}
		return d.mk(new(big.Int).Mul(a.Lo, b.Lo), hi, polyOp(func(p, q *poly.Poly) *poly.Poly { return p.Mul(q) }))
	case token.SHL:
		k, isC := y.(Int)
		if !isC {
			if b.Hi.Cmp(big.NewInt(int64(bits))) >= 0 {
				return top()
			}
			hi := new(big.Int).Lsh(a.Hi, uint(b.Hi.Uint64()))
			ok := fits(hi)
			in.Oblige("no-overflow(<<)", pos, ok, "%s << %s must be < 2^%d", a.Hi, b.Hi, bits)
			if !ok {
				return top()
			}
			return d.mk(new(big.Int).Lsh(a.Lo, uint(b.Lo.Uint64())), hi, nil)
		}
		s := uint(k.V.Uint64())
		hi := new(big.Int).Lsh(a.Hi, s)
		ok := fits(hi)
		if !ok && !signed && s < uint(bits) && a.Lo.Sign() >= 0 {
			// an unsigned shift that drops high bits is defined behaviour: x << s = (x mod 2^(bits−s))·2^s, exactly
			if t := d.lift(d.andConst(a, new(big.Int).Sub(pow2(uint(bits)-s), big.NewInt(1)), uint(bits))); t != nil {
				var p *poly.Poly
				if t.P != nil {
					p = t.P.Scale(pow2(s))
				}
				return withLowZero(d.mk(new(big.Int).Lsh(t.Lo, s), new(big.Int).Lsh(t.Hi, s), p), s)
			}
		}
		in.Oblige("no-overflow(<<)", pos, ok, "%s << %d must be < 2^%d", a.Hi, s, bits)
		if !ok {
			return top()
		}
		var p *poly.Poly
		if a.P != nil {
			p = a.P.Scale(pow2(s))
		}
		return withLowZero(d.mk(new(big.Int).Lsh(a.Lo, s), hi, p), s+a.lowZero)
	case token.SHR:
		k, isC := y.(Int)
		if !isC {
			return d.mk(big.NewInt(0), a.Hi, nil)
		}
		s := uint(k.V.Uint64())
		return d.mk(new(big.Int).Rsh(a.Lo, s), new(big.Int).Rsh(a.Hi, s), d.floorDiv(a.P, s, a.Lo, a.Hi))
	case token.AND:
		// (0 or all-ones) & (p ^ q): half of the branch-free select p ^ (mask & (p ^ q))
		if xl, ok := x.(*LV); ok && xl.maskBit != nil {
			if yl, ok := y.(*LV); ok && yl.xorOf[0] != nil {
				return &LV{Lo: big.NewInt(0), Hi: new(big.Int).Set(yl.Hi), selBit: xl.maskBit, selXor: yl.xorOf}
			}
		}
		if yl, ok := y.(*LV); ok && yl.maskBit != nil {
			if xl, ok := x.(*LV); ok && xl.xorOf[0] != nil {
				return &LV{Lo: big.NewInt(0), Hi: new(big.Int).Set(xl.Hi), selBit: yl.maskBit, selXor: xl.xorOf}
			}
		}
		// (0 or all-ones) & K = bit·K
		if m, ok := y.(Int); ok && a.maskBit != nil && m.V.Sign() >= 0 {
			return d.mk(big.NewInt(0), new(big.Int).Set(m.V), a.maskBit.Scale(m.V))
		}
		if m, ok := x.(Int); ok && b.maskBit != nil && m.V.Sign() >= 0 {
			return d.mk(big.NewInt(0), new(big.Int).Set(m.V), b.maskBit.Scale(m.V))
		}
		if m, ok := y.(Int); ok {
			return d.andConst(a, m.V, bits)
		}
		if m, ok := x.(Int); ok {
			return d.andConst(b, m.V, bits)
		}
		hi := a.Hi
		if b.Hi.Cmp(hi) < 0 {
			hi = b.Hi
		}
		return d.mk(big.NewInt(0), hi, nil)
	case token.OR:
		if m, ok := y.(Int); ok && m.V.Sign() == 0 {
			return x
		}
		if m, ok := x.(Int); ok && m.V.Sign() == 0 {
			return y
		}
		// (p << k) | q with q < 2^k: the operands occupy disjoint bits, so | is +
		for _, pr := range [][2]*LV{{a, b}, {b, a}} {
			hiPart, loPart := pr[0], pr[1]
			if hiPart.lowZero > 0 && loPart.Lo.Sign() >= 0 && loPart.Hi.BitLen() <= int(hiPart.lowZero) {
				var p *poly.Poly
				if hiPart.P != nil && loPart.P != nil {
					p = hiPart.P.Add(loPart.P)
				}
				return d.mk(new(big.Int).Add(hiPart.Lo, loPart.Lo), new(big.Int).Add(hiPart.Hi, loPart.Hi), p)
			}
		}
		hi := a.Hi
		if b.Hi.Cmp(hi) > 0 {
			hi = b.Hi
		}
		lo := a.Lo
		if b.Lo.Cmp(lo) > 0 {
			lo = b.Lo
		}
		return d.mk(lo, new(big.Int).Sub(pow2(uint(hi.BitLen())), big.NewInt(1)), nil)
	case token.XOR:
		if m, ok := y.(Int); ok && m.V.Sign() == 0 {
			return x
		}
		if m, ok := x.(Int); ok && m.V.Sign() == 0 {
			return y
		}
		// p ^ (mask(c) & (p ^ q)) = p + c·(q − p)
		for _, pr := range [][2]Val{{x, y}, {y, x}} {
			sel, ok := pr[1].(*LV)
			if !ok || sel.selBit == nil {
				continue
			}
			var other Val
			switch pr[0] {
			case sel.selXor[0]:
				other = sel.selXor[1]
			case sel.selXor[1]:
				other = sel.selXor[0]
			default:
				continue
			}
			pl, ol := d.lift(pr[0]), d.lift(other)
			if pl == nil || ol == nil {
				continue
			}
			lo, hi := pl.Lo, pl.Hi
			if ol.Lo.Cmp(lo) < 0 {
				lo = ol.Lo
			}
			if ol.Hi.Cmp(hi) > 0 {
				hi = ol.Hi
			}
			var p *poly.Poly
			if pl.P != nil && ol.P != nil {
				p = pl.P.Add(sel.selBit.Mul(ol.P.Sub(pl.P)))
			}
			return d.mk(lo, hi, p)
		}
		// c ^ (c ^ d) = d
		if lv, ok := y.(*LV); ok && lv.xorOf[0] != nil {
			if lv.xorOf[0] == x {
				return lv.xorOf[1]
			}
			if lv.xorOf[1] == x {
				return lv.xorOf[0]
			}
		}
		if lv, ok := x.(*LV); ok && lv.xorOf[0] != nil {
			if lv.xorOf[0] == y {
				return lv.xorOf[1]
			}
			if lv.xorOf[1] == y {
				return lv.xorOf[0]
			}
		}
		hi := a.Hi
		if b.Hi.Cmp(hi) > 0 {
			hi = b.Hi
		}
		return &LV{Lo: big.NewInt(0), Hi: new(big.Int).Sub(pow2(uint(hi.BitLen())), big.NewInt(1)), xorOf: [2]Val{x, y}}
	case token.EQL, token.NEQ, token.LSS, token.LEQ, token.GTR, token.GEQ:
		// decided when the intervals are separated
		var res, known bool
		switch op {
		case token.LSS:
			if a.Hi.Cmp(b.Lo) < 0 {
				res, known = true, true
			} else if a.Lo.Cmp(b.Hi) >= 0 {
				res, known = false, true
			}
		case token.GTR:
			if a.Lo.Cmp(b.Hi) > 0 {
				res, known = true, true
			} else if a.Hi.Cmp(b.Lo) <= 0 {
				res, known = false, true
			}
		case token.LEQ:
			if a.Hi.Cmp(b.Lo) <= 0 {
				res, known = true, true
			} else if a.Lo.Cmp(b.Hi) > 0 {
				res, known = false, true
			}
		case token.GEQ:
			if a.Lo.Cmp(b.Hi) >= 0 {
				res, known = true, true
			} else if a.Hi.Cmp(b.Lo) < 0 {
				res, known = false, true
			}
		case token.EQL, token.NEQ:
			if a.Hi.Cmp(b.Lo) < 0 || a.Lo.Cmp(b.Hi) > 0 {
				res, known = op == token.NEQ, true
			}
		}
		if known {
			return Bool{res}
		}
		// a {0,1}-valued word compared with 0 or 1: the boolean is that word (or its complement)
		if d.Flat && (op == token.EQL || op == token.NEQ) {
			one := big.NewInt(1)
			bit, k := a, b
			if !(k.Lo.Cmp(k.Hi) == 0) {
				bit, k = b, a
			}
			if k.Lo.Cmp(k.Hi) == 0 && k.Lo.Sign() >= 0 && k.Lo.Cmp(one) <= 0 && bit.P != nil && bit.Lo.Sign() >= 0 && bit.Hi.Cmp(one) <= 0 {
				p := bit.P
				if (k.Lo.Sign() == 0) == (op == token.EQL) {
					p = d.R.Int(1).Sub(p)
				}
				return LBool{P: p}
			}
		}
	}
	in.Undecided(pos, "limb domain cannot evaluate %s on [%s,%s] and [%s,%s]", op, a.Lo, a.Hi, b.Lo, b.Hi)
	return nil
}

// maskBits: is m = 2^j - 1 ?
func maskBits(m *big.Int) (uint, bool) {
	if m.Sign() < 0 {
		return 0, false
	}
	n := new(big.Int).Add(m, big.NewInt(1))
	if n.Sign() > 0 && new(big.Int).And(n, m).Sign() == 0 {
		return uint(n.BitLen() - 1), true
	}
	return 0, false
}

func (d *LimbDom) andConst(a *LV, m *big.Int, bits uint) Val {
	if m.Sign() < 0 {
		m = new(big.Int).Add(m, pow2(bits))
	}
	if m.Sign() == 0 {
		return MkInt(0)
	}
	if j, ok := maskBits(m); ok {
		if a.Hi.Cmp(m) <= 0 {
			return a
		}
		var p *poly.Poly
		if a.P != nil {
			p = a.P.Sub(d.shrPoly(a.P, j, a.Hi).Scale(pow2(j)))
		}
		return d.mk(big.NewInt(0), new(big.Int).Set(m), p)
	}
	hi := a.Hi
	if m.Cmp(hi) < 0 {
		hi = m
	}
	return d.mk(big.NewInt(0), new(big.Int).Set(hi), nil)
}

func (d *LimbDom) newWide(lo, hi *big.Int, p *poly.Poly) *Wide {
	d.nextWide++
	if !d.TrackPoly {
		p = nil
	}
	return &Wide{Lo: lo, Hi: hi, P: p, id: d.nextWide}
}

func (d *LimbDom) wideShr(in *Interp, w *Wide, k uint, pos ssa.Instruction) Val {
	// the 64-bit result holds W >> k exactly iff W < 2^(64+k)
	ok := w.Hi.Cmp(pow2(64+k)) < 0
	in.Oblige("wide-shift", pos, ok, "128-bit value ≤ %s (%d bits) must be < 2^%d for (hi<<%d)|(lo>>%d) to be value>>%d", w.Hi, w.Hi.BitLen(), 64+k, 64-k, k, k)
	if !ok {
		return d.mk(big.NewInt(0), new(big.Int).Sub(two64, big.NewInt(1)), nil)
	}
	return d.mk(new(big.Int).Rsh(w.Lo, k), new(big.Int).Rsh(w.Hi, k), d.shrPoly(w.P, k, w.Hi))
}

func (d *LimbDom) wideMod(w *Wide, j uint) Val {
	m := new(big.Int).Sub(pow2(j), big.NewInt(1))
	if w.Lo.Cmp(w.Hi) == 0 {
		return Int{V: new(big.Int).And(w.Lo, m)}
	}
	if w.Hi.Cmp(m) <= 0 {
		return d.mk(w.Lo, w.Hi, w.P)
	}
	var p *poly.Poly
	if w.P != nil {
		p = w.P.Sub(d.shrPoly(w.P, j, w.Hi).Scale(pow2(j)))
	}
	return d.mk(big.NewInt(0), m, p)
}

func (d *LimbDom) UnOp(in *Interp, op token.Token, x Val, xt types.Type, pos ssa.Instruction) Val {
	if op == token.SUB {
		// -b for a bit b of an unsigned word type: 0 or all-ones (a select mask)
		if lv, ok := x.(*LV); ok && lv.P != nil && lv.Lo.Sign() >= 0 && lv.Hi.Cmp(big.NewInt(1)) <= 0 {
			if bits, sgn, ok := intInfo(xt, in.WordBits); ok && !sgn {
				ones := new(big.Int).Sub(pow2(uint(bits)), big.NewInt(1))
				return &LV{Lo: big.NewInt(0), Hi: ones, P: lv.P.Scale(ones), maskBit: lv.P}
			}
		}
	}
	in.Undecided(pos, "limb domain has no transfer function for unary %s on %T", op, x)
	return nil
}

func (d *LimbDom) Convert(in *Interp, x Val, from, to types.Type, pos ssa.Instruction) Val {
	lv := d.lift(x)
	if lv == nil {
		in.Undecided(pos, "limb domain cannot convert %T", x)
	}
	bits, sgn, ok := intInfo(to, in.WordBits)
	if !ok {
		in.Undecided(pos, "conversion to %s", to)
	}
	lo, hi := big.NewInt(0), new(big.Int).Sub(pow2(uint(bits)), big.NewInt(1))
	if sgn {
		hi = new(big.Int).Sub(pow2(uint(bits-1)), big.NewInt(1))
		lo = new(big.Int).Neg(pow2(uint(bits - 1)))
	}
	if lv.Hi.Cmp(hi) <= 0 && lv.Lo.Cmp(lo) >= 0 {
		return lv
	}
	if d.Flat && !sgn && lv.Lo.Sign() >= 0 {
		// truncation to an unsigned type is reduction mod 2^bits
		return d.andConst(lv, new(big.Int).Sub(pow2(uint(bits)), big.NewInt(1)), 64)
	}
	return d.mk(lo, hi, nil)
}

func (d *LimbDom) Branch(in *Interp, cond Val, site *ssa.If) (bool, bool, bool) {
	return false, false, false
}
func (d *LimbDom) Assume(in *Interp, cond Val, truth bool, site *ssa.If) {}

func (d *LimbDom) sumWide(in *Interp, a, b *Wide, pos ssa.Instruction) *Wide {
	key := [2]int{a.id, b.id}
	if a.id > b.id {
		key = [2]int{b.id, a.id}
	}
	if s, ok := d.sums[key]; ok {
		return s
	}
	hi := new(big.Int).Add(a.Hi, b.Hi)
	var p *poly.Poly
	if a.P != nil && b.P != nil {
		p = a.P.Add(b.P)
	}
	s := d.newWide(new(big.Int).Add(a.Lo, b.Lo), hi, p)
	d.sums[key] = s
	return s
}

// Mul64, Add64 are shared with the assembly interpreter.
func (d *LimbDom) Mul64(in *Interp, x, y Val, pos ssa.Instruction) (hi, lo Val) {
	a, b := d.lift(x), d.lift(y)
	if a == nil || b == nil {
		in.Undecided(pos, "Mul64 of %T and %T", x, y)
	}
	var p *poly.Poly
	if a.P != nil && b.P != nil {
		p = a.P.Mul(b.P)
	}
	w := d.newWide(new(big.Int).Mul(a.Lo, b.Lo), new(big.Int).Mul(a.Hi, b.Hi), p)
	return Half{W: w, High: true}, Half{W: w}
}

func (d *LimbDom) Add64(in *Interp, x, y, c Val, pos ssa.Instruction) (sum, carry Val) {
	// adding into an empty accumulator: 0 + h + 0 = h, no carry (either half)
	isZero := func(v Val) bool { i, ok := v.(Int); return ok && i.V.Sign() == 0 }
	if isZero(c) {
		if _, isHalf := y.(Half); isHalf && isZero(x) {
			return y, MkInt(0)
		}
		if _, isHalf := x.(Half); isHalf && isZero(y) {
			return x, MkInt(0)
		}
	}
	hx, okx := x.(Half)
	hy, oky := y.(Half)
	if okx && oky && !hx.High && !hy.High {
		if ci, ok := c.(Int); ok && ci.V.Sign() == 0 {
			s := d.sumWide(in, hx.W, hy.W, pos)
			return Half{W: s}, CarryV{A: hx.W, B: hy.W}
		}
	}
	if okx && oky && hx.High && hy.High {
		if cv, ok := c.(CarryV); ok && ((cv.A == hx.W && cv.B == hy.W) || (cv.A == hy.W && cv.B == hx.W)) {
			s := d.sumWide(in, hx.W, hy.W, pos)
			ok := s.Hi.Cmp(two128) < 0
			in.Oblige("wide-add", pos, ok, "128-bit accumulator ≤ %s (%d bits) must be < 2^128", s.Hi, s.Hi.BitLen())
			return Half{W: s, High: true}, MkInt(0)
		}
	}
	in.Undecided(pos, "Add64 of unpaired operands %T, %T, carry %T", x, y, c)
	return nil, nil
}

func (d *LimbDom) Call(in *Interp, site ssa.Instruction, fn *ssa.Function, args []Val) ([]Val, bool) {
	name := fn.String()
	if d.Prims != nil && in.P.InRepo(fn) {
		if h, ok := d.Prims[load.ShortName(fn)]; ok {
			return h(in, site, args), true
		}
	}
	if d.Flat {
		if res, ok := d.flatCall(in, site, fn, name, args); ok {
			return res, true
		}
	}
	switch name {
	case "math/bits.Mul64":
		if _, ok := args[0].(Int); ok {
			if _, ok := args[1].(Int); ok && !d.TrackPoly {
				// both concrete: still build a Wide so that halves stay paired
			}
		}
		hi, lo := d.Mul64(in, args[0], args[1], site)
		return []Val{hi, lo}, true
	case "math/bits.Add64":
		s, c := d.Add64(in, args[0], args[1], args[2], site)
		return []Val{s, c}, true
	case "crypto/subtle.ConstantTimeSelect":
		// v ∈ {0,1}: x if v = 1, y if v = 0 (on ints: the operands have already gone through the conversion to int,
		// which loses their polynomial where int is too narrow for them)
		v, x, y := d.lift(args[0]), d.lift(args[1]), d.lift(args[2])
		if v == nil || x == nil || y == nil {
			return nil, false
		}
		if ci, ok := args[0].(Int); ok {
			if ci.V.Sign() == 0 {
				return []Val{args[2]}, true
			} else if ci.V.Cmp(big.NewInt(1)) == 0 {
				return []Val{args[1]}, true
			}
		}
		if v.Lo.Sign() < 0 || v.Hi.Cmp(big.NewInt(1)) > 0 {
			in.Oblige("cond∈{0,1}", site, false, "ConstantTimeSelect selects only for v ∈ {0,1}")
			return []Val{d.mk(minBig(x.Lo, y.Lo), maxBig(x.Hi, y.Hi), nil)}, true
		}
		var p *poly.Poly
		if v.P != nil && x.P != nil && y.P != nil {
			p = y.P.Add(v.P.Mul(x.P.Sub(y.P)))
		}
		return []Val{d.mk(minBig(x.Lo, y.Lo), maxBig(x.Hi, y.Hi), p)}, true
	case "crypto/subtle.ConstantTimeEq", "crypto/subtle.ConstantTimeByteEq", "crypto/subtle.ConstantTimeLessOrEq":
		if _, ok := args[0].(Int); ok {
			if _, ok := args[1].(Int); ok {
				return nil, false // concrete: the core evaluates it
			}
		}
		return []Val{d.mk(big.NewInt(0), big.NewInt(1), nil)}, true
	case "crypto/subtle.ConstantTimeCompare":
		a, b := in.SliceElems(site, args[0]), in.SliceElems(site, args[1])
		if len(a) != len(b) {
			return []Val{MkInt(0)}, true
		}
		conc := true
		for i := range a {
			if _, ok := a[i].(Int); !ok {
				conc = false
			}
			if _, ok := b[i].(Int); !ok {
				conc = false
			}
		}
		if conc {
			return nil, false
		}
		return []Val{d.mk(big.NewInt(0), big.NewInt(1), nil)}, true
	case "(encoding/binary.littleEndian).Uint64":
		el := in.SliceElems(site, args[1])
		if len(el) < 8 {
			return nil, false
		}
		lo, hi := new(big.Int), new(big.Int)
		var p *poly.Poly
		if d.TrackPoly {
			p = d.R.Int(0)
		}
		anyAbs := false
		for k := 7; k >= 0; k-- {
			b := d.lift(el[k])
			if b == nil {
				in.Undecided(site, "Uint64 of %T", el[k])
			}
			if _, ok := el[k].(Int); !ok {
				anyAbs = true
			}
			lo.Lsh(lo, 8).Add(lo, b.Lo)
			hi.Lsh(hi, 8).Add(hi, b.Hi)
			if p != nil && b.P != nil {
				p = p.Scale(big.NewInt(256)).Add(b.P)
			} else {
				p = nil
			}
		}
		if !anyAbs {
			return nil, false
		}
		return []Val{d.mk(lo, hi, p)}, true
	case "(encoding/binary.littleEndian).PutUint64":
		if _, ok := args[2].(Int); ok {
			return nil, false
		}
		s, ok := args[1].(SliceV)
		v := d.lift(args[2])
		if !ok || s.Len < 8 || v == nil {
			in.Undecided(site, "PutUint64")
		}
		for k := 0; k < 8; k++ {
			sh := uint(8 * k)
			bhi := big.NewInt(255)
			if v.Hi.Cmp(pow2(sh)) < 0 {
				bhi = big.NewInt(0)
			} else if t := new(big.Int).Rsh(v.Hi, sh); t.Cmp(big.NewInt(255)) < 0 {
				bhi = t
			}
			in.SetSliceElem(site, s, k, d.mk(big.NewInt(0), bhi, nil))
		}
		return nil, true
	}
	if fn.Pkg == in.P.Field && load.ShortName(fn) == "field.mask64Bits" && len(args) == 1 {
		if _, ok := args[0].(Int); ok {
			return nil, false
		}
		lv := d.lift(args[0])
		ok := lv != nil && lv.Lo.Sign() >= 0 && lv.Hi.Cmp(big.NewInt(1)) <= 0
		in.Oblige("cond∈{0,1}", site, ok, "mask64Bits is a multiplexer mask only for cond ∈ {0,1}")
		if !ok {
			in.Undecided(site, "mask64Bits of a value outside {0,1}")
		}
		// declared fork: cond ranges over {0,1}
		if in.Choose("cond=1") {
			return []Val{Int{V: new(big.Int).Sub(two64, big.NewInt(1))}}, true
		}
		return []Val{MkInt(0)}, true
	}
	// assembly bodies
	if len(fn.Blocks) == 0 && in.P.InRepo(fn) {
		if as := in.P.Asm[fn]; as != nil {
			d.runAsm(in, site, fn, as.Func, args)
			return nil, true
		}
	}
	return nil, false
}

// flatCall: word-level semantics of math/bits with explicit carry symbols, and the fiat conditional move.
func (d *LimbDom) flatCall(in *Interp, site ssa.Instruction, fn *ssa.Function, name string, args []Val) ([]Val, bool) {
	max64 := new(big.Int).Sub(two64, big.NewInt(1))
	pol := func(a, b *LV, f func(p, q *poly.Poly) *poly.Poly) *poly.Poly {
		if a.P == nil || b.P == nil {
			return nil
		}
		return f(a.P, b.P)
	}
	switch name {
	case "math/bits.Mul64":
		a, b := d.lift(args[0]), d.lift(args[1])
		if a == nil || b == nil {
			return nil, false
		}
		wlo, whi := new(big.Int).Mul(a.Lo, b.Lo), new(big.Int).Mul(a.Hi, b.Hi)
		wp := pol(a, b, func(p, q *poly.Poly) *poly.Poly { return p.Mul(q) })
		if a.P != nil && b.P != nil {
			if k, isC := b.P.IsConst(); isC {
				d.MulLog = append(d.MulLog, MulRec{Const: k, Other: a.P, OtherHi: a.Hi})
			} else if k, isC := a.P.IsConst(); isC {
				d.MulLog = append(d.MulLog, MulRec{Const: k, Other: b.P, OtherHi: b.Hi})
			}
		}
		hiP := d.shrPoly(wp, 64, whi)
		hi := d.mk(new(big.Int).Rsh(wlo, 64), new(big.Int).Rsh(whi, 64), hiP)
		var lo Val
		if whi.Cmp(two64) < 0 {
			lo = d.mk(wlo, whi, wp)
		} else {
			var lp *poly.Poly
			if wp != nil {
				lp = wp.Sub(hiP.Scale(two64))
			}
			lo = d.mk(big.NewInt(0), max64, lp)
			if lp != nil {
				if c, ok := lp.IsConst(); ok {
					lo = Int{V: c}
				}
			}
		}
		return []Val{hi, lo}, true
	case "math/bits.Add64":
		a, b, c := d.lift(args[0]), d.lift(args[1]), d.lift(args[2])
		if a == nil || b == nil || c == nil {
			return nil, false
		}
		slo := new(big.Int).Add(new(big.Int).Add(a.Lo, b.Lo), c.Lo)
		shi := new(big.Int).Add(new(big.Int).Add(a.Hi, b.Hi), c.Hi)
		var sp *poly.Poly
		if a.P != nil && b.P != nil && c.P != nil {
			sp = a.P.Add(b.P).Add(c.P)
		}
		if shi.Cmp(two64) < 0 {
			return []Val{d.mk(slo, shi, sp), MkInt(0)}, true
		}
		cp := d.shrPoly(sp, 64, shi)
		carry := d.mk(new(big.Int).Rsh(slo, 64), new(big.Int).Rsh(shi, 64), cp)
		var lp *poly.Poly
		if sp != nil {
			lp = sp.Sub(cp.Scale(two64))
		}
		var sum Val = d.mk(big.NewInt(0), max64, lp)
		if lp != nil {
			if k, ok := lp.IsConst(); ok {
				sum = Int{V: k}
			}
		}
		return []Val{sum, carry}, true
	case "math/bits.Sub64":
		a, b, c := d.lift(args[0]), d.lift(args[1]), d.lift(args[2])
		if a == nil || b == nil || c == nil {
			return nil, false
		}
		dlo := new(big.Int).Sub(new(big.Int).Sub(a.Lo, b.Hi), c.Hi)
		dhi := new(big.Int).Sub(new(big.Int).Sub(a.Hi, b.Lo), c.Lo)
		var dp *poly.Poly
		if a.P != nil && b.P != nil && c.P != nil {
			dp = a.P.Sub(b.P).Sub(c.P)
		}
		if dlo.Sign() >= 0 {
			return []Val{d.mk(dlo, dhi, dp), MkInt(0)}, true
		}
		// borrow ∈ {0,1}: its own idempotent symbol b, with ⌊D/2^64⌋ = −b
		var qp *poly.Poly
		if dp != nil {
			if dhi.Sign() < 0 {
				qp = d.R.Int(-1)
			} else {
				qp = d.R.BitVar("b" + hName(64, dp)).Neg()
			}
		}
		one := big.NewInt(1)
		isBit := func(v *LV) bool { return v.Lo.Sign() >= 0 && v.Hi.Cmp(one) <= 0 && v.P != nil }
		switch {
		case dp != nil && dlo.Cmp(big.NewInt(-1)) >= 0 && dhi.Sign() <= 0:
			qp = dp // D ∈ {−1, 0}: ⌊D/2^64⌋ = D
		case isBit(a) && isBit(b) && c.Hi.Sign() == 0:
			qp = a.P.Mul(b.P).Sub(b.P) // bits: borrow = [a < b] = b·(1−a)
		case isBit(a) && isBit(c) && b.Hi.Sign() == 0:
			qp = a.P.Mul(c.P).Sub(c.P)
		}
		var diffP, borP *poly.Poly
		if dp != nil {
			diffP = dp.Sub(qp.Scale(two64))
			borP = qp.Neg()
			d.SubLog = append(d.SubLog, SubRec{X: a.P, Y: b.P, In: c.P, Out: borP})
		}
		bhi := big.NewInt(1)
		blo := big.NewInt(0)
		if dhi.Sign() < 0 {
			blo = big.NewInt(1)
		}
		return []Val{d.mk(big.NewInt(0), max64, diffP), d.mk(blo, bhi, borP)}, true
	}
	if in.P.InRepo(fn) && load.ShortName(fn) == "fiatScalarCmovznzU64" && !d.NoCmovPrim {
		c, x, y := d.lift(args[1]), d.lift(args[2]), d.lift(args[3])
		if c == nil || x == nil || y == nil {
			return nil, false
		}
		okc := c.Lo.Sign() >= 0 && c.Hi.Cmp(big.NewInt(1)) <= 0
		in.Oblige("cond∈{0,1}", site, okc, "cmovznz selects only for arg1 ∈ {0,1}")
		lo, hi := x.Lo, x.Hi
		if y.Lo.Cmp(lo) < 0 {
			lo = y.Lo
		}
		if y.Hi.Cmp(hi) > 0 {
			hi = y.Hi
		}
		var p *poly.Poly
		if c.P != nil && x.P != nil && y.P != nil {
			p = x.P.Add(c.P.Mul(y.P.Sub(x.P))) // arg1 = 0 → arg2, arg1 = 1 → arg3
		}
		if ci, ok := args[1].(Int); ok {
			if ci.V.Sign() == 0 {
				in.Store(site, args[0], args[2])
			} else {
				in.Store(site, args[0], args[3])
			}
			return nil, true
		}
		res := d.mk(lo, hi, p)
		if lv, ok := res.(*LV); ok {
			xi, okx := args[2].(Int)
			yi, oky := args[3].(Int)
			allOnes := new(big.Int).Sub(two64, big.NewInt(1))
			if okx && oky && c.P != nil && xi.V.Sign() == 0 && toUnsigned(yi.V, 64).Cmp(allOnes) == 0 {
				lv.maskBit = c.P
			}
		}
		in.Store(site, args[0], res)
		return nil, true
	}
	return nil, false
}

func withLowZero(v Val, k uint) Val {
	if lv, ok := v.(*LV); ok {
		c := *lv
		c.lowZero = k
		return &c
	}
	return v
}

func minBig(a, b *big.Int) *big.Int {
	if a.Cmp(b) < 0 {
		return a
	}
	return b
}

func maxBig(a, b *big.Int) *big.Int {
	if a.Cmp(b) > 0 {
		return a
	}
	return b
}
