package absint

import (
	"fmt"
	"go/token"
	"go/types"
	"math/big"

	"golang.org/x/tools/go/ssa"
)

// ---- ordering domain -------------------------------------------------------------------
//
// Input bytes are touched only by comparisons against constants, so each byte
// is abstracted to its ordering {<,=,>} relative to the constant it is compared
// with; the three outcomes are enumerated as declared forks.

type OrdByte struct{ Idx int }

type OrdDom struct {
	State   map[int]int      // -1, 0, +1 once decided
	Const   map[int]*big.Int // the constant byte idx is compared with
	Globals map[string]Val
}

func NewOrdDom(globals map[string]Val) *OrdDom {
	return &OrdDom{State: map[int]int{}, Const: map[int]*big.Int{}, Globals: globals}
}

func (d *OrdDom) GlobalValue(in *Interp, g *ssa.Global) (Val, bool) {
	v, ok := d.Globals[g.Name()]
	if !ok {
		return nil, false
	}
	return copyVal(v), true
}

func (d *OrdDom) Name() string              { return "byte ordering {<,=,>}" }
func (d *OrdDom) IsAtom(t types.Type) bool  { return false }
func (d *OrdDom) ZeroAtom(t types.Type) Val { return MkInt(0) }

func (d *OrdDom) BinOp(in *Interp, op token.Token, x, y Val, xt types.Type, pos ssa.Instruction) Val {
	ob, okx := x.(OrdByte)
	c, oky := y.(Int)
	flip := false
	if !okx || !oky {
		ob, okx = y.(OrdByte)
		c, oky = x.(Int)
		flip = true
	}
	if !okx || !oky {
		in.Undecided(pos, "ordering domain: %T %s %T (input bytes may only be compared with constants)", x, op, y)
	}
	if old, ok := d.Const[ob.Idx]; ok && old.Cmp(c.V) != 0 {
		in.Undecided(pos, "byte %d is compared with two different constants (%s and %s)", ob.Idx, old, c.V)
	}
	d.Const[ob.Idx] = c.V
	st, ok := d.State[ob.Idx]
	if !ok {
		// feasible orderings only: a byte cannot be < 0 or > 255
		canLt, canGt := c.V.Sign() > 0, c.V.Cmp(big.NewInt(255)) < 0
		switch {
		case canLt && in.Choose(fmt.Sprintf("s[%d] < %s", ob.Idx, c.V)):
			st = -1
		case !canGt || in.Choose(fmt.Sprintf("s[%d] = %s", ob.Idx, c.V)):
			st = 0
		default:
			st = 1
		}
		d.State[ob.Idx] = st
	}
	if flip {
		st = -st
	}
	switch op {
	case token.LSS:
		return Bool{st < 0}
	case token.LEQ:
		return Bool{st <= 0}
	case token.GTR:
		return Bool{st > 0}
	case token.GEQ:
		return Bool{st >= 0}
	case token.EQL:
		return Bool{st == 0}
	case token.NEQ:
		return Bool{st != 0}
	}
	in.Undecided(pos, "ordering domain: operation %s on an input byte", op)
	return nil
}
func (d *OrdDom) UnOp(in *Interp, op token.Token, x Val, xt types.Type, pos ssa.Instruction) Val {
	in.Undecided(pos, "ordering domain: unary %s on an input byte", op)
	return nil
}
func (d *OrdDom) Convert(in *Interp, x Val, from, to types.Type, pos ssa.Instruction) Val {
	if _, ok := x.(OrdByte); ok {
		return x // widening an unsigned byte preserves its order against constants
	}
	in.Undecided(pos, "ordering domain: conversion")
	return nil
}
func (d *OrdDom) Call(in *Interp, site ssa.Instruction, fn *ssa.Function, args []Val) ([]Val, bool) {
	return nil, false
}
func (d *OrdDom) Branch(in *Interp, cond Val, site *ssa.If) (bool, bool, bool) {
	return false, false, false
}
func (d *OrdDom) Assume(in *Interp, cond Val, truth bool, site *ssa.If) {}
