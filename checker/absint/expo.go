package absint

import (
	"go/token"
	"go/types"
	"math/big"
	"sort"
	"strings"

	"golang.org/x/tools/go/ssa"

	"verif/checker/load"
)

// ---- E7: exponent (monomial) domain ------------------------------------------------
//
// Values of the atom types (field.Element, Scalar) are monomials Π s^e with
// big-integer exponents over input symbols. Multiply adds exponents, Square
// doubles them; everything else on atoms is outside the domain.

type Mono struct {
	Exp map[string]*big.Int
}

func (m *Mono) String() string {
	var ks []string
	for k := range m.Exp {
		ks = append(ks, k)
	}
	sort.Strings(ks)
	var sb []string
	for _, k := range ks {
		sb = append(sb, k+"^"+m.Exp[k].String())
	}
	if len(sb) == 0 {
		return "1"
	}
	return strings.Join(sb, "·")
}

func monoMul(a, b *Mono) *Mono {
	r := &Mono{Exp: map[string]*big.Int{}}
	for k, e := range a.Exp {
		r.Exp[k] = new(big.Int).Set(e)
	}
	for k, e := range b.Exp {
		if old, ok := r.Exp[k]; ok {
			old.Add(old, e)
		} else {
			r.Exp[k] = new(big.Int).Set(e)
		}
	}
	return r
}

type ExpoDom struct {
	Descend map[string]bool
}

func NewExpoDom() *ExpoDom { return &ExpoDom{Descend: map[string]bool{}} }

func MonoVar(name string) *Mono { return &Mono{Exp: map[string]*big.Int{name: big.NewInt(1)}} }

func (d *ExpoDom) Name() string { return "exponent/monomial (E7)" }
func (d *ExpoDom) IsAtom(t types.Type) bool {
	return isNamed(t, load.FieldPath, "Element") || isNamed(t, load.RootPath, "Scalar")
}
func (d *ExpoDom) ZeroAtom(t types.Type) Val {
	return Top{"zero value of " + t.String() + " (not a monomial)"}
}
func (d *ExpoDom) BinOp(in *Interp, op token.Token, x, y Val, xt types.Type, pos ssa.Instruction) Val {
	in.Undecided(pos, "E7 has no transfer function for %T %s %T", x, op, y)
	return nil
}
func (d *ExpoDom) UnOp(in *Interp, op token.Token, x Val, xt types.Type, pos ssa.Instruction) Val {
	in.Undecided(pos, "E7 has no transfer function for unary %s", op)
	return nil
}
func (d *ExpoDom) Convert(in *Interp, x Val, from, to types.Type, pos ssa.Instruction) Val {
	in.Undecided(pos, "E7 cannot convert %T", x)
	return nil
}
func (d *ExpoDom) Branch(in *Interp, cond Val, site *ssa.If) (bool, bool, bool) {
	return false, false, false
}
func (d *ExpoDom) Assume(in *Interp, cond Val, truth bool, site *ssa.If) {}

func (d *ExpoDom) Call(in *Interp, site ssa.Instruction, fn *ssa.Function, args []Val) ([]Val, bool) {
	if !in.P.InRepo(fn) {
		return nil, false
	}
	name := load.ShortName(fn)
	if d.Descend[name] {
		return nil, false
	}
	get := func(i int) *Mono {
		v := in.Load(site, args[i])
		m, ok := v.(*Mono)
		if !ok {
			in.Undecided(site, "%s reads a value that is not a monomial of the input (%v)", name, v)
		}
		return m
	}
	put := func(m *Mono) []Val { in.Store(site, args[0], m); return []Val{args[0]} }
	switch name {
	case "field.(*Element).Multiply", "(*Scalar).Multiply":
		return put(monoMul(get(1), get(2))), true
	case "field.(*Element).Square":
		a := get(1)
		return put(monoMul(a, a)), true
	case "fiatScalarMul":
		// the Montgomery product of the scalar field: multiplication of the values the wrappers carry
		in.Store(site, args[0], monoMul(get(1), get(2)))
		return nil, true
	case "field.feMul", "field.feMulGeneric":
		in.Store(site, args[0], monoMul(get(1), get(2)))
		return nil, true
	case "field.feSquare", "field.feSquareGeneric":
		a := get(1)
		in.Store(site, args[0], monoMul(a, a))
		return nil, true
	case "field.(*Element).Set", "(*Scalar).Set":
		return put(get(1)), true
	}
	// any other in-repo function (helpers such as a repeated-squaring loop) is interpreted
	return nil, false
}
