// Package absint is the SSA abstract interpreter of DESIGN §3 (E4–E9): one
// interpreter over go/ssa with concrete control flow (trace partitioning) and
// pluggable value domains. Concrete integers, booleans, pointers, slices and
// aggregates are handled by the core; everything else belongs to the domain.
package absint

import (
	"fmt"
	"go/types"
	"math/big"
	"strings"

	"golang.org/x/tools/go/ssa"
)

type Val interface{}

// Int is a concrete integer of a Go integer type (already wrapped to its width).
type Int struct {
	V *big.Int
}

type Bool struct{ B bool }

type Str string

type Nil struct{}

// ErrV is a non-nil error value.
type ErrV struct{ Msg string }

type Iface struct{ V Val }

// FuncV is a function value; Bound holds the values of its free variables (closures).
type FuncV struct {
	Fn    *ssa.Function
	Bound []Val
}

// Top is an unknown value; Why says where precision was lost.
type Top struct{ Why string }

type Agg struct{ Elems []Val }

type Tuple struct{ Elems []Val }

type Object struct {
	ID   int
	Name string
	Type types.Type
	Val  Val
}

type Ptr struct {
	Obj  *Object
	Path []int
}

// ArrWin is a pointer to an array that is a window [Off, Off+Len) of a larger backing array
// ((*[32]byte)(x[32:]) for a 64-byte x).
type ArrWin struct {
	Obj  *Object
	Path []int
	Off  int
	Len  int
}

type SliceV struct {
	Obj  *Object // object containing the backing array
	Path []int   // path to the backing array inside Obj
	Off  int
	Len  int
	Cap  int
}

func (p Ptr) String() string { return fmt.Sprintf("&%s%v", p.Obj.Name, p.Path) }

func MkInt(v int64) Int { return Int{V: big.NewInt(v)} }

// intRange returns bit width and signedness for a basic integer type (on a 64-bit target).
func intInfo(t types.Type, wordBits int) (bits int, signed bool, ok bool) {
	b, isB := t.Underlying().(*types.Basic)
	if !isB {
		return 0, false, false
	}
	switch b.Kind() {
	case types.Int8:
		return 8, true, true
	case types.Int16:
		return 16, true, true
	case types.Int32:
		return 32, true, true
	case types.Int64:
		return 64, true, true
	case types.Int:
		return wordBits, true, true
	case types.Uint8:
		return 8, false, true
	case types.Uint16:
		return 16, false, true
	case types.Uint32:
		return 32, false, true
	case types.Uint64:
		return 64, false, true
	case types.Uint, types.Uintptr:
		return wordBits, false, true
	case types.UntypedInt:
		return 64, true, true
	}
	return 0, false, false
}

// Wrap reduces v to the range of an integer type (two's complement).
func Wrap(v *big.Int, bits int, signed bool) *big.Int {
	m := new(big.Int).Lsh(big.NewInt(1), uint(bits))
	r := new(big.Int).Mod(v, m)
	if signed {
		half := new(big.Int).Rsh(m, 1)
		if r.Cmp(half) >= 0 {
			r.Sub(r, m)
		}
	}
	return r
}

func copyVal(v Val) Val {
	switch x := v.(type) {
	case *Agg:
		n := &Agg{Elems: make([]Val, len(x.Elems))}
		for i, e := range x.Elems {
			n.Elems[i] = copyVal(e)
		}
		return n
	}
	return v
}

func pathKey(p []int) string {
	var sb strings.Builder
	for _, i := range p {
		fmt.Fprintf(&sb, "/%d", i)
	}
	return sb.String()
}

// CopyVal is a deep copy of a value.
func CopyVal(v Val) Val { return copyVal(v) }

// SameVal: structural identity of two values (aggregates element-wise, atoms by identity or printed form).
func SameVal(a, b Val) bool {
	x, okx := a.(*Agg)
	y, oky := b.(*Agg)
	if okx != oky {
		return false
	}
	if okx {
		if len(x.Elems) != len(y.Elems) {
			return false
		}
		for i := range x.Elems {
			if !SameVal(x.Elems[i], y.Elems[i]) {
				return false
			}
		}
		return true
	}
	return a == b || fmt.Sprint(a) == fmt.Sprint(b)
}
