package absint

import (
	"go/token"
	"go/types"

	"golang.org/x/tools/go/ssa"
)

// OpaqueDom gives no meaning to data: every operation on a symbolic value is
// UNDECIDED. It decides properties of the form "this path is taken without
// looking at the data" (wrong-length inputs are rejected before any byte is read).
type OpaqueDom struct{}

type Opaque struct{ Name string }

func (OpaqueDom) Name() string              { return "opaque data" }
func (OpaqueDom) IsAtom(t types.Type) bool  { return false }
func (OpaqueDom) ZeroAtom(t types.Type) Val { return MkInt(0) }
func (OpaqueDom) BinOp(in *Interp, op token.Token, x, y Val, xt types.Type, pos ssa.Instruction) Val {
	in.Undecided(pos, "operates on input data (%v %s %v) on a path that should not depend on it", x, op, y)
	return nil
}
func (OpaqueDom) UnOp(in *Interp, op token.Token, x Val, xt types.Type, pos ssa.Instruction) Val {
	in.Undecided(pos, "operates on input data")
	return nil
}
func (OpaqueDom) Convert(in *Interp, x Val, from, to types.Type, pos ssa.Instruction) Val {
	in.Undecided(pos, "converts input data")
	return nil
}
func (OpaqueDom) Call(in *Interp, site ssa.Instruction, fn *ssa.Function, args []Val) ([]Val, bool) {
	return nil, false
}
func (OpaqueDom) Branch(in *Interp, cond Val, site *ssa.If) (bool, bool, bool) {
	return false, false, false
}
func (OpaqueDom) Assume(in *Interp, cond Val, truth bool, site *ssa.If) {}
