package absint

import (
	"golang.org/x/tools/go/ssa"
)

// MergeDomain is implemented by domains that can join the two sides of a
// data-dependent branch instead of partitioning on it (needed where the number
// of such branches makes path enumeration infeasible: the VarTime drivers).
type MergeDomain interface {
	Mergeable(in *Interp, cond Val, site *ssa.If) bool
	EnterSide(in *Interp, cond Val, truth bool)
	LeaveSide(in *Interp)
	// JoinAtoms joins two domain values; sideT/sideF say on which side each was
	// computed so that the domain can use that side's assumptions.
	JoinAtoms(in *Interp, cond Val, t, f Val) Val
}

type undoEntry struct {
	obj  *Object
	path []int
	old  Val
}

type locKey struct {
	obj  *Object
	path string
}

// ipdom returns the immediate post-dominator of b (nil if it is the function exit).
func (in *Interp) ipdom(b *ssa.BasicBlock) *ssa.BasicBlock {
	f := b.Parent()
	if in.ipdoms == nil {
		in.ipdoms = map[*ssa.Function][]*ssa.BasicBlock{}
	}
	if t, ok := in.ipdoms[f]; ok {
		return t[b.Index]
	}
	n := len(f.Blocks)
	exit := n
	succs := make([][]int, n+1)
	for _, x := range f.Blocks {
		if len(x.Succs) == 0 {
			succs[x.Index] = []int{exit}
		}
		for _, s := range x.Succs {
			succs[x.Index] = append(succs[x.Index], s.Index)
		}
	}
	pd := make([]map[int]bool, n+1)
	for i := 0; i < n; i++ {
		m := map[int]bool{}
		for k := 0; k <= n; k++ {
			m[k] = true
		}
		pd[i] = m
	}
	pd[exit] = map[int]bool{exit: true}
	for changed := true; changed; {
		changed = false
		for i := n - 1; i >= 0; i-- {
			var inter map[int]bool
			for _, s := range succs[i] {
				if inter == nil {
					inter = map[int]bool{}
					for k := range pd[s] {
						inter[k] = true
					}
				} else {
					for k := range inter {
						if !pd[s][k] {
							delete(inter, k)
						}
					}
				}
			}
			if inter == nil {
				inter = map[int]bool{}
			}
			inter[i] = true
			if len(inter) != len(pd[i]) {
				pd[i] = inter
				changed = true
			}
		}
	}
	table := make([]*ssa.BasicBlock, n)
	for i := 0; i < n; i++ {
		best, bestSize := -1, -1
		for c := range pd[i] {
			if c == i {
				continue
			}
			if sz := len(pd[c]); sz > bestSize {
				best, bestSize = c, sz
			}
		}
		if best >= 0 && best != exit {
			table[i] = f.Blocks[best]
		}
	}
	in.ipdoms[f] = table
	return table[b.Index]
}

// forkAndMerge runs both sides of a mergeable branch up to the join block (the
// immediate post-dominator), joins the two resulting states location by
// location (values that differ become ⊤) and returns the join block together
// with the joined values of its phis.
// If the sides rejoin only at the function's exit, both are run to their
// return, and the joined state and results are handed back with returned=true.
func (in *Interp) forkAndMerge(fr *frame, b *ssa.BasicBlock, ifi *ssa.If, cond Val, md MergeDomain) (joinBlock *ssa.BasicBlock, joinPhis map[*ssa.Phi]Val, results []Val, returned bool) {
	join := in.ipdom(b)
	toExit := join == nil
	in.Merges++
	type side struct {
		writes map[locKey]Val
		order  []undoEntry
		locals map[ssa.Value]Val
		from   *ssa.BasicBlock
		phis   map[*ssa.Phi]Val // set when an inner merge ended exactly at the join block
		ret    []Val            // results when the side ran to the function's return
	}
	saveLocals := func() map[ssa.Value]Val {
		m := make(map[ssa.Value]Val, len(fr.locals))
		for k, v := range fr.locals {
			m[k] = v
		}
		return m
	}
	base := saveLocals()
	outerUndo := in.undo
	run := func(truth bool) side {
		var log []undoEntry
		in.undo = &log
		md.EnterSide(in, cond, truth)
		succ := b.Succs[1]
		if truth {
			succ = b.Succs[0]
		}
		stopped, from, ret, innerPhis := in.runBlocks(fr, succ, b, join, nil)
		md.LeaveSide(in)
		if !stopped && !toExit {
			in.Undecided(ifi, "one side of a data-dependent branch returns from the function while the other continues")
		}
		s := side{writes: map[locKey]Val{}, locals: saveLocals(), from: from, order: log, phis: innerPhis, ret: ret}
		// record final values of every written location, then roll back
		for _, e := range log {
			k := locKey{e.obj, pathKey(e.path)}
			s.writes[k] = copyVal(in.get(ifi, e.obj, e.path))
		}
		in.undo = nil
		for i := len(log) - 1; i >= 0; i-- {
			in.set(ifi, log[i].obj, log[i].path, log[i].old)
		}
		fr.locals = make(map[ssa.Value]Val, len(base))
		for k, v := range base {
			fr.locals[k] = v
		}
		return s
	}
	st := run(true)
	sf := run(false)
	in.undo = outerUndo
	// join memory
	paths := map[locKey][]int{}
	for _, s := range []side{st, sf} {
		for _, e := range s.order {
			paths[locKey{e.obj, pathKey(e.path)}] = e.path
		}
	}
	for k, path := range paths {
		cur := in.get(ifi, k.obj, path)
		vt, okT := st.writes[k]
		if !okT {
			vt = cur
		}
		vf, okF := sf.writes[k]
		if !okF {
			vf = cur
		}
		in.set(ifi, k.obj, path, in.joinVals(md, cond, vt, vf))
	}
	if toExit {
		if len(st.ret) != len(sf.ret) {
			in.Undecided(ifi, "the two sides of a data-dependent branch return different numbers of results")
		}
		out := make([]Val, len(st.ret))
		for i := range out {
			out[i] = in.joinVals(md, cond, st.ret[i], sf.ret[i])
		}
		return nil, nil, out, true
	}
	// join phis of the join block
	phiv := map[*ssa.Phi]Val{}
	for _, ins := range join.Instrs {
		ph, ok := ins.(*ssa.Phi)
		if !ok {
			break
		}
		get := func(s side) Val {
			if s.phis != nil {
				if v, ok := s.phis[ph]; ok {
					return v
				}
			}
			for i, p := range join.Preds {
				if p == s.from {
					fr2 := &frame{fn: fr.fn, locals: s.locals}
					return in.operand(fr2, ph.Edges[i])
				}
			}
			in.Undecided(ins, "merge: no phi edge for a side")
			return nil
		}
		phiv[ph] = in.joinVals(md, cond, get(st), get(sf))
	}
	return join, phiv, nil, false
}

// joinVals: equal values stay, unequal ones become ⊤ (domain atoms are joined by the domain).
func (in *Interp) joinVals(md MergeDomain, cond Val, a, b Val) Val {
	switch x := a.(type) {
	case Int:
		if y, ok := b.(Int); ok && x.V.Cmp(y.V) == 0 {
			return a
		}
		return Top{"joined integers differ"}
	case Bool:
		if y, ok := b.(Bool); ok && x.B == y.B {
			return a
		}
		return Top{"joined booleans differ"}
	case Ptr:
		if y, ok := b.(Ptr); ok && x.Obj == y.Obj && pathKey(x.Path) == pathKey(y.Path) {
			return a
		}
		return Top{"joined pointers differ"}
	case SliceV:
		if y, ok := b.(SliceV); ok && x.Obj == y.Obj && pathKey(x.Path) == pathKey(y.Path) && x.Off == y.Off && x.Len == y.Len {
			return a
		}
		return Top{"joined slices differ"}
	case Nil:
		if _, ok := b.(Nil); ok {
			return a
		}
		return Top{"joined nil/non-nil"}
	case *Agg:
		y, ok := b.(*Agg)
		if !ok || len(x.Elems) != len(y.Elems) {
			return Top{"joined aggregates differ in shape"}
		}
		r := &Agg{Elems: make([]Val, len(x.Elems))}
		for i := range x.Elems {
			r.Elems[i] = in.joinVals(md, cond, x.Elems[i], y.Elems[i])
		}
		return r
	case Top:
		return a
	}
	if _, ok := b.(Top); ok {
		return b
	}
	return md.JoinAtoms(in, cond, a, b)
}
