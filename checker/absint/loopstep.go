package absint

import (
	"golang.org/x/tools/go/ssa"

	"verif/checker/load"
)

// ---- state-partitioned loop stepping --------------------------------------------------
//
// Some loops cannot be unrolled along one path (their position variable depends
// on data) and cannot be merged at every branch either (the two sides advance
// the position differently). For those the interpreter offers the inductive
// view: run the function once up to the loop header, then run *single
// iterations* from the header with the header's phis set to a chosen partition
// key. Memory written by an iteration is logged and rolled back, so every
// iteration starts from the state at first arrival (the loop's own writes are
// what the caller's invariant talks about).

type LoopSession struct {
	In     *Interp
	Header *ssa.BasicBlock
	Phis   []*ssa.Phi
	fr     *frame
}

// MemWrite is one location written during an iteration with its final value.
type MemWrite struct {
	Obj  *Object
	Path []int
	Val  Val
}

// StepResult describes one iteration.
type StepResult struct {
	FirstNewObj int              // objects with ID >= FirstNewObj were allocated during this iteration
	Exit        bool             // the function returned instead of coming back to the header
	Ret         []Val            // results when Exit
	Next        map[*ssa.Phi]Val // header phi values on re-entry when !Exit
	Writes      []MemWrite
}

// RunToHeader interprets fn from its entry until control first reaches header and
// returns the session together with the phi values of that first arrival.
func (in *Interp) RunToHeader(fn *ssa.Function, args []Val, header *ssa.BasicBlock) (*LoopSession, map[*ssa.Phi]Val, Outcome) {
	ls := &LoopSession{In: in, Header: header}
	for _, ins := range header.Instrs {
		ph, ok := ins.(*ssa.Phi)
		if !ok {
			break
		}
		ls.Phis = append(ls.Phis, ph)
	}
	var first map[*ssa.Phi]Val
	out := in.Exec(func() []Val {
		in.Stack = append(in.Stack, fn)
		defer func() { in.Stack = in.Stack[:len(in.Stack)-1] }()
		fr := &frame{fn: fn, locals: map[ssa.Value]Val{}}
		for i, p := range fn.Params {
			if i < len(args) {
				fr.locals[p] = args[i]
			}
		}
		ls.fr = fr
		stopped, from, ret, phis := in.runBlocks(fr, fn.Blocks[0], nil, header, nil)
		if !stopped {
			in.Undecided(nil, "%s returned before reaching the loop (results %v)", load.ShortName(fn), ret)
		}
		first = ls.phiVals(from, phis)
		return nil
	})
	return ls, first, out
}

func (ls *LoopSession) phiVals(from *ssa.BasicBlock, merged map[*ssa.Phi]Val) map[*ssa.Phi]Val {
	if merged != nil {
		return merged
	}
	in := ls.In
	idx := -1
	for i, p := range ls.Header.Preds {
		if p == from {
			idx = i
		}
	}
	if idx < 0 {
		in.Undecided(nil, "loop header entered from an unknown predecessor")
	}
	m := map[*ssa.Phi]Val{}
	for _, ph := range ls.Phis {
		m[ph] = in.operand(ls.fr, ph.Edges[idx])
	}
	return m
}

// Step runs one iteration from the header with the given phi values. post is
// called with the result before the iteration's memory writes are rolled back
// (so that it can still read memory and ask the domain to concretise values).
func (ls *LoopSession) Step(phi map[*ssa.Phi]Val, post func(*StepResult)) Outcome {
	in := ls.In
	return in.Exec(func() []Val {
		in.Stack = append(in.Stack, ls.fr.fn)
		var log []undoEntry
		saved := in.undo
		in.undo = &log
		defer func() {
			in.undo = nil
			for i := len(log) - 1; i >= 0; i-- {
				in.set(nil, log[i].obj, log[i].path, log[i].old)
			}
			in.undo = saved
			in.Stack = in.Stack[:len(in.Stack)-1]
		}()
		res := &StepResult{FirstNewObj: in.nextObj + 1}
		next, r, done, merged := in.block(ls.fr, ls.Header, nil, phi)
		if done {
			res.Exit, res.Ret = true, r
		} else {
			prev := ls.Header
			if merged != nil {
				prev = nil
			}
			stopped, from, ret, phis := in.runBlocks(ls.fr, next, prev, ls.Header, merged)
			if !stopped {
				res.Exit, res.Ret = true, ret
			} else {
				res.Next = ls.phiVals(from, phis)
			}
		}
		seen := map[locKey]bool{}
		for _, e := range log {
			k := locKey{e.obj, pathKey(e.path)}
			if seen[k] {
				continue
			}
			seen[k] = true
			res.Writes = append(res.Writes, MemWrite{Obj: e.obj, Path: e.path, Val: copyVal(in.get(nil, e.obj, e.path))})
		}
		if post != nil {
			post(res)
		}
		return nil
	})
}
