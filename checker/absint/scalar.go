package absint

import (
	"fmt"
	"go/token"
	"go/types"
	"math/big"

	"golang.org/x/tools/go/ssa"

	"verif/checker/load"
	"verif/checker/poly"
)

// ---- scalar mode: ring expressions over Z/l with the fiat routines as primitives -------
//
// The ten fiat-crypto routines are primitives with the contract printed in
// their generated doc comments (pre: eval < m, saturated; post: the stated
// congruence and eval < m). A stored scalar is its semantic value (a polynomial
// over Z/l in input symbols) tagged with the domain it is stored in.

var L25519 = func() *big.Int {
	l, _ := new(big.Int).SetString("27742317777372353535851937790883648493", 10)
	return l.Add(l, new(big.Int).Lsh(big.NewInt(1), 252))
}()

type SV struct {
	Mont bool
	Zero bool // the all-zero words: 0 in either domain
	P    *poly.Poly
}

// SByte is a symbolic byte given bit by bit (integer polynomials: constants or bit variables).
type SByte struct{ Bits [8]*poly.Poly }

// SEnc is byte Idx of the canonical little-endian encoding of a scalar value.
type SEnc struct {
	Key string
	Idx int
}

type ScalarDom struct {
	RL           *poly.Ring // mod l
	RZ           *poly.Ring // integers (bytes)
	Globals      map[string]Val
	ReducedBytes [][]Val          // byte arrays isReduced has accepted on this path
	Reduced      map[*Object]bool // byte arrays on which isReduced returned true
	Obls         []string
	Calls        []string // primitive calls in order
	Descend      map[string]bool
	// PrimIsReduced: treat isReduced as an uninterpreted predicate (fork)
	PrimIsReduced bool
}

func NewScalarDom(globals map[string]Val) *ScalarDom {
	return &ScalarDom{RL: poly.NewRing(L25519), RZ: poly.NewRing(nil), Globals: globals, Reduced: map[*Object]bool{}, Descend: map[string]bool{}, PrimIsReduced: true}
}

func (d *ScalarDom) Name() string { return "scalar ring expressions over Z/l" }

func (d *ScalarDom) IsAtom(t types.Type) bool {
	return isNamed(t, load.RootPath, "fiatScalarMontgomeryDomainFieldElement") || isNamed(t, load.RootPath, "fiatScalarNonMontgomeryDomainFieldElement")
}
func (d *ScalarDom) ZeroAtom(t types.Type) Val { return &SV{Zero: true, Mont: true, P: d.RL.Int(0)} }

func (d *ScalarDom) Sym(name string) *SV { return &SV{Mont: true, P: d.RL.Var(name)} }

// InputByte: byte i of input slice src, as 8 bit variables.
func (d *ScalarDom) InputByte(src string, i int) SByte {
	var b SByte
	for j := 0; j < 8; j++ {
		b.Bits[j] = d.RZ.BitVar(fmt.Sprintf("%s[%d].%d", src, i, j))
	}
	return b
}

func (d *ScalarDom) byteBits(v Val) (SByte, bool) {
	switch x := v.(type) {
	case SByte:
		return x, true
	case Int:
		var b SByte
		for j := 0; j < 8; j++ {
			b.Bits[j] = d.RZ.Int(int64(x.V.Bit(j)))
		}
		return b, true
	}
	return SByte{}, false
}

func (d *ScalarDom) BinOp(in *Interp, op token.Token, x, y Val, xt types.Type, pos ssa.Instruction) Val {
	if _, isC := x.(Int); isC && (op == token.AND || op == token.OR || op == token.XOR) {
		if _, isB := y.(SByte); isB {
			x, y = y, x // commutative: constant on the right
		}
	}
	if bx, ok := x.(SByte); ok {
		if c, ok := y.(Int); ok {
			var r SByte
			if op == token.SHL || op == token.SHR {
				// shift of a byte by a constant: bits move, vacated positions are zero (uint8 arithmetic)
				k := int(c.V.Int64())
				for j := 0; j < 8; j++ {
					src := j - k
					if op == token.SHR {
						src = j + k
					}
					if src >= 0 && src < 8 {
						r.Bits[j] = bx.Bits[src]
					} else {
						r.Bits[j] = d.RZ.Int(0)
					}
				}
				return r
			}
			for j := 0; j < 8; j++ {
				bit := c.V.Bit(j)
				switch op {
				case token.AND_NOT:
					if bit == 1 {
						r.Bits[j] = d.RZ.Int(0)
					} else {
						r.Bits[j] = bx.Bits[j]
					}
				case token.XOR:
					if bit == 1 {
						r.Bits[j] = d.RZ.Int(1).Sub(bx.Bits[j])
					} else {
						r.Bits[j] = bx.Bits[j]
					}
				case token.AND:
					if bit == 1 {
						r.Bits[j] = bx.Bits[j]
					} else {
						r.Bits[j] = d.RZ.Int(0)
					}
				case token.OR:
					if bit == 1 {
						r.Bits[j] = d.RZ.Int(1)
					} else {
						r.Bits[j] = bx.Bits[j]
					}
				default:
					in.Undecided(pos, "scalar domain: %s on a symbolic byte", op)
				}
			}
			return r
		}
	}
	in.Undecided(pos, "scalar domain has no transfer function for %T %s %T", x, op, y)
	return nil
}
func (d *ScalarDom) UnOp(in *Interp, op token.Token, x Val, xt types.Type, pos ssa.Instruction) Val {
	in.Undecided(pos, "scalar domain: unary %s on %T", op, x)
	return nil
}
func (d *ScalarDom) Convert(in *Interp, x Val, from, to types.Type, pos ssa.Instruction) Val {
	in.Undecided(pos, "scalar domain: conversion of %T", x)
	return nil
}
func (d *ScalarDom) Branch(in *Interp, cond Val, site *ssa.If) (bool, bool, bool) {
	return false, false, false
}
func (d *ScalarDom) Assume(in *Interp, cond Val, truth bool, site *ssa.If) {}

func (d *ScalarDom) GlobalValue(in *Interp, g *ssa.Global) (Val, bool) {
	v, ok := d.Globals[g.Name()]
	if !ok {
		return nil, false
	}
	return d.importVal(in, v, g.Type().(*types.Pointer).Elem()), true
}

// importVal converts a concretely evaluated value into this domain (scalar words become semantic values).
func (d *ScalarDom) importVal(in *Interp, v Val, t types.Type) Val {
	if d.IsAtom(t) {
		if a, ok := v.(*Agg); ok && len(a.Elems) == 4 {
			w := new(big.Int)
			for k := 3; k >= 0; k-- {
				iv, ok := a.Elems[k].(Int)
				if !ok {
					return Top{"non-constant scalar literal"}
				}
				w.Lsh(w, 64).Add(w, iv.V)
			}
			rinv := new(big.Int).ModInverse(new(big.Int).Lsh(big.NewInt(1), 256), L25519)
			val := new(big.Int).Mul(w, rinv)
			val.Mod(val, L25519)
			return &SV{Mont: true, P: d.RL.Const(val)}
		}
		return Top{"scalar literal"}
	}
	switch x := v.(type) {
	case Ptr:
		et := t.Underlying().(*types.Pointer).Elem()
		obj := in.NewObject(x.Obj.Name, et, d.importVal(in, x.Obj.Val, et))
		return Ptr{Obj: obj}
	case *Agg:
		out := &Agg{Elems: make([]Val, len(x.Elems))}
		switch u := t.Underlying().(type) {
		case *types.Struct:
			for i := range x.Elems {
				out.Elems[i] = d.importVal(in, x.Elems[i], u.Field(i).Type())
			}
		case *types.Array:
			for i := range x.Elems {
				out.Elems[i] = d.importVal(in, x.Elems[i], u.Elem())
			}
		default:
			return copyVal(v)
		}
		return out
	}
	return v
}

func (d *ScalarDom) sv(in *Interp, site ssa.Instruction, p Val, wantMont bool, who string) *SV {
	v := in.Load(site, p)
	s, ok := v.(*SV)
	if !ok {
		in.Undecided(site, "%s: argument is not a scalar value (%T)", who, v)
	}
	if !s.Zero && s.Mont != wantMont {
		form := map[bool]string{true: "Montgomery", false: "non-Montgomery"}
		in.Undecided(site, "%s expects its argument in %s form but it is in %s form", who, form[wantMont], form[s.Mont])
	}
	return s
}

func (d *ScalarDom) Call(in *Interp, site ssa.Instruction, fn *ssa.Function, args []Val) ([]Val, bool) {
	if fn.Pkg != in.P.Root {
		return nil, false
	}
	name := load.ShortName(fn)
	if d.Descend[name] {
		return nil, false
	}
	put := func(p Val, s *SV) { in.Store(site, p, s) }
	switch name {
	case "fiatScalarMul", "fiatScalarAdd", "fiatScalarSub":
		a, b := d.sv(in, site, args[1], true, name), d.sv(in, site, args[2], true, name)
		var r *poly.Poly
		switch name {
		case "fiatScalarMul":
			r = a.P.Mul(b.P)
		case "fiatScalarAdd":
			r = a.P.Add(b.P)
		default:
			r = a.P.Sub(b.P)
		}
		d.Calls = append(d.Calls, name)
		put(args[0], &SV{Mont: true, P: r})
		return nil, true
	case "fiatScalarOpp":
		a := d.sv(in, site, args[1], true, name)
		d.Calls = append(d.Calls, name)
		put(args[0], &SV{Mont: true, P: a.P.Neg()})
		return nil, true
	case "fiatScalarFromMontgomery":
		a := d.sv(in, site, args[1], true, name)
		d.Calls = append(d.Calls, name)
		put(args[0], &SV{Mont: false, P: a.P})
		return nil, true
	case "fiatScalarToMontgomery":
		a := d.sv(in, site, args[1], false, name)
		d.Calls = append(d.Calls, name)
		put(args[0], &SV{Mont: true, P: a.P})
		return nil, true
	case "fiatScalarFromBytes":
		ptr, _ := args[1].(Ptr)
		arr, ok := in.Load(site, args[1]).(*Agg)
		if !ok || len(arr.Elems) != 32 {
			in.Undecided(site, "fiatScalarFromBytes: argument is not a 32-byte array")
		}
		val := d.RL.Int(0)
		bound := new(big.Int)
		for i := 31; i >= 0; i-- {
			b, ok := d.byteBits(arr.Elems[i])
			if !ok {
				in.Undecided(site, "fiatScalarFromBytes: byte %d is %T", i, arr.Elems[i])
			}
			bmax := int64(0)
			for j := 0; j < 8; j++ {
				c, isC := b.Bits[j].IsConst()
				if !isC || c.Sign() != 0 {
					bmax |= 1 << uint(j)
				}
				// move the integer bit polynomial into Z/l
				term := d.RL.Int(0)
				b.Bits[j].Terms(func(vars map[string]int, coeff *big.Int) {
					m := d.RL.Const(coeff)
					for v := range vars {
						m = m.Mul(d.RL.BitVar(v))
					}
					term = term.Add(m)
				})
				val = val.Add(term.Scale(new(big.Int).Lsh(big.NewInt(1), uint(8*i+j))))
			}
			bound.Lsh(bound, 8).Add(bound, big.NewInt(bmax))
		}
		okPre := bound.Cmp(L25519) < 0 || d.Reduced[ptr.Obj] || d.sameAsReduced(arr.Elems)
		d.Obls = append(d.Obls, fmt.Sprintf("fiatScalarFromBytes precondition eval < l at %s: input ≤ %d bits%s: %v", in.Pos(site), bound.BitLen(), map[bool]string{true: " (guarded by isReduced)", false: ""}[d.Reduced[ptr.Obj]], okPre))
		if !okPre {
			in.Undecided(site, "fiatScalarFromBytes is applied to a value that may be ≥ l (up to %d bits, not guarded by isReduced): its precondition fails and the result is unspecified", bound.BitLen())
		}
		d.Calls = append(d.Calls, name)
		put(args[0], &SV{Mont: false, P: val})
		return nil, true
	case "fiatScalarToBytes":
		a := d.sv(in, site, args[1], false, name)
		d.Calls = append(d.Calls, name)
		arr := &Agg{Elems: make([]Val, 32)}
		if c, ok := a.P.IsConst(); ok {
			for i := range arr.Elems {
				b := new(big.Int).Rsh(c, uint(8*i))
				arr.Elems[i] = Int{V: b.And(b, big.NewInt(255))}
			}
		} else {
			for i := range arr.Elems {
				arr.Elems[i] = SEnc{Key: a.P.Key(), Idx: i}
			}
		}
		in.Store(site, args[0], arr)
		return nil, true
	case "isReduced":
		if !d.PrimIsReduced {
			return nil, false
		}
		s, ok := args[0].(SliceV)
		if !ok || s.Len != 32 {
			return []Val{Bool{false}}, true
		}
		if in.Choose("isReduced(x)") {
			d.Reduced[s.Obj] = true
			// what is known to be < l is the VALUE: remember the bytes, so that a copy of them is known to be too
			if a, ok := s.Obj.Val.(*Agg); ok && len(a.Elems) >= 32 {
				d.ReducedBytes = append(d.ReducedBytes, append([]Val{}, a.Elems[:32]...))
			}
			return []Val{Bool{true}}, true
		}
		return []Val{Bool{false}}, true
	case "fiatScalarNonzero", "fiatScalarCmovznzU64":
		in.Undecided(site, "%s has no meaning in the ring-expression domain", name)
	}
	return nil, false
}

// sameAsReduced: the 32 bytes are, bit for bit, bytes that isReduced has accepted on this path.
func (d *ScalarDom) sameAsReduced(bs []Val) bool {
	for _, ref := range d.ReducedBytes {
		same := len(bs) == 32
		for i := 0; same && i < 32; i++ {
			x, okx := d.byteBits(bs[i])
			y, oky := d.byteBits(ref[i])
			if !okx || !oky {
				same = false
				break
			}
			for j := 0; j < 8; j++ {
				if !x.Bits[j].Equal(y.Bits[j]) {
					same = false
				}
			}
		}
		if same {
			return true
		}
	}
	return false
}
