package absint

import (
	"fmt"
	"go/token"
	"go/types"
	"math/big"
	"sort"
	"strings"

	"golang.org/x/tools/go/ssa"

	"verif/checker/load"
)

// ---- E8 / E6: bit-provenance domain ------------------------------------------------
//
// A machine word is a vector of bits; each bit is a constant, one bit of an
// input (src, index), the OR of a set of input bits (possibly negated), or
// unknown. Shifts, masks, byte (de)composition and OR-folds are exact; anything
// arithmetic makes the affected word unknown.

type Bit struct {
	Const int8     // 0, 1, or -1 when symbolic
	Neg   bool     // symbolic: NOT(OR(Set))
	Set   []string // sorted "src:idx" keys; OR of these bits
	Top   bool
}

func bitConst(v int) Bit { return Bit{Const: int8(v)} }
func bitSym(src string, idx int) Bit {
	return Bit{Const: -1, Set: []string{fmt.Sprintf("%s:%d", src, idx)}}
}
func bitTop() Bit { return Bit{Const: -1, Top: true} }

func (b Bit) String() string {
	switch {
	case b.Top:
		return "?"
	case b.Const >= 0:
		return fmt.Sprint(b.Const)
	}
	s := strings.Join(b.Set, "|")
	if len(b.Set) > 3 {
		s = fmt.Sprintf("OR(%d bits: %s…%s)", len(b.Set), b.Set[0], b.Set[len(b.Set)-1])
	}
	if b.Neg {
		return "¬(" + s + ")"
	}
	return s
}

func (b Bit) Equal(o Bit) bool {
	if b.Top || o.Top {
		return false
	}
	if b.Const != o.Const || b.Neg != o.Neg || len(b.Set) != len(o.Set) {
		return false
	}
	for i := range b.Set {
		if b.Set[i] != o.Set[i] {
			return false
		}
	}
	return true
}

func bitNot(b Bit) Bit {
	switch {
	case b.Top:
		return b
	case b.Const >= 0:
		return bitConst(1 - int(b.Const))
	}
	return Bit{Const: -1, Neg: !b.Neg, Set: b.Set}
}

func bitOr(a, b Bit) Bit {
	switch {
	case a.Const == 1 || b.Const == 1:
		return bitConst(1)
	case a.Const == 0:
		return b
	case b.Const == 0:
		return a
	case a.Top || b.Top || a.Neg || b.Neg:
		return bitTop()
	}
	m := map[string]bool{}
	for _, k := range a.Set {
		m[k] = true
	}
	for _, k := range b.Set {
		m[k] = true
	}
	var ks []string
	for k := range m {
		ks = append(ks, k)
	}
	sort.Strings(ks)
	return Bit{Const: -1, Set: ks}
}

func bitAnd(a, b Bit) Bit {
	switch {
	case a.Const == 0 || b.Const == 0:
		return bitConst(0)
	case a.Const == 1:
		return b
	case b.Const == 1:
		return a
	case !a.Top && a.Equal(b):
		return a
	}
	return bitTop()
}

func bitXor(a, b Bit) Bit {
	switch {
	case a.Const == 0:
		return b
	case b.Const == 0:
		return a
	case a.Const == 1:
		return bitNot(b)
	case b.Const == 1:
		return bitNot(a)
	case !a.Top && a.Equal(b):
		return bitConst(0)
	case !a.Top && !b.Top && len(a.Set) == 1 && len(b.Set) == 1 && !strings.Contains(a.Set[0], "^") && !strings.Contains(b.Set[0], "^"):
		// the difference of two input bits is an atom of its own: "x^y" (names ordered); OR-sets of such
		// atoms express "the two words differ somewhere"
		k1, k2 := a.Set[0], b.Set[0]
		if k2 < k1 {
			k1, k2 = k2, k1
		}
		return Bit{Const: -1, Neg: a.Neg != b.Neg, Set: []string{k1 + "^" + k2}}
	}
	return bitTop()
}

// XorAtom names the difference of two input bits as bitXor does.
func XorAtom(k1, k2 string) string {
	if k2 < k1 {
		k1, k2 = k2, k1
	}
	return k1 + "^" + k2
}

// eqWords: 1 iff the two words agree in every bit: ¬OR_i (x_i ⊕ y_i), as a w-bit word.
func eqWords(xs, ys []Bit, w int) *BV {
	acc := bitConst(0)
	for i := range xs {
		acc = bitOr(acc, bitXor(xs[i], ys[i]))
	}
	r := &BV{Bits: make([]Bit, w)}
	r.Bits[0] = bitNot(acc)
	for i := 1; i < w; i++ {
		r.Bits[i] = bitConst(0)
	}
	return r
}

// BV is a bit vector of a fixed width (least significant bit first).
type BV struct {
	Bits  []Bit
	negOf *BV // set when this word is the two's-complement negation of negOf
}

func (v *BV) String() string {
	var s []string
	for i := len(v.Bits) - 1; i >= 0; i-- {
		s = append(s, v.Bits[i].String())
	}
	return "[" + strings.Join(s, " ") + "]"
}

func bvConst(x *big.Int, w int) *BV {
	v := &BV{Bits: make([]Bit, w)}
	u := x
	if u.Sign() < 0 {
		u = new(big.Int).Add(u, new(big.Int).Lsh(big.NewInt(1), uint(w)))
	}
	for i := 0; i < w; i++ {
		v.Bits[i] = bitConst(int(u.Bit(i)))
	}
	return v
}

func BVSym(src string, first, w int) *BV {
	v := &BV{Bits: make([]Bit, w)}
	for i := 0; i < w; i++ {
		v.Bits[i] = bitSym(src, first+i)
	}
	return v
}

// BVSymPadded is a w-bit word whose n low bits are input bits src:first… and whose other bits are 0.
func BVSymPadded(src string, first, n, w int) Val {
	v := &BV{Bits: make([]Bit, w)}
	for i := 0; i < w; i++ {
		if i < n {
			v.Bits[i] = bitSym(src, first+i)
		} else {
			v.Bits[i] = bitConst(0)
		}
	}
	if n <= 0 {
		return MkInt(0)
	}
	return v
}

func bvTop(w int) *BV {
	v := &BV{Bits: make([]Bit, w)}
	for i := range v.Bits {
		v.Bits[i] = bitTop()
	}
	return v
}

// concrete value if all bits are constants
func (v *BV) concrete() (*big.Int, bool) {
	x := new(big.Int)
	for i, b := range v.Bits {
		if b.Const < 0 {
			return nil, false
		}
		if b.Const == 1 {
			x.SetBit(x, i, 1)
		}
	}
	return x, true
}

type BitDom struct {
	// Prims: in-repo functions treated as primitives; the hook records the call and returns results.
	Prims map[string]func(in *Interp, site ssa.Instruction, args []Val) []Val
	prog  *load.Program
	// Enum: arithmetic and comparisons on words with symbolic bits are decided by
	// enumerating those bits (one declared two-way fork per input bit, remembered
	// for the rest of the path) instead of giving up.
	Enum bool
}

// Assignment returns the input bits fixed so far on this path (Enum mode).
func (d *BitDom) Assignment(in *Interp) map[string]int8 {
	m, _ := in.Data["bitassign"].(map[string]int8)
	if m == nil {
		m = map[string]int8{}
		in.Data["bitassign"] = m
	}
	return m
}

// ResetAssignment forgets all fixed bits (start of a new path).
func (d *BitDom) ResetAssignment(in *Interp) { in.Data["bitassign"] = map[string]int8{} }

// resolve replaces bits already fixed on this path by their constants.
func (d *BitDom) resolve(in *Interp, v *BV) *BV {
	asg := d.Assignment(in)
	if len(asg) == 0 {
		return v
	}
	var r *BV
	for i, b := range v.Bits {
		if b.Const >= 0 || b.Top || len(b.Set) != 1 {
			continue
		}
		if val, ok := asg[b.Set[0]]; ok {
			if r == nil {
				r = &BV{Bits: append([]Bit{}, v.Bits...)}
			}
			if b.Neg {
				val = 1 - val
			}
			r.Bits[i] = bitConst(int(val))
		}
	}
	if r == nil {
		return v
	}
	return r
}

// bounds of the unsigned reading: symbolic bits at 0 / at 1.
func (v *BV) bounds() (lo, hi *big.Int, ok bool) {
	lo, hi = new(big.Int), new(big.Int)
	for i, b := range v.Bits {
		switch {
		case b.Top:
			return nil, nil, false
		case b.Const == 1:
			lo.SetBit(lo, i, 1)
			hi.SetBit(hi, i, 1)
		case b.Const < 0:
			hi.SetBit(hi, i, 1)
		}
	}
	return lo, hi, true
}

// Concretise fixes every symbolic bit of v (a declared fork per input bit) and returns the integer.
func (d *BitDom) Concretise(in *Interp, x Val, t types.Type, pos ssa.Instruction) Int {
	if iv, ok := x.(Int); ok {
		return iv
	}
	v := d.lift(in, x, t)
	if v == nil {
		in.Undecided(pos, "bit domain: cannot enumerate %T", x)
	}
	v = d.resolve(in, v)
	asg := d.Assignment(in)
	val := new(big.Int)
	for i, b := range v.Bits {
		switch {
		case b.Top || (b.Const < 0 && len(b.Set) != 1):
			in.Undecided(pos, "bit domain: bit %d of the word is %s; only plain input bits can be enumerated", i, b)
		case b.Const == 1:
			val.SetBit(val, i, 1)
		case b.Const < 0:
			bit, ok := asg[b.Set[0]]
			if !ok {
				if in.Choose(b.Set[0]) {
					bit = 1
				}
				asg[b.Set[0]] = bit
			}
			if b.Neg {
				bit = 1 - bit
			}
			if bit == 1 {
				val.SetBit(val, i, 1)
			}
		}
	}
	if _, signed, ok := intInfo(t, in.WordBits); ok && signed {
		val = Wrap(val, len(v.Bits), true)
	}
	return Int{V: val}
}

func (d *BitDom) enumBinOp(in *Interp, op token.Token, x, y Val, xt types.Type, pos ssa.Instruction) (Val, bool) {
	switch op {
	case token.ADD, token.SUB, token.MUL, token.QUO, token.REM, token.LSS, token.GTR, token.LEQ, token.GEQ, token.EQL, token.NEQ:
	case token.SHL, token.SHR:
		if _, ok := y.(Int); ok {
			return nil, false
		}
	default:
		return nil, false
	}
	if bx, ok := x.(*BV); ok {
		x = d.out(d.resolve(in, bx))
	}
	if by, ok := y.(*BV); ok {
		y = d.out(d.resolve(in, by))
	}
	// comparisons decided by the ranges of the two words (unsigned reading) need no fork
	if _, signed, _ := intInfo(xt, in.WordBits); !signed {
		switch op {
		case token.LSS, token.GTR, token.LEQ, token.GEQ, token.EQL, token.NEQ:
			a, b := d.lift(in, x, xt), d.lift(in, y, xt)
			if a != nil && b != nil {
				alo, ahi, ok1 := a.bounds()
				blo, bhi, ok2 := b.bounds()
				if ok1 && ok2 {
					below := ahi.Cmp(blo) < 0     // always a < b
					above := alo.Cmp(bhi) > 0     // always a > b
					notAbove := ahi.Cmp(blo) <= 0 // always a <= b
					notBelow := alo.Cmp(bhi) >= 0 // always a >= b
					switch op {
					case token.LSS:
						if below {
							return Bool{true}, true
						}
						if notBelow {
							return Bool{false}, true
						}
					case token.GTR:
						if above {
							return Bool{true}, true
						}
						if notAbove {
							return Bool{false}, true
						}
					case token.LEQ:
						if notAbove {
							return Bool{true}, true
						}
						if above {
							return Bool{false}, true
						}
					case token.GEQ:
						if notBelow {
							return Bool{true}, true
						}
						if below {
							return Bool{false}, true
						}
					case token.EQL:
						if below || above {
							return Bool{false}, true
						}
					case token.NEQ:
						if below || above {
							return Bool{true}, true
						}
					}
				}
			}
		}
	}
	xi := d.Concretise(in, x, xt, pos)
	yt := xt
	if op == token.SHL || op == token.SHR {
		yt = types.Typ[types.Uint64]
	}
	yi := d.Concretise(in, y, yt, pos)
	return in.concreteBinOp(pos, op, xi, yi, xt), true
}

func NewBitDom(p *load.Program) *BitDom {
	return &BitDom{Prims: map[string]func(*Interp, ssa.Instruction, []Val) []Val{}, prog: p}
}

func (d *BitDom) Name() string              { return "bit provenance (E8/E6)" }
func (d *BitDom) IsAtom(t types.Type) bool  { return false }
func (d *BitDom) ZeroAtom(t types.Type) Val { return MkInt(0) }

func (d *BitDom) lift(in *Interp, v Val, t types.Type) *BV {
	w := 64
	if b, _, ok := intInfo(t, in.WordBits); ok {
		w = b
	}
	switch x := v.(type) {
	case *BV:
		if len(x.Bits) == w {
			return x
		}
		return resize(x, w)
	case Int:
		return bvConst(x.V, w)
	}
	return nil
}

func negPair(a, b *BV) *BV {
	if a.negOf != nil && a.negOf == b {
		return b
	}
	if b.negOf != nil && b.negOf == a {
		return a
	}
	return nil
}

func resize(x *BV, w int) *BV {
	v := &BV{Bits: make([]Bit, w)}
	for i := 0; i < w; i++ {
		if i < len(x.Bits) {
			v.Bits[i] = x.Bits[i]
		} else {
			v.Bits[i] = bitConst(0)
		}
	}
	return v
}

func (d *BitDom) out(v *BV) Val {
	if c, ok := v.concrete(); ok {
		return Int{V: c}
	}
	return v
}

func (d *BitDom) BinOp(in *Interp, op token.Token, x, y Val, xt types.Type, pos ssa.Instruction) Val {
	if d.Enum {
		if r, ok := d.enumBinOp(in, op, x, y, xt, pos); ok {
			return r
		}
	}
	a := d.lift(in, x, xt)
	if a == nil {
		in.Undecided(pos, "bit domain: operand %T", x)
	}
	w := len(a.Bits)
	switch op {
	case token.SHL, token.SHR:
		k, ok := y.(Int)
		if !ok {
			return bvTop(w)
		}
		s := int(k.V.Int64())
		r := &BV{Bits: make([]Bit, w)}
		for i := 0; i < w; i++ {
			j := i - s
			if op == token.SHR {
				j = i + s
			}
			if j >= 0 && j < w {
				r.Bits[i] = a.Bits[j]
			} else {
				r.Bits[i] = bitConst(0)
			}
		}
		if _, signed, _ := intInfo(xt, in.WordBits); signed && op == token.SHR {
			for i := w - s; i < w; i++ {
				if i >= 0 {
					r.Bits[i] = a.Bits[w-1]
				}
			}
		}
		return d.out(r)
	}
	b := d.lift(in, y, xt)
	if b == nil {
		in.Undecided(pos, "bit domain: operand %T", y)
	}
	r := &BV{Bits: make([]Bit, w)}
	switch op {
	case token.AND:
		for i := range r.Bits {
			r.Bits[i] = bitAnd(a.Bits[i], b.Bits[i])
		}
	case token.OR:
		// n | −n : bit i is the OR of bits 0..i of n (two's complement: −n_i = n_i ⊕ OR_{j<i} n_j, and a | (a⊕b) = a | b)
		if src := negPair(a, b); src != nil {
			acc := bitConst(0)
			for i := range r.Bits {
				acc = bitOr(acc, src.Bits[i])
				r.Bits[i] = acc
			}
			return d.out(r)
		}
		for i := range r.Bits {
			r.Bits[i] = bitOr(a.Bits[i], b.Bits[i])
		}
	case token.XOR:
		for i := range r.Bits {
			r.Bits[i] = bitXor(a.Bits[i], b.Bits[i])
		}
	case token.AND_NOT:
		for i := range r.Bits {
			r.Bits[i] = bitAnd(a.Bits[i], bitNot(b.Bits[i]))
		}
	case token.ADD, token.SUB, token.MUL, token.QUO, token.REM:
		// x + 0, x * 1 …
		if yc, ok := y.(Int); ok && yc.V.Sign() == 0 && (op == token.ADD || op == token.SUB) {
			return x
		}
		return bvTop(w)
	default:
		in.Undecided(pos, "bit domain cannot evaluate %s on symbolic words", op)
	}
	return d.out(r)
}

func (d *BitDom) UnOp(in *Interp, op token.Token, x Val, xt types.Type, pos ssa.Instruction) Val {
	a := d.lift(in, x, xt)
	if a == nil {
		in.Undecided(pos, "bit domain: operand %T", x)
	}
	if op == token.XOR {
		r := &BV{Bits: make([]Bit, len(a.Bits))}
		for i := range r.Bits {
			r.Bits[i] = bitNot(a.Bits[i])
		}
		return d.out(r)
	}
	if op == token.SUB && d.Enum {
		return in.concreteUnOp(pos, op, d.Concretise(in, x, xt, pos), xt)
	}
	if op == token.SUB {
		// −n: individual bits are not OR-sets, but n | −n is the prefix OR (see BinOp)
		t := bvTop(len(a.Bits))
		t.negOf = a
		return t
	}
	return bvTop(len(a.Bits))
}

func (d *BitDom) Convert(in *Interp, x Val, from, to types.Type, pos ssa.Instruction) Val {
	a := d.lift(in, x, from)
	w, _, ok := intInfo(to, in.WordBits)
	if a == nil || !ok {
		in.Undecided(pos, "bit domain cannot convert %T to %s", x, to)
	}
	if _, signed, _ := intInfo(from, in.WordBits); signed && w > len(a.Bits) {
		r := &BV{Bits: make([]Bit, w)}
		for i := 0; i < w; i++ {
			if i < len(a.Bits) {
				r.Bits[i] = a.Bits[i]
			} else {
				r.Bits[i] = a.Bits[len(a.Bits)-1]
			}
		}
		return d.out(r)
	}
	return d.out(resize(a, w))
}

func (d *BitDom) Branch(in *Interp, cond Val, site *ssa.If) (bool, bool, bool) {
	return false, false, false
}
func (d *BitDom) Assume(in *Interp, cond Val, truth bool, site *ssa.If) {}

func (d *BitDom) Call(in *Interp, site ssa.Instruction, fn *ssa.Function, args []Val) ([]Val, bool) {
	name := fn.String()
	if in.P.InRepo(fn) {
		if h, ok := d.Prims[load.ShortName(fn)]; ok {
			return h(in, site, args), true
		}
		return nil, false
	}
	u8, u64 := types.Typ[types.Uint8], types.Typ[types.Uint64]
	switch name {
	case "(encoding/binary.littleEndian).Uint64":
		el := in.SliceElems(site, args[1])
		if len(el) < 8 {
			return nil, false
		}
		r := &BV{Bits: make([]Bit, 64)}
		for k := 0; k < 8; k++ {
			b := d.lift(in, el[k], u8)
			if b == nil {
				in.Undecided(site, "Uint64 of %T", el[k])
			}
			copy(r.Bits[8*k:], b.Bits)
		}
		return []Val{d.out(r)}, true
	case "(encoding/binary.littleEndian).PutUint64":
		s, ok := args[1].(SliceV)
		v := d.lift(in, args[2], u64)
		if !ok || s.Len < 8 || v == nil {
			return nil, false
		}
		for k := 0; k < 8; k++ {
			in.SetSliceElem(site, s, k, d.out(&BV{Bits: append([]Bit{}, v.Bits[8*k:8*k+8]...)}))
		}
		return nil, true
	case "crypto/subtle.ConstantTimeCompare":
		if h, ok := d.Prims[name]; ok {
			return h(in, site, args), true
		}
		xs, ys := in.SliceElems(site, args[0]), in.SliceElems(site, args[1])
		if len(xs) != len(ys) {
			return []Val{MkInt(0)}, true
		}
		var xb, yb []Bit
		for i := range xs {
			a, b := d.lift(in, xs[i], u8), d.lift(in, ys[i], u8)
			if a == nil || b == nil {
				in.Undecided(site, "ConstantTimeCompare of %T and %T", xs[i], ys[i])
			}
			xb, yb = append(xb, a.Bits...), append(yb, b.Bits...)
		}
		return []Val{d.out(eqWords(xb, yb, 64))}, true
	case "crypto/subtle.ConstantTimeEq", "crypto/subtle.ConstantTimeByteEq":
		t := types.Type(types.Typ[types.Int32])
		if name == "crypto/subtle.ConstantTimeByteEq" {
			t = u8
		}
		a, b := d.lift(in, args[0], t), d.lift(in, args[1], t)
		if a == nil || b == nil {
			in.Undecided(site, "%s of %T and %T", name, args[0], args[1])
		}
		return []Val{d.out(eqWords(a.Bits, b.Bits, 64))}, true
	}
	return nil, false
}
