// Package taint is engine E2: secret-flow (constant-time) analysis over go/ssa.
// Registers are tracked flow-sensitively (SSA); memory by one bit per object.
// See DESIGN §3 E2.
package taint

import (
	"fmt"
	"go/constant"
	"go/token"
	"go/types"
	"sort"
	"strings"

	"golang.org/x/tools/go/ssa"

	"verif/checker/effects"
	"verif/checker/load"
	"verif/checker/report"
)

type Engine struct {
	P           *load.Program
	A           *effects.Analysis
	CT          map[*ssa.Function]bool // constant-time set
	VarTimeOnly []*ssa.Function

	val       map[ssa.Value]bool              // tainted registers
	obj       map[effects.Root]bool           // tainted local objects
	param     map[*ssa.Parameter]bool         // tainted scalar parameters (joined over call sites)
	private   map[*ssa.Function]*ssa.Function // function -> the decoder it is private to
	NValidity int
	ret       map[*ssa.Function][]bool // tainted results
	retObj    map[*ssa.Function][]bool // result k may point to a callee-local object holding secrets
	changed   bool
	Problems  []string
	NSinks    map[string]int
}

// allow-listed external callees (tainted arguments are acceptable)
var allow = map[string]bool{
	"math/bits.Mul64": true, "math/bits.Add64": true, "math/bits.Sub64": true,
	"(encoding/binary.littleEndian).Uint64": true, "(encoding/binary.littleEndian).PutUint64": true,
	"crypto/subtle.ConstantTimeByteEq": true, "crypto/subtle.ConstantTimeCompare": true,
	"crypto/subtle.ConstantTimeEq": true, "crypto/subtle.ConstantTimeSelect": true, "crypto/subtle.ConstantTimeLessOrEq": true,
	"errors.New": true, "(*sync.Once).Do": true,
}

func New(a *effects.Analysis) *Engine {
	e := &Engine{P: a.P, A: a, CT: map[*ssa.Function]bool{}, val: map[ssa.Value]bool{}, obj: map[effects.Root]bool{},
		param: map[*ssa.Parameter]bool{}, ret: map[*ssa.Function][]bool{}, retObj: map[*ssa.Function][]bool{}, NSinks: map[string]int{}}
	var ctRoots []*ssa.Function
	for _, f := range a.P.APIRoots() {
		if !strings.HasPrefix(f.Name(), "VarTime") {
			ctRoots = append(ctRoots, f)
		}
	}
	e.CT = a.P.Reachable(ctRoots)
	for _, f := range a.P.Funcs {
		if !e.CT[f] && !load.IsInitFunc(f) {
			e.VarTimeOnly = append(e.VarTimeOnly, f)
		}
	}
	e.run()
	return e
}

func (e *Engine) set(v ssa.Value, t bool) {
	if t && !e.val[v] {
		e.val[v] = true
		e.changed = true
	}
}

func (e *Engine) tainted(v ssa.Value) bool {
	switch x := v.(type) {
	case *ssa.Const, *ssa.Function, *ssa.Global, *ssa.Builtin:
		return false
	case *ssa.Parameter:
		return e.param[x]
	}
	return e.val[v]
}

func isPtrLike(t types.Type) bool {
	switch t.Underlying().(type) {
	case *types.Pointer, *types.Slice:
		return true
	}
	return false
}

// memTainted: may a load through addr observe secret data?
func (e *Engine) memTainted(fi *effects.FuncInfo, addr ssa.Value) bool {
	pvs := fi.PtsOf(addr)
	if len(pvs) == 0 {
		return true
	}
	for _, pv := range pvs {
		switch pv.Loc.Root.Kind {
		case effects.KParam, effects.KElem:
			return true
		case effects.KFresh:
			if e.obj[pv.Loc.Root] {
				return true
			}
		case effects.KGlobal, effects.KGPointee:
			// package-level constants and precomputed tables: public contents
			// (R-GLOBAL shows nothing secret is ever written to them)
		}
	}
	return false
}

func (e *Engine) taintObj(fi *effects.FuncInfo, addr ssa.Value) {
	for _, pv := range fi.PtsOf(addr) {
		if pv.Loc.Root.Kind == effects.KFresh && !e.obj[pv.Loc.Root] {
			e.obj[pv.Loc.Root] = true
			e.changed = true
		}
	}
}

func (e *Engine) run() {
	// API roots: every non-pointer parameter is secret
	for _, f := range e.P.Funcs {
		if e.P.IsAPIRoot(f) {
			for _, p := range f.Params {
				if !isPtrLike(p.Type()) {
					e.param[p] = true
				}
			}
		}
	}
	e.changed = true
	for iter := 0; e.changed && iter < 100; iter++ {
		e.changed = false
		for _, f := range e.P.Funcs {
			e.flow(f)
		}
	}
	if e.changed {
		e.Problems = append(e.Problems, "UNDECIDED taint fixpoint did not converge")
	}
}

func valKey(v ssa.Value) string {
	if c, ok := v.(*ssa.Const); ok {
		if c.Value == nil {
			return "const:nil"
		}
		return "const:" + c.Value.ExactString()
	}
	return fmt.Sprintf("%p", v)
}

// sideValues: starting on one side of branch block x, which distinct values
// can enter the merge (the phi edges of block m, or the function results when
// m is nil) without passing through x or m again?
func sideValues(x, start, m *ssa.BasicBlock, phi *ssa.Phi, resultIdx int) map[string]bool {
	vals := map[string]bool{}
	seen := map[*ssa.BasicBlock]bool{}
	var work []*ssa.BasicBlock
	enter := func(from, to *ssa.BasicBlock) {
		if m != nil && to == m {
			for i, p := range m.Preds {
				if p == from {
					vals[valKey(phi.Edges[i])] = true
				}
			}
			return
		}
		if to == x || seen[to] {
			return
		}
		seen[to] = true
		work = append(work, to)
	}
	enter(x, start)
	for len(work) > 0 {
		b := work[len(work)-1]
		work = work[:len(work)-1]
		if m == nil {
			if r, ok := b.Instrs[len(b.Instrs)-1].(*ssa.Return); ok && resultIdx < len(r.Results) {
				vals[valKey(r.Results[resultIdx])] = true
			}
		}
		for _, s := range b.Succs {
			enter(b, s)
		}
	}
	return vals
}

func sameKeys(a, b map[string]bool) bool {
	if len(a) != len(b) {
		return false
	}
	for k := range a {
		if !b[k] {
			return false
		}
	}
	return true
}

// secretChoice: is the value merged at phi (or returned as result k when phi
// is nil) selected by a secret branch?
func (e *Engine) secretChoice(f *ssa.Function, phi *ssa.Phi, k int) bool {
	for _, b := range f.Blocks {
		ifi, ok := b.Instrs[len(b.Instrs)-1].(*ssa.If)
		if !ok || !e.tainted(ifi.Cond) {
			continue
		}
		var m *ssa.BasicBlock
		if phi != nil {
			m = phi.Block()
		}
		vt := sideValues(b, b.Succs[0], m, phi, k)
		vf := sideValues(b, b.Succs[1], m, phi, k)
		if len(vt) > 0 && len(vf) > 0 && !sameKeys(vt, vf) {
			return true
		}
	}
	return false
}

func (e *Engine) flow(f *ssa.Function) {
	fi := e.A.Info[f]
	if len(f.Blocks) == 0 {
		return
	}
	for _, b := range f.Blocks {
		for _, in := range b.Instrs {
			switch x := in.(type) {
			case *ssa.BinOp:
				e.set(x, e.tainted(x.X) || e.tainted(x.Y))
			case *ssa.UnOp:
				if x.Op == token.MUL {
					if isPtrLike(x.Type()) {
						continue // pointers are public
					}
					e.set(x, e.memTainted(fi, x.X))
				} else {
					e.set(x, e.tainted(x.X))
				}
			case *ssa.Convert:
				e.set(x, e.tainted(x.X))
			case *ssa.ChangeType:
				e.set(x, e.tainted(x.X))
			case *ssa.Phi:
				for _, ed := range x.Edges {
					e.set(x, e.tainted(ed))
				}
				// implicit flow: which edge is taken was decided by a secret branch
				if !e.val[x] && e.secretChoice(f, x, 0) {
					e.set(x, true)
				}
			case *ssa.Extract:
				if c, ok := x.Tuple.(*ssa.Call); ok {
					e.set(x, e.callResultTaint(fi, c, x.Index))
				} else {
					e.set(x, e.tainted(x.Tuple))
				}
			case *ssa.Index:
				e.set(x, e.tainted(x.X))
			case *ssa.Field:
				e.set(x, e.tainted(x.X))
			case *ssa.Store:
				if isPtrLike(x.Val.Type()) {
					continue
				}
				if e.tainted(x.Val) {
					e.taintObj(fi, x.Addr)
				}
			case *ssa.Call:
				e.call(fi, x)
			case *ssa.Return:
				r := e.ret[f]
				if r == nil {
					r = make([]bool, len(x.Results))
					e.ret[f] = r
				}
				ro := e.retObj[f]
				if ro == nil {
					ro = make([]bool, len(x.Results))
					e.retObj[f] = ro
				}
				for k, rv := range x.Results {
					if k < len(r) && !r[k] && !isPtrLike(rv.Type()) && (e.tainted(rv) || e.secretChoice(f, nil, k)) {
						r[k] = true
						e.changed = true
					}
					if k < len(ro) && !ro[k] && isPtrLike(rv.Type()) {
						for _, pv := range fi.PtsOf(rv) {
							if pv.Loc.Root.Kind == effects.KFresh && e.obj[pv.Loc.Root] {
								ro[k] = true
								e.changed = true
							}
						}
					}
				}
			case *ssa.MakeInterface:
				e.set(x, e.tainted(x.X))
			}
		}
	}
}

func (e *Engine) argMemTainted(fi *effects.FuncInfo, v ssa.Value) bool {
	return isPtrLike(v.Type()) && e.memTainted(fi, v)
}

func (e *Engine) callResultTaint(fi *effects.FuncInfo, c *ssa.Call, k int) bool {
	cc := c.Common()
	if b, ok := cc.Value.(*ssa.Builtin); ok {
		switch b.Name() {
		case "len", "cap", "copy", "append", "clear":
			return false
		case "min", "max":
			for _, a := range cc.Args {
				if e.tainted(a) {
					return true
				}
			}
			return false
		}
		return true
	}
	h := cc.StaticCallee()
	if h == nil {
		return true
	}
	if e.P.InRepo(h) {
		r := e.ret[h]
		return k < len(r) && r[k]
	}
	if h.String() == "errors.New" {
		return false
	}
	// external pure function: result depends on its arguments
	for _, a := range cc.Args {
		if e.tainted(a) || e.argMemTainted(fi, a) {
			return true
		}
	}
	return false
}

func (e *Engine) call(fi *effects.FuncInfo, c *ssa.Call) {
	cc := c.Common()
	if b, ok := cc.Value.(*ssa.Builtin); ok {
		if b.Name() == "copy" && e.memTainted(fi, cc.Args[1]) {
			e.taintObj(fi, cc.Args[0])
		}
		if b.Name() == "append" && (e.memTainted(fi, cc.Args[1]) || e.memTainted(fi, cc.Args[0])) {
			e.taintObj(fi, c)
			e.taintObj(fi, cc.Args[0])
		}
		return
	}
	h, lit := load.StaticCallee(c)
	if h == nil {
		return
	}
	if lit != nil {
		return
	}
	if c.Type() != nil {
		if _, isTup := c.Type().(*types.Tuple); !isTup && !isPtrLike(c.Type()) {
			e.set(c, e.callResultTaint(fi, c, 0))
		}
	}
	if e.P.InRepo(h) {
		// objects returned fresh by the callee
		for k, t := range e.retObj[h] {
			if t {
				r := effects.Root{Kind: effects.KFresh, Site: c, Sub: k}
				if !e.obj[r] {
					e.obj[r] = true
					e.changed = true
				}
			}
		}
		// scalar parameters: join over call sites
		acts, forms := load.Actuals(c), load.Formals(h)
		for i, a := range acts {
			if i >= len(forms) || isPtrLike(a.Type()) {
				continue
			}
			if fp, ok := forms[i].(*ssa.Parameter); ok && e.tainted(a) && !e.param[fp] {
				e.param[fp] = true
				e.changed = true
			}
		}
		// anything the callee may write becomes tainted in local objects (conservative)
		hs := e.A.Info[h].Sum
		for l := range hs.MayWrite {
			if l.Root.Kind == effects.KParam && l.Root.Index < len(acts) {
				e.taintObj(fi, acts[l.Root.Index])
			}
		}
		return
	}
	// external writers
	if h.String() == "(encoding/binary.littleEndian).PutUint64" && e.tainted(cc.Args[2]) {
		e.taintObj(fi, cc.Args[1])
	}
}

// ---- sinks ---------------------------------------------------------------------

func (e *Engine) exprKey(v ssa.Value, depth int) string {
	if depth > 6 {
		return "…"
	}
	switch x := v.(type) {
	case *ssa.Const:
		if x.Value == nil {
			return "zero"
		}
		if x.Value.Kind() == constant.String {
			return "str"
		}
		return x.Value.ExactString()
	case *ssa.Parameter:
		return x.Name()
	case *ssa.Global:
		return x.Name()
	case *ssa.BinOp:
		op := x.Op.String()
		if x.Op == token.NEQ {
			switch x.X.Type().Underlying().(type) {
			case *types.Struct, *types.Array:
				// a != b on aggregates is the same comparison (and the same decision) as a == b: one construct, one key
				op = token.EQL.String()
			}
		}
		return e.exprKey(x.X, depth+1) + op + e.exprKey(x.Y, depth+1)
	case *ssa.UnOp:
		if x.Op == token.MUL {
			return e.exprKey(x.X, depth+1)
		}
		return x.Op.String() + e.exprKey(x.X, depth+1)
	case *ssa.FieldAddr:
		st := x.X.Type().Underlying().(*types.Pointer).Elem()
		name := "?"
		if n, ok := st.(*types.Named); ok {
			name = n.Obj().Name()
		}
		return name + "." + load.FieldName(st, x.Field)
	case *ssa.IndexAddr:
		return e.exprKey(x.X, depth+1) + "[" + e.exprKey(x.Index, depth+1) + "]"
	case *ssa.Index:
		return e.exprKey(x.X, depth+1) + "[" + e.exprKey(x.Index, depth+1) + "]"
	case *ssa.Call:
		if b, ok := x.Common().Value.(*ssa.Builtin); ok {
			if len(x.Common().Args) > 0 {
				return b.Name() + "(" + e.exprKey(x.Common().Args[0], depth+1) + ")"
			}
			return b.Name() + "()"
		}
		if h := x.Common().StaticCallee(); h != nil {
			if g, j := e.P.ResultOrigin(h, 0); g != h {
				return load.BaseName(g) + "()#" + fmt.Sprint(j)
			}
			return load.BaseName(h) + "()"
		}
		return "call"
	case *ssa.Extract:
		if c, ok := x.Tuple.(*ssa.Call); ok {
			if h := c.Common().StaticCallee(); h != nil {
				if g, j := e.P.ResultOrigin(h, x.Index); g != h {
					return load.BaseName(g) + "()#" + fmt.Sprint(j)
				}
			}
		}
		return e.exprKey(x.Tuple, depth+1) + "#" + fmt.Sprint(x.Index)
	case *ssa.Convert:
		return e.exprKey(x.X, depth+1)
	case *ssa.ChangeType:
		return e.exprKey(x.X, depth+1)
	case *ssa.Phi:
		if x.Comment != "" {
			return x.Comment
		}
		return "phi"
	case *ssa.Alloc:
		if load.NeverWritten(x) {
			return "zero" // a local that is only ever read holds the zero value of its type
		}
		// a local buffer whose only writer is the outlined encoder it is handed to (var b [32]byte; s.bytes(&b))
		// is that encoder's result: keyed like the slice the exported wrapper returns
		for _, ref := range *x.Referrers() {
			if c, ok := ref.(*ssa.Call); ok {
				if h := c.Common().StaticCallee(); h != nil && e.P.InRepo(h) && (load.BaseName(h) == "bytes" || load.BaseName(h) == "Bytes") {
					return load.BaseName(h) + "()"
				}
			}
		}
		if x.Comment != "" {
			return x.Comment
		}
		return "local"
	case *ssa.Slice:
		return e.exprKey(x.X, depth+1) + "[:]"
	}
	return strings.TrimPrefix(fmt.Sprintf("%T", v), "*ssa.")
}

// Decoders are the exported functions whose accept/reject decision is public by the property.
var Decoders = []string{"(*Point).SetBytes", "(*Point).SetExtendedCoordinates", "(*Scalar).SetCanonicalBytes"}

// decoderOf: f itself if it is a decoder; the decoder D if f is an unexported
// function every caller of which is D or another function private to D.
func (e *Engine) decoderOf(f *ssa.Function) *ssa.Function {
	if e.private == nil {
		e.private = map[*ssa.Function]*ssa.Function{}
		callers := map[*ssa.Function][]*ssa.Function{}
		for _, g := range e.P.Funcs {
			top := g
			for top.Parent() != nil {
				top = top.Parent()
			}
			for _, h := range e.P.Callees(g) {
				callers[h] = append(callers[h], top)
			}
		}
		for _, name := range Decoders {
			d := e.P.ByName[name]
			if d == nil {
				continue
			}
			e.private[d] = d
			cand := map[*ssa.Function]bool{}
			for _, g := range e.P.Funcs {
				if g.Parent() == nil && !e.P.IsAPIRoot(g) && len(callers[g]) > 0 {
					cand[g] = true
				}
			}
			for changed := true; changed; {
				changed = false
				for g := range cand {
					for _, c := range callers[g] {
						if c != d && !cand[c] {
							delete(cand, g)
							changed = true
							break
						}
					}
				}
			}
			// keep only those actually reachable from d
			reach := e.P.Reachable([]*ssa.Function{d})
			for g := range cand {
				if reach[g] {
					if _, taken := e.private[g]; !taken {
						e.private[g] = d
					}
				}
			}
		}
	}
	top := f
	for top.Parent() != nil {
		top = top.Parent()
	}
	return e.private[top]
}

// validityDecision: the branch sits in a decoder (or a function private to one)
// and one of its sides leaves the function at once — in the decoder itself with
// a non-nil error. Returns the justification, or "".
func (e *Engine) validityDecision(f *ssa.Function, br *ssa.If) string {
	d := e.decoderOf(f)
	if d == nil {
		return ""
	}
	if f != d && f.Parent() == nil && e.purePredicate(f, d, 0) {
		// the whole function is the computation of a verdict: it is reached only from the decoder, yields nothing
		// but a bool / an error and leaves no other trace, so every decision taken in it is part of deciding validity
		// (in whatever shape the comparison is written: early returns, a scan that stops at the first difference, …)
		return fmt.Sprintf("%s is called only inside %s, writes nothing and returns only its verdict (bool/error)", load.ShortName(f), load.ShortName(d))
	}
	var exitSide func(b *ssa.BasicBlock, depth int) (*ssa.Return, bool)
	exitSide = func(b *ssa.BasicBlock, depth int) (*ssa.Return, bool) {
		for _, in := range b.Instrs {
			switch x := in.(type) {
			case *ssa.Phi, *ssa.DebugRef, *ssa.MakeInterface, *ssa.UnOp, *ssa.BinOp, *ssa.Alloc, *ssa.FieldAddr, *ssa.IndexAddr, *ssa.Index, *ssa.Field,
				*ssa.Convert, *ssa.ChangeType, *ssa.Extract, *ssa.Slice:
				// computing the value to return: no effect besides the return itself
			case *ssa.Call:
				if h := x.Common().StaticCallee(); !load.IsErrCtor(h) {
					return nil, false
				}
			case *ssa.Store:
				// writing a result variable of this very function
				if _, local := x.Addr.(*ssa.Alloc); !local {
					return nil, false
				}
			case *ssa.Return:
				return x, true
			case *ssa.Jump:
				if depth < 2 {
					return exitSide(b.Succs[0], depth+1)
				}
				return nil, false
			default:
				return nil, false
			}
		}
		return nil, false
	}
	for _, s := range br.Block().Succs {
		r, ok := exitSide(s, 0)
		if !ok {
			continue
		}
		if f == d {
			// the decoder itself: the side must reject (last result a non-nil error)
			if len(r.Results) == 0 {
				continue
			}
			last := r.Results[len(r.Results)-1]
			if c, isC := last.(*ssa.Const); isC && c.Value == nil {
				continue
			}
			if !types.Identical(last.Type(), types.Universe.Lookup("error").Type()) {
				continue
			}
			return "one side returns the decoder's error at " + e.P.Rel(r.Pos())
		}
		return fmt.Sprintf("%s is called only inside %s and one side of the branch returns at once (%s)", load.ShortName(f), load.ShortName(d), e.P.Rel(r.Pos()))
	}
	return ""
}

// purePredicate: f (private to decoder d) has only bool / error results, stores only to its own locals and calls
// nothing but len, error constructors and other such predicates private to d.
func (e *Engine) purePredicate(f, d *ssa.Function, depth int) bool {
	if depth > 4 || len(f.Blocks) == 0 || e.decoderOf(f) != d || f == d {
		return false
	}
	res := f.Signature.Results()
	if res.Len() == 0 {
		return false
	}
	errT := types.Universe.Lookup("error").Type()
	for i := 0; i < res.Len(); i++ {
		t := res.At(i).Type()
		if b, ok := t.Underlying().(*types.Basic); ok && b.Kind() == types.Bool {
			continue
		}
		if types.Identical(t, errT) {
			continue
		}
		return false
	}
	for _, b := range f.Blocks {
		for _, in := range b.Instrs {
			switch x := in.(type) {
			case *ssa.Phi, *ssa.DebugRef, *ssa.MakeInterface, *ssa.UnOp, *ssa.BinOp, *ssa.FieldAddr, *ssa.IndexAddr, *ssa.Index, *ssa.Field,
				*ssa.Convert, *ssa.ChangeType, *ssa.Extract, *ssa.Slice, *ssa.If, *ssa.Jump, *ssa.Return, *ssa.SliceToArrayPointer:
			case *ssa.Alloc:
				if x.Heap {
					return false
				}
			case *ssa.Store:
				if a, local := x.Addr.(*ssa.Alloc); !local || a.Heap {
					return false
				}
			case *ssa.Call:
				if bi, ok := x.Call.Value.(*ssa.Builtin); ok && (bi.Name() == "len" || bi.Name() == "cap") {
					continue
				}
				h := x.Common().StaticCallee()
				if h == nil {
					return false
				}
				if load.IsErrCtor(h) {
					continue
				}
				if !e.purePredicate(h, d, depth+1) {
					return false
				}
			default:
				return false
			}
		}
	}
	return true
}

// Sinks returns one obligation per sink construct in the constant-time set.
func (e *Engine) Sinks() []report.Obligation {
	var out []report.Obligation
	cfg := e.P.Config.Name
	keyCount := map[string]int{}
	gs := e.P.Guards()
	add := func(rule string, f *ssa.Function, in ssa.Instruction, construct string, bad bool, what string) {
		fname := load.ShortName(f)
		canon := false
		if bad && gs.InGuardFamily(f) {
			// the initialisation guard, in whatever functions it is written: a decision that is a function of
			// "x is the zero Element" / "y is the zero Element" of the inspected Point is one construct, named
			// after the coordinate it depends on (so that a restructured guard keeps the keys of the same finding)
			switch x := in.(type) {
			case *ssa.If:
				if _, dy, ok := gs.CondAtoms(f, x.Cond); ok {
					fname, canon = "checkInitialized", true
					construct = "Point.x==zero"
					if dy {
						construct = "Point.y==zero"
					}
				}
			case *ssa.BinOp:
				if _, dy, ok := gs.CondAtoms(f, x); ok {
					fname, canon = "checkInitialized", true
					construct = "Point.x==zero"
					if dy {
						construct = "Point.y==zero"
					}
				}
			}
		}
		key := rule + "/" + fname + "/" + construct
		keyCount[key]++
		if n := keyCount[key]; n > 1 {
			if canon {
				return // the same decision taken again (e.g. on the result of the predicate)
			}
			key = fmt.Sprintf("%s#%d", key, n)
		}
		e.NSinks[rule]++
		o := report.Obligation{Rule: rule, Key: key, Config: cfg, Pos: e.posOf(in), OK: !bad}
		if bad {
			o.Detail = what
		} else {
			o.Detail = "operand is a function of public values only"
		}
		out = append(out, o)
	}
	var fs []*ssa.Function
	for f := range e.CT {
		fs = append(fs, f)
	}
	sort.Slice(fs, func(i, j int) bool { return load.ShortName(fs[i]) < load.ShortName(fs[j]) })
	for _, f := range fs {
		fi := e.A.Info[f]
		for _, b := range f.Blocks {
			for _, in := range b.Instrs {
				switch x := in.(type) {
				case *ssa.If:
					bad := e.tainted(x.Cond)
					if bad {
						if why := e.validityDecision(f, x); why != "" {
							// exempt by the property: the accept/reject decision of a decoder is public
							key := "CT-BRANCH/" + load.ShortName(f) + "/" + e.exprKey(x.Cond, 0)
							keyCount[key]++
							if n := keyCount[key]; n > 1 {
								key = fmt.Sprintf("%s#%d", key, n)
							}
							e.NSinks["CT-BRANCH"]++
							e.NValidity++
							out = append(out, report.Obligation{Rule: "CT-BRANCH", Key: key, Config: cfg, Pos: e.posOf(in), OK: true, Detail: "secret-dependent, but a validity decision of a decoder (exempt by the property): " + why})
							continue
						}
					}
					add("CT-BRANCH", f, in, e.exprKey(x.Cond, 0), bad, "branch condition depends on secret data")
				case *ssa.IndexAddr:
					if _, isC := x.Index.(*ssa.Const); !isC {
						add("CT-INDEX", f, in, e.exprKey(x, 0), e.tainted(x.Index), "memory is addressed by a secret-dependent index")
					}
				case *ssa.Index:
					if _, isC := x.Index.(*ssa.Const); !isC {
						add("CT-INDEX", f, in, e.exprKey(x, 0), e.tainted(x.Index), "array value is indexed by a secret-dependent index")
					}
				case *ssa.Slice:
					for _, bd := range []ssa.Value{x.Low, x.High, x.Max} {
						if bd != nil {
							if _, isC := bd.(*ssa.Const); !isC {
								add("CT-INDEX", f, in, e.exprKey(x, 0)+"/bound", e.tainted(bd), "slice bound depends on secret data")
							}
						}
					}
				case *ssa.MakeSlice:
					add("CT-ALLOC", f, in, "make", e.tainted(x.Len) || e.tainted(x.Cap), "allocation size depends on secret data")
				case *ssa.BinOp:
					switch x.Op {
					case token.SHL, token.SHR:
						if _, isC := x.Y.(*ssa.Const); !isC {
							add("CT-SHIFT", f, in, e.exprKey(x, 0), e.tainted(x.Y), "shift count depends on secret data")
						}
					case token.QUO, token.REM:
						add("CT-DIV", f, in, e.exprKey(x, 0), e.tainted(x.X) || e.tainted(x.Y), "operand of a division depends on secret data (variable latency)")
					case token.EQL, token.NEQ:
						switch x.X.Type().Underlying().(type) {
						case *types.Struct, *types.Array:
							add("CT-CMP", f, in, e.exprKey(x, 0), e.tainted(x.X) || e.tainted(x.Y), "== on a struct/array compiles to an early-exit comparison of secret data")
						}
					}
				case *ssa.Panic:
					add("CT-PANIC", f, in, "panic", e.tainted(x.X), "panic value depends on secret data")
				case *ssa.Call:
					h := x.Common().StaticCallee()
					if h == nil || e.P.InRepo(h) {
						continue
					}
					if h.Synthetic != "" && h.Name() == "init" {
						continue
					}
					name := h.String()
					anyT := false
					for _, a := range x.Common().Args {
						if e.tainted(a) || e.argMemTainted(fi, a) {
							anyT = true
						}
					}
					if allow[name] {
						add("CT-CALL", f, in, name, false, "")
						if name == "crypto/subtle.ConstantTimeCompare" {
							// equal public lengths: both operands must have lengths that do not depend on secrets (lengths are always public here)
						}
					} else {
						add("CT-CALL", f, in, name, anyT, "secret data is passed to "+name+", which is not on the constant-time allow-list")
					}
				}
			}
		}
	}
	return out
}

// AsmAudit: one obligation per assembly body in the constant-time set.
func (e *Engine) AsmAudit() []report.Obligation {
	var out []report.Obligation
	for f, s := range e.P.Asm {
		if !e.CT[f] {
			continue
		}
		o := report.Obligation{Rule: "CT-ASM", Key: "CT-ASM/" + load.ShortName(f), Config: e.P.Config.Name, Pos: e.P.RelFile(s.Func.File), OK: len(s.Undecided) == 0}
		var ms []string
		for m, n := range s.Mnemonics {
			ms = append(ms, fmt.Sprintf("%s×%d", m, n))
		}
		sort.Strings(ms)
		o.Detail = fmt.Sprintf("%d instructions, all straight-line and fixed-latency {%s}; every memory operand is off(reg) with reg an unmodified pointer argument", len(s.Func.Insts), strings.Join(ms, " "))
		if !o.OK {
			o.Detail = strings.Join(s.Undecided, "; ")
		}
		out = append(out, o)
	}
	sort.Slice(out, func(i, j int) bool { return out[i].Key < out[j].Key })
	return out
}

func (e *Engine) posOf(in ssa.Instruction) string {
	if in.Pos().IsValid() {
		return e.P.Rel(in.Pos())
	}
	var ops []*ssa.Value
	for _, op := range in.Operands(ops) {
		if *op != nil && (*op).Pos().IsValid() {
			return e.P.Rel((*op).Pos())
		}
	}
	if b := in.Block(); b != nil {
		for _, x := range b.Instrs {
			if x.Pos().IsValid() {
				return e.P.Rel(x.Pos())
			}
		}
	}
	return "-"
}
