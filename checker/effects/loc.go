// Package effects is engine E1: access-path effect summaries over go/ssa
// (and over the assembly bodies through package asm). See DESIGN §3 E1.
package effects

import (
	"fmt"
	"go/types"
	"sort"
	"strconv"
	"strings"

	"golang.org/x/tools/go/ssa"

	"verif/checker/load"
)

type RootKind int

const (
	KParam RootKind = iota
	KElem
	KGlobal
	KGPointee
	KFresh
	KNil
)

// Root is the base object of an abstract location. It is comparable.
type Root struct {
	Kind   RootKind
	Index  int         // KParam, KElem
	Global *ssa.Global // KGlobal, KGPointee
	Site   ssa.Value   // KFresh: the allocating instruction (Alloc, MakeSlice, or a Call returning a callee-fresh object)
	Sub    int         // KFresh from a call: result index
}

func (r Root) IsFresh() bool { return r.Kind == KFresh }

// Step is one path component: a struct field index, a constant array/slice
// index, or Any (a non-constant index: overlaps every index).
type Step struct {
	Field bool
	N     int // field index or element index; -1 = any index
}

const AnyIndex = -1

type Path string // canonical encoding of []Step, usable as map key

func EncodePath(steps []Step) Path {
	var sb strings.Builder
	for _, s := range steps {
		if s.Field {
			sb.WriteString("f")
		} else {
			sb.WriteString("i")
		}
		if s.N == AnyIndex {
			sb.WriteString("*")
		} else {
			sb.WriteString(strconv.Itoa(s.N))
		}
		sb.WriteString("/")
	}
	return Path(sb.String())
}

func (p Path) Steps() []Step {
	if p == "" {
		return nil
	}
	parts := strings.Split(strings.TrimSuffix(string(p), "/"), "/")
	out := make([]Step, len(parts))
	for i, s := range parts {
		st := Step{Field: s[0] == 'f'}
		if s[1:] == "*" {
			st.N = AnyIndex
		} else {
			st.N, _ = strconv.Atoi(s[1:])
		}
		out[i] = st
	}
	return out
}

func (p Path) Append(s Step) Path { return p + EncodePath([]Step{s}) }
func (p Path) Concat(q Path) Path { return p + q }
func (p Path) HasAny() bool       { return strings.Contains(string(p), "*") }

func stepMatch(a, b Step) bool {
	if a.Field != b.Field {
		return false // cannot happen for well-typed paths of the same object
	}
	if a.Field {
		return a.N == b.N
	}
	return a.N == AnyIndex || b.N == AnyIndex || a.N == b.N
}

// Overlap: one path is a prefix of the other (Any matches every index).
func Overlap(p, q Path) bool {
	a, b := p.Steps(), q.Steps()
	n := len(a)
	if len(b) < n {
		n = len(b)
	}
	for i := 0; i < n; i++ {
		if !stepMatch(a[i], b[i]) {
			return false
		}
	}
	return true
}

// Covers: a write to p definitely covers a read of q iff p is a prefix of q
// with exact (non-Any) matching on p's steps.
func Covers(p, q Path) bool {
	a, b := p.Steps(), q.Steps()
	if len(a) > len(b) {
		return false
	}
	for i := range a {
		if a[i].N == AnyIndex || b[i].N == AnyIndex || a[i] != b[i] {
			return false
		}
	}
	return true
}

type Loc struct {
	Root Root
	Path Path
}

// PVal is a pointer or slice value: the location it designates and, for
// slices, the element offset of the slice start inside the designated array
// (OffUnknown when not constant).
type PVal struct {
	Loc Loc
	Off int
}

const OffUnknown = -1

type LocSet map[Loc]struct{}

func (s LocSet) Add(l Loc) bool {
	if _, ok := s[l]; ok {
		return false
	}
	s[l] = struct{}{}
	return true
}
func (s LocSet) Has(l Loc) bool { _, ok := s[l]; return ok }
func (s LocSet) Clone() LocSet {
	c := make(LocSet, len(s))
	for k := range s {
		c[k] = struct{}{}
	}
	return c
}
func (s LocSet) HasRoot(r Root) bool {
	for l := range s {
		if l.Root == r {
			return true
		}
	}
	return false
}

type Pair struct{ W, R Loc }

// ---- pretty printing -------------------------------------------------

// TypeAt walks a path through a type; returns nil when the path does not fit.
func TypeAt(t types.Type, p Path) types.Type {
	for _, s := range p.Steps() {
		if t == nil {
			return nil
		}
		switch u := t.Underlying().(type) {
		case *types.Struct:
			if !s.Field || s.N >= u.NumFields() {
				return nil
			}
			t = u.Field(s.N).Type()
		case *types.Array:
			if s.Field {
				return nil
			}
			t = u.Elem()
		case *types.Slice:
			if s.Field {
				return nil
			}
			t = u.Elem()
		default:
			return nil
		}
	}
	return t
}

func PrettyPath(t types.Type, p Path) string {
	var sb strings.Builder
	for _, s := range p.Steps() {
		if s.Field {
			name := fmt.Sprintf("f%d", s.N)
			if t != nil {
				if u, ok := t.Underlying().(*types.Struct); ok && s.N < u.NumFields() {
					name = load.FieldName(t, s.N)
					t = u.Field(s.N).Type()
				} else {
					t = nil
				}
			}
			sb.WriteString("." + name)
		} else {
			if s.N == AnyIndex {
				sb.WriteString("[*]")
			} else {
				sb.WriteString(fmt.Sprintf("[%d]", s.N))
			}
			if t != nil {
				switch u := t.Underlying().(type) {
				case *types.Array:
					t = u.Elem()
				case *types.Slice:
					t = u.Elem()
				default:
					t = nil
				}
			}
		}
	}
	return sb.String()
}

// pointee type of a parameter-ish type: *T -> T, []T -> [n]T-like (we return
// the slice type itself so that index steps resolve).
func pointee(t types.Type) types.Type {
	switch u := t.Underlying().(type) {
	case *types.Pointer:
		return u.Elem()
	case *types.Slice:
		return u
	}
	return nil
}

func sortedLocs(s LocSet, name func(Loc) string) []string {
	var out []string
	for l := range s {
		out = append(out, name(l))
	}
	sort.Strings(out)
	return out
}
