package effects

import (
	"fmt"
	"go/constant"
	"go/token"
	"go/types"
	"sort"
	"strings"

	"golang.org/x/tools/go/ssa"

	"verif/checker/load"
)

type Op int

const (
	OpReadInit  Op = iota // a read whose value must already be defined (must-channel)
	OpRead                // may-channel read
	OpWrite               // may-channel write
	OpMustWrite           // definite write (must-channel)
	OpKill                // object (re)allocated: nothing of it is written
	OpKillPath            // zero-value store into a non-zero-valid type: not a definition
)

type Event struct {
	Op    Op
	Loc   Loc
	Instr ssa.Instruction
	Via   *ssa.Function // callee the effect comes from, nil for a direct access
	// Inherited: the location was already global-rooted in the callee's summary
	// (the callee, not this function, names the global).
	Inherited bool
}

type ReturnSite struct {
	Instr        *ssa.Return
	Err          int           // 0 = error result is nil, 1 = non-nil, 2 = unknown, -1 = function has no error result
	Results      [][]PVal      // provenance per result (pointer/slice results only; nil otherwise)
	WrittenRoots map[Root]bool // roots that may have been written on some path to this site
	RecvDefined  bool          // the whole of *Param(0) has definitely been written on every path to this site
	Forwarded    *ssa.Function // the site forwards this callee's result tuple
	// Pred/To: the site is one incoming path of a return block that merges several (named results, a single
	// `return` at the end): the path enters block To from block Pred; nil for an ordinary site
	Pred, To *ssa.BasicBlock
}

type Summary struct {
	Fn           *ssa.Function
	MayRead      LocSet
	MayWrite     LocSet
	ReadsInitial LocSet
	MustWrite    LocSet
	Pairs        map[Pair]struct{} // write-then-read pairs over different roots (plus Elem self pairs)
	Returns      []ReturnSite
	External     bool
	// RetContents[k]: pointers held by fresh objects returned as result k
	RetContents map[int][]PVal
}

type InitViolation struct {
	Fn    *ssa.Function
	Root  Root
	Loc   Loc
	Instr ssa.Instruction
	Via   *ssa.Function
}

type FuncInfo struct {
	Fn       *ssa.Function
	A        *Analysis
	Pts      map[ssa.Value][]PVal
	Tup      map[ssa.Value][][]PVal
	Contents map[Root][]PVal
	Events   map[ssa.Instruction][]Event
	Sum      *Summary
	// where each initial read / hazard pair was first seen (for reports)
	InitReadAt map[Loc]Event
	PairAt     map[Pair][2]Event
	LocalInit  []InitViolation // R-INIT violations on Fresh objects of non-zero-valid types
	// roots that may have been written before each call instruction executes
	MayRootsBefore map[ssa.Instruction]map[Root]bool
	Untracked      int // reads through a variable index (outside R-INIT)
}

type Analysis struct {
	P        *load.Program
	Info     map[*ssa.Function]*FuncInfo
	Ext      map[string]*Summary
	Problems []string
	// ProblemFn[i] is the function problem i arose in (nil = whole program)
	ProblemFn []*ssa.Function
	Order     []*ssa.Function
	// AliasByEvaluation: "function short name" -> true for exported functions whose behaviour with aliased
	// arguments is decided by evaluation in another rule (Swap(v,v)); their pairs seed no demand on callees.
	AliasByEvaluation map[string]bool
}

func (a *Analysis) problem(f *ssa.Function, in ssa.Instruction, format string, args ...interface{}) {
	pos := "-"
	if in != nil {
		pos = a.P.Rel(in.Pos())
		if pos == "-" && in.Block() != nil {
			pos = fmt.Sprintf("block %d", in.Block().Index)
		}
	}
	a.addProblemFn(f, fmt.Sprintf("UNDECIDED %s %s: %s", pos, load.ShortName(f), fmt.Sprintf(format, args...)))
}

func (a *Analysis) addProblem(msg string) { a.addProblemFn(nil, msg) }

func (a *Analysis) addProblemFn(f *ssa.Function, msg string) {
	for _, p := range a.Problems {
		if p == msg {
			return
		}
	}
	a.Problems = append(a.Problems, msg)
	a.ProblemFn = append(a.ProblemFn, f)
}

func isPtrLike(t types.Type) bool {
	switch t.Underlying().(type) {
	case *types.Pointer, *types.Slice:
		return true
	}
	return false
}

// NonZeroValid reports whether t is one of the types whose zero value is not
// a valid value (DESIGN E1 R-INIT).
func NonZeroValid(t types.Type) bool {
	n, ok := t.(*types.Named)
	if !ok {
		if p, ok := t.(*types.Array); ok {
			return NonZeroValid(p.Elem())
		}
		return false
	}
	if n.Obj().Pkg() == nil || n.Obj().Pkg().Path() != load.RootPath {
		return false
	}
	switch n.Obj().Name() {
	case "Point", "projP2", "projP1xP1", "projCached", "affineCached",
		"projLookupTable", "affineLookupTable", "nafLookupTable5", "nafLookupTable8":
		return true
	}
	return false
}

func Run(p *load.Program) *Analysis {
	a := &Analysis{P: p, Info: map[*ssa.Function]*FuncInfo{}, Ext: map[string]*Summary{}}
	order, err := p.TopoOrder()
	if err != nil {
		a.addProblem("STRUCTURE " + err.Error())
	}
	a.Order = order
	for _, f := range order {
		fi := &FuncInfo{Fn: f, A: a, Pts: map[ssa.Value][]PVal{}, Tup: map[ssa.Value][][]PVal{}, Contents: map[Root][]PVal{},
			Events: map[ssa.Instruction][]Event{}, InitReadAt: map[Loc]Event{}, PairAt: map[Pair][2]Event{},
			MayRootsBefore: map[ssa.Instruction]map[Root]bool{}}
		a.Info[f] = fi
		if len(f.Blocks) == 0 {
			fi.Sum = a.asmSummary(f)
			continue
		}
		fi.pointsTo()
		fi.events()
		fi.dataflow()
	}
	return a
}

// ---- points-to ---------------------------------------------------------

func addPV(dst []PVal, v PVal) ([]PVal, bool) {
	for _, e := range dst {
		if e == v {
			return dst, false
		}
	}
	return append(dst, v), true
}

func (fi *FuncInfo) RootType(r Root) types.Type {
	switch r.Kind {
	case KParam:
		if fs := load.Formals(fi.Fn); r.Index < len(fs) {
			return pointee(fs[r.Index].Type())
		}
	case KElem:
		if fs := load.Formals(fi.Fn); r.Index < len(fs) {
			if s, ok := fs[r.Index].Type().Underlying().(*types.Slice); ok {
				return pointee(s.Elem())
			}
		}
	case KGlobal:
		return r.Global.Type().(*types.Pointer).Elem()
	case KGPointee:
		return pointee(r.Global.Type().(*types.Pointer).Elem())
	case KFresh:
		switch s := r.Site.(type) {
		case *ssa.Alloc:
			return s.Type().(*types.Pointer).Elem()
		case *ssa.MakeSlice:
			return s.Type()
		case *ssa.Call:
			t := s.Type()
			if tup, ok := t.(*types.Tuple); ok && r.Sub < tup.Len() {
				t = tup.At(r.Sub).Type()
			}
			return pointee(t)
		}
	}
	return nil
}

func (fi *FuncInfo) RootName(r Root) string {
	switch r.Kind {
	case KParam:
		if fs := load.Formals(fi.Fn); r.Index < len(fs) {
			return fs[r.Index].Name()
		}
		return fmt.Sprintf("param%d", r.Index)
	case KElem:
		if fs := load.Formals(fi.Fn); r.Index < len(fs) {
			return fs[r.Index].Name() + "[i]"
		}
		return fmt.Sprintf("param%d[i]", r.Index)
	case KGlobal:
		return r.Global.Name()
	case KGPointee:
		return "*" + r.Global.Name()
	case KFresh:
		return fi.freshName(r)
	case KNil:
		return "nil"
	}
	return "?"
}

// freshName gives a stable name to a local object: its source variable name
// when it has one, else kind#ordinal of its type within the function.
func (fi *FuncInfo) freshName(r Root) string {
	switch s := r.Site.(type) {
	case *ssa.Alloc:
		c := s.Comment
		if c != "" && c != "complit" && c != "new" && c != "varargs" && c != "slicelit" && c != "makeslice" {
			return "local:" + c
		}
		// ordinal among allocs with the same comment and type
		n := 0
		for _, b := range fi.Fn.Blocks {
			for _, in := range b.Instrs {
				if al, ok := in.(*ssa.Alloc); ok && al.Comment == c && types.Identical(al.Type(), s.Type()) {
					n++
					if al == s {
						return fmt.Sprintf("local:%s#%d(%s)", c, n, types.TypeString(s.Type().(*types.Pointer).Elem(), func(*types.Package) string { return "" }))
					}
				}
			}
		}
		return "local:" + c
	case *ssa.MakeSlice:
		return "local:make"
	case *ssa.Call:
		if b, ok := s.Common().Value.(*ssa.Builtin); ok {
			return "fresh:" + b.Name() + "()"
		}
		callee := s.Common().StaticCallee()
		return "fresh:" + load.ShortName(callee) + "()"
	}
	return "fresh"
}

func (fi *FuncInfo) LocName(l Loc) string {
	return fi.RootName(l.Root) + PrettyPath(fi.RootType(l.Root), l.Path)
}

func constInt(v ssa.Value) (int, bool) {
	c, ok := v.(*ssa.Const)
	if !ok || c.Value == nil || c.Value.Kind() != constant.Int {
		return 0, false
	}
	i, exact := constant.Int64Val(c.Value)
	if !exact {
		return 0, false
	}
	return int(i), true
}

func (fi *FuncInfo) pointsTo() {
	f := fi.Fn
	for i, p := range load.Formals(f) {
		if isPtrLike(p.Type()) {
			fi.Pts[p] = []PVal{{Loc: Loc{Root: Root{Kind: KParam, Index: i}}}}
		}
	}
	changed := true
	set := func(v ssa.Value, pvs []PVal) {
		for _, pv := range pvs {
			var ch bool
			fi.Pts[v], ch = addPV(fi.Pts[v], pv)
			if ch {
				changed = true
			}
		}
	}
	for iter := 0; changed && iter < 50; iter++ {
		changed = false
		for _, b := range f.Blocks {
			for _, in := range b.Instrs {
				fi.transfer(in, set, &changed)
			}
		}
	}
}

func (fi *FuncInfo) operand(v ssa.Value) []PVal {
	switch x := v.(type) {
	case *ssa.Global:
		if x.Pkg != fi.A.P.Root && x.Pkg != fi.A.P.Field {
			// a variable of an imported package (binary.LittleEndian): not our state
			return []PVal{{Loc: Loc{Root: Root{Kind: KNil}}}}
		}
		return []PVal{{Loc: Loc{Root: Root{Kind: KGlobal, Global: x}}}}
	case *ssa.Const:
		if x.Value == nil && isPtrLike(x.Type()) {
			return []PVal{{Loc: Loc{Root: Root{Kind: KNil}}}}
		}
		return nil
	}
	return fi.Pts[v]
}

func (fi *FuncInfo) transfer(in ssa.Instruction, set func(ssa.Value, []PVal), changed *bool) {
	a := fi.A
	f := fi.Fn
	switch x := in.(type) {
	case *ssa.Alloc:
		set(x, []PVal{{Loc: Loc{Root: Root{Kind: KFresh, Site: x}}}})
	case *ssa.MakeSlice:
		set(x, []PVal{{Loc: Loc{Root: Root{Kind: KFresh, Site: x}}}})
	case *ssa.FieldAddr:
		var out []PVal
		for _, pv := range fi.operand(x.X) {
			if pv.Loc.Root.Kind == KNil {
				continue
			}
			out = append(out, PVal{Loc: Loc{pv.Loc.Root, pv.Loc.Path.Append(Step{Field: true, N: x.Field})}})
		}
		set(x, out)
	case *ssa.IndexAddr:
		idx, isConst := constInt(x.Index)
		var out []PVal
		for _, pv := range fi.operand(x.X) {
			if pv.Loc.Root.Kind == KNil {
				continue
			}
			n := AnyIndex
			if isConst {
				if _, isSlice := x.X.Type().Underlying().(*types.Slice); isSlice {
					if pv.Off != OffUnknown {
						n = pv.Off + idx
					}
				} else {
					n = idx
				}
			}
			out = append(out, PVal{Loc: Loc{pv.Loc.Root, pv.Loc.Path.Append(Step{N: n})}})
		}
		set(x, out)
	case *ssa.Slice:
		lo := 0
		loKnown := true
		if x.Low != nil {
			lo, loKnown = constInt(x.Low)
		}
		var out []PVal
		for _, pv := range fi.operand(x.X) {
			if pv.Loc.Root.Kind == KNil {
				continue
			}
			off := OffUnknown
			_, fromSlice := x.X.Type().Underlying().(*types.Slice)
			base := 0
			if fromSlice {
				base = pv.Off
			}
			if loKnown && base != OffUnknown {
				off = base + lo
			}
			out = append(out, PVal{Loc: pv.Loc, Off: off})
		}
		if _, isStr := x.X.Type().Underlying().(*types.Basic); isStr {
			return
		}
		set(x, out)
	case *ssa.ChangeType:
		if isPtrLike(x.Type()) {
			set(x, fi.operand(x.X))
		}
	case *ssa.Convert:
		if isPtrLike(x.Type()) {
			if !isPtrLike(x.X.Type()) {
				a.problem(f, in, "conversion to a pointer-like type from %s", x.X.Type())
				return
			}
			set(x, fi.operand(x.X))
		}
	case *ssa.SliceToArrayPointer:
		var out []PVal
		for _, pv := range fi.operand(x.X) {
			if pv.Off != 0 {
				// pointer to the array starting at the slice offset: keep the location, mark indices unknown
				a.problem(f, in, "slice-to-array-pointer conversion of a slice with non-zero or unknown offset")
			}
			out = append(out, PVal{Loc: pv.Loc})
		}
		set(x, out)
	case *ssa.Phi:
		if isPtrLike(x.Type()) {
			for _, e := range x.Edges {
				set(x, fi.operand(e))
			}
		}
	case *ssa.UnOp:
		if x.Op != token.MUL || !isPtrLike(x.Type()) {
			return
		}
		// load of a pointer/slice from memory
		for _, pv := range fi.operand(x.X) {
			r := pv.Loc.Root
			switch {
			case r.Kind == KGlobal && pv.Loc.Path == "":
				set(x, []PVal{{Loc: Loc{Root: Root{Kind: KGPointee, Global: r.Global}}}})
			case r.Kind == KParam:
				// element of a slice-of-pointers parameter
				steps := pv.Loc.Path.Steps()
				if len(steps) == 1 && !steps[0].Field {
					set(x, []PVal{{Loc: Loc{Root: Root{Kind: KElem, Index: r.Index}}}})
				} else if len(steps) == 0 {
					// the parameter points at a cell that holds a pointer (a pointer variable captured by a closure,
					// lambda-lifted): like a one-element slice of pointers
					set(x, []PVal{{Loc: Loc{Root: Root{Kind: KElem, Index: r.Index}}}})
				} else {
					a.problem(f, in, "load of a pointer from inside parameter storage at %s", fi.LocName(pv.Loc))
				}
			case r.Kind == KFresh:
				set(x, fi.Contents[r])
			case r.Kind == KNil:
			default:
				a.problem(f, in, "load of a pointer from %s", fi.LocName(pv.Loc))
			}
		}
	case *ssa.Store:
		if !isPtrLike(x.Val.Type()) {
			return
		}
		vals := fi.operand(x.Val)
		for _, pv := range fi.operand(x.Addr) {
			r := pv.Loc.Root
			switch {
			case r.Kind == KFresh:
				for _, v := range vals {
					var ch bool
					fi.Contents[r], ch = addPV(fi.Contents[r], v)
					if ch {
						*changed = true
					}
				}
			case r.Kind == KGlobal && (load.IsInitFunc(f) || fi.A.P.IsOnceLiteral(f)):
				// package initialiser — or the function run once under sync.Once — publishing a pointer: the pointee
				// is named GPointee(g) elsewhere (that nothing else writes the variable, and that every other access
				// is ordered after the Do, is R-GLOBAL's business)
			default:
				a.problem(f, in, "store of a pointer into %s", fi.LocName(pv.Loc))
			}
		}
	case *ssa.Extract:
		if isPtrLike(x.Type()) {
			if t, ok := fi.Tup[x.Tuple]; ok && x.Index < len(t) {
				set(x, t[x.Index])
			}
		}
	case *ssa.Call:
		fi.callPts(x, set, changed)
	case *ssa.MakeInterface, *ssa.BinOp, *ssa.Index, *ssa.Field, *ssa.If, *ssa.Jump, *ssa.Return, *ssa.Panic,
		*ssa.MakeClosure, *ssa.DebugRef, *ssa.Defer, *ssa.RunDefers:
	case *ssa.ChangeInterface:
		// interface-to-interface conversion (an error value passed to panic): interfaces carry no tracked pointer
		// (MakeInterface of a pointer into the packages' storage is reported where it is made)
	default:
		a.problem(f, in, "no points-to transfer function for %T", in)
	}
}

// calleeSummary returns the summary used for a call, or nil with ok=false.
func (a *Analysis) calleeSummary(c ssa.CallInstruction) (sum *Summary, callee *ssa.Function, once *ssa.Function) {
	callee, once = load.StaticCallee(c)
	if callee == nil {
		return nil, nil, nil
	}
	if once != nil {
		if fi, ok := a.Info[once]; ok {
			return fi.Sum, callee, once
		}
		return nil, callee, once
	}
	if fi, ok := a.Info[callee]; ok {
		return fi.Sum, callee, nil
	}
	return a.external(callee), callee, nil
}

// translate maps a callee location to caller locations at a call site.
func (fi *FuncInfo) translate(c ssa.CallInstruction, once bool, l Loc) []Loc {
	args := load.Actuals(c)
	if once {
		args = load.OnceActuals(c)
	}
	switch l.Root.Kind {
	case KGlobal, KGPointee:
		return []Loc{l}
	case KParam:
		if l.Root.Index >= len(args) {
			return nil
		}
		var out []Loc
		for _, pv := range fi.operand(args[l.Root.Index]) {
			if pv.Loc.Root.Kind == KNil {
				continue
			}
			out = append(out, Loc{pv.Loc.Root, pv.Loc.Path.Concat(shiftFirst(l.Path, pv.Off, args[l.Root.Index].Type()))})
		}
		return out
	case KElem:
		if l.Root.Index >= len(args) {
			return nil
		}
		var out []Loc
		for _, pv := range fi.operand(args[l.Root.Index]) {
			switch pv.Loc.Root.Kind {
			case KParam:
				if pv.Loc.Path == "" {
					out = append(out, Loc{Root{Kind: KElem, Index: pv.Loc.Root.Index}, l.Path})
				}
			case KFresh:
				for _, e := range fi.Contents[pv.Loc.Root] {
					if e.Loc.Root.Kind == KNil {
						continue
					}
					out = append(out, Loc{e.Loc.Root, e.Loc.Path.Concat(l.Path)})
				}
			}
		}
		return out
	}
	return nil
}

// shiftFirst adds a slice start offset to the leading index step of p when the
// argument is a slice (callee indices are relative to the slice start).
func shiftFirst(p Path, off int, argType types.Type) Path {
	if _, ok := argType.Underlying().(*types.Slice); !ok || p == "" || off == 0 {
		return p
	}
	st := p.Steps()
	if st[0].Field {
		return p
	}
	if off == OffUnknown || st[0].N == AnyIndex {
		st[0].N = AnyIndex
	} else {
		st[0].N += off
	}
	return EncodePath(st)
}

func (fi *FuncInfo) translatePV(c *ssa.Call, k int, pv PVal) []PVal {
	switch pv.Loc.Root.Kind {
	case KFresh:
		return []PVal{{Loc: Loc{Root{Kind: KFresh, Site: c, Sub: k}, pv.Loc.Path}, Off: pv.Off}}
	case KNil:
		return []PVal{pv}
	}
	var out []PVal
	args := load.Actuals(c)
	if pv.Loc.Root.Kind == KParam && pv.Loc.Root.Index < len(args) {
		for _, apv := range fi.operand(args[pv.Loc.Root.Index]) {
			if apv.Loc.Root.Kind == KNil {
				continue
			}
			off := pv.Off
			if _, isSl := args[pv.Loc.Root.Index].Type().Underlying().(*types.Slice); isSl {
				if apv.Off == OffUnknown || off == OffUnknown {
					off = OffUnknown
				} else {
					off += apv.Off
				}
			}
			out = append(out, PVal{Loc: Loc{apv.Loc.Root, apv.Loc.Path.Concat(pv.Loc.Path)}, Off: off})
		}
		return out
	}
	for _, l := range fi.translate(c, false, pv.Loc) {
		out = append(out, PVal{Loc: l, Off: pv.Off})
	}
	return out
}

func (fi *FuncInfo) callPts(c *ssa.Call, set func(ssa.Value, []PVal), changed *bool) {
	cc := c.Common()
	if b, ok := cc.Value.(*ssa.Builtin); ok {
		switch b.Name() {
		case "len", "cap", "copy", "min", "max", "clear":
		case "append":
			// the result shares dst's backing array (len < cap) or is a new array
			fresh := Root{Kind: KFresh, Site: c}
			out := []PVal{{Loc: Loc{Root: fresh}}}
			for _, pv := range fi.operand(cc.Args[0]) {
				if pv.Loc.Root.Kind != KNil {
					out = append(out, pv)
				}
			}
			set(c, out)
			if sl, ok := c.Type().Underlying().(*types.Slice); ok && isPtrLike(sl.Elem()) {
				var elems []PVal
				for _, a := range cc.Args {
					elems = append(elems, fi.elemsOf(c, a)...)
				}
				for _, pv := range out {
					switch pv.Loc.Root.Kind {
					case KFresh:
						for _, e := range elems {
							var ch bool
							fi.Contents[pv.Loc.Root], ch = addPV(fi.Contents[pv.Loc.Root], e)
							if ch {
								*changed = true
							}
						}
					case KParam:
						for _, e := range elems {
							if e.Loc.Root != (Root{Kind: KElem, Index: pv.Loc.Root.Index}) {
								fi.A.problem(fi.Fn, c, "append stores pointers from elsewhere into the backing array of parameter %s", fi.RootName(pv.Loc.Root))
							}
						}
					default:
						fi.A.problem(fi.Fn, c, "append of pointers into %s", fi.LocName(pv.Loc))
					}
				}
			}
		default:
			fi.A.problem(fi.Fn, c, "builtin %s has no transfer function", b.Name())
		}
		return
	}
	sum, callee, once := fi.A.calleeSummary(c)
	if callee == nil {
		return // already reported by the structural assertions
	}
	if sum == nil {
		fi.A.problem(fi.Fn, c, "call to %s, an external callee without an effect summary (it takes or returns pointers: it may read, write or retain our memory)", callee.String())
		return
	}
	if once != nil {
		return
	}
	res := callee.Signature.Results()
	if res.Len() == 0 {
		return
	}
	// union of the callee's return provenance over all sites
	perResult := make([][]PVal, res.Len())
	for _, rs := range sum.Returns {
		for k, pvs := range rs.Results {
			for _, pv := range pvs {
				for _, t := range fi.translatePV(c, k, pv) {
					perResult[k], _ = addPV(perResult[k], t)
				}
			}
		}
	}
	// pointers held by objects the callee returns fresh
	for k, pvs := range sum.RetContents {
		r := Root{Kind: KFresh, Site: c, Sub: k}
		for _, pv := range pvs {
			var ts []PVal
			if pv.Loc.Root.Kind == KElem && pv.Loc.Root.Index < len(cc.Args) {
				ts = fi.elemsOf(c, cc.Args[pv.Loc.Root.Index])
			} else {
				ts = fi.translatePV(c, k, pv)
			}
			for _, t := range ts {
				var ch bool
				fi.Contents[r], ch = addPV(fi.Contents[r], t)
				if ch {
					*changed = true
				}
			}
		}
	}
	if res.Len() == 1 {
		if isPtrLike(res.At(0).Type()) {
			set(c, perResult[0])
		}
		return
	}
	old := fi.Tup[c]
	if old == nil {
		old = make([][]PVal, res.Len())
	}
	for k := range perResult {
		for _, pv := range perResult[k] {
			var ch bool
			old[k], ch = addPV(old[k], pv)
			if ch {
				*changed = true
			}
		}
	}
	fi.Tup[c] = old
}

// elemsOf: the pointers a slice-of-pointers value may hold.
func (fi *FuncInfo) elemsOf(at ssa.Instruction, v ssa.Value) []PVal {
	var out []PVal
	for _, pv := range fi.operand(v) {
		switch pv.Loc.Root.Kind {
		case KNil:
		case KParam:
			if pv.Loc.Path == "" {
				out = append(out, PVal{Loc: Loc{Root: Root{Kind: KElem, Index: pv.Loc.Root.Index}}})
			} else {
				fi.A.problem(fi.Fn, at, "pointer elements of %s", fi.LocName(pv.Loc))
			}
		case KFresh:
			out = append(out, fi.Contents[pv.Loc.Root]...)
		default:
			fi.A.problem(fi.Fn, at, "pointer elements of %s", fi.LocName(pv.Loc))
		}
	}
	return out
}

// ---- events ------------------------------------------------------------

func isZeroConst(v ssa.Value) bool {
	c, ok := v.(*ssa.Const)
	if !ok {
		return false
	}
	if c.Value == nil {
		return true // zero value of an aggregate / nil
	}
	switch c.Value.Kind() {
	case constant.Int:
		return constant.Sign(c.Value) == 0
	case constant.Bool:
		return !constant.BoolVal(c.Value)
	}
	return false
}

func singular(r Root) bool {
	return r.Kind == KParam || r.Kind == KGlobal || r.Kind == KGPointee || r.Kind == KFresh
}

// singularIn: r designates exactly one object throughout fn. Besides the singular root kinds this holds for
// the pointee of a pointer CELL handed in by address (a pointer variable captured by a closure: formal of type
// **T) that fn itself never assigns: the cell holds one pointer for the whole call.
func (fi *FuncInfo) singularIn(r Root) bool {
	if singular(r) {
		return true
	}
	if r.Kind != KElem {
		return false
	}
	fs := load.Formals(fi.Fn)
	if r.Index >= len(fs) {
		return false
	}
	pt, ok := fs[r.Index].Type().Underlying().(*types.Pointer)
	if !ok {
		return false
	}
	if _, isPP := pt.Elem().Underlying().(*types.Pointer); !isPP {
		return false
	}
	if refs := fs[r.Index].Referrers(); refs != nil {
		for _, ref := range *refs {
			if st, isStore := ref.(*ssa.Store); isStore && st.Addr == fs[r.Index] {
				return false // the cell is reassigned here
			}
		}
	}
	return true
}

func (fi *FuncInfo) events() {
	f := fi.Fn
	for _, b := range f.Blocks {
		for _, in := range b.Instrs {
			var evs []Event
			switch x := in.(type) {
			case *ssa.Alloc:
				evs = append(evs, Event{Op: OpKill, Loc: Loc{Root: Root{Kind: KFresh, Site: x}}, Instr: in})
			case *ssa.MakeSlice:
				evs = append(evs, Event{Op: OpKill, Loc: Loc{Root: Root{Kind: KFresh, Site: x}}, Instr: in})
			case *ssa.UnOp:
				if x.Op == token.MUL && x.Referrers() != nil && len(*x.Referrers()) == 0 {
					if _, isArr := x.Type().Underlying().(*types.Array); isArr {
						// go/ssa evaluates the operand of `for i := range arr` although the language does not
						// (constant length, no value variable): the loaded array is never used — not a read
						break
					}
				}
				if x.Op == token.MUL {
					for _, pv := range fi.operand(x.X) {
						if pv.Loc.Root.Kind == KNil {
							continue
						}
						evs = append(evs, Event{Op: OpReadInit, Loc: pv.Loc, Instr: in}, Event{Op: OpRead, Loc: pv.Loc, Instr: in})
					}
					if len(fi.operand(x.X)) == 0 {
						fi.A.problem(f, in, "load through an address of unknown provenance")
					}
				}
			case *ssa.Store:
				pvs := fi.operand(x.Addr)
				if g, ok := x.Addr.(*ssa.Global); ok && g.Pkg != fi.A.P.Root && g.Pkg != fi.A.P.Field {
					fi.A.problem(f, in, "store to a variable of package %s", g.Pkg.Pkg.Path())
				}
				if len(pvs) == 0 {
					fi.A.problem(f, in, "store through an address of unknown provenance")
				}
				for _, pv := range pvs {
					if pv.Loc.Root.Kind == KNil {
						continue
					}
					t := fi.RootType(pv.Loc.Root)
					st := TypeAt(t, pv.Loc.Path)
					if isZeroConst(x.Val) && st != nil && NonZeroValid(st) {
						evs = append(evs, Event{Op: OpWrite, Loc: pv.Loc, Instr: in}, Event{Op: OpKillPath, Loc: pv.Loc, Instr: in})
						continue
					}
					evs = append(evs, Event{Op: OpWrite, Loc: pv.Loc, Instr: in})
					if len(pvs) == 1 && fi.singularIn(pv.Loc.Root) && !pv.Loc.Path.HasAny() {
						evs = append(evs, Event{Op: OpMustWrite, Loc: pv.Loc, Instr: in})
					}
				}
			case *ssa.Call:
				evs = fi.callEvents(x)
			}
			if len(evs) > 0 {
				fi.Events[in] = evs
			}
		}
	}
}

func (fi *FuncInfo) callEvents(c *ssa.Call) []Event {
	cc := c.Common()
	var evs []Event
	if b, ok := cc.Value.(*ssa.Builtin); ok {
		if b.Name() == "append" {
			for _, pv := range fi.operand(cc.Args[1]) {
				if pv.Loc.Root.Kind == KNil {
					continue
				}
				l := Loc{pv.Loc.Root, pv.Loc.Path.Append(Step{N: AnyIndex})}
				evs = append(evs, Event{Op: OpReadInit, Loc: l, Instr: c}, Event{Op: OpRead, Loc: l, Instr: c})
			}
			for _, pv := range fi.operand(cc.Args[0]) {
				if pv.Loc.Root.Kind == KNil {
					continue
				}
				// elements are copied out on growth, and written in place (beyond len) otherwise
				l := Loc{pv.Loc.Root, pv.Loc.Path.Append(Step{N: AnyIndex})}
				evs = append(evs, Event{Op: OpReadInit, Loc: l, Instr: c}, Event{Op: OpRead, Loc: l, Instr: c}, Event{Op: OpWrite, Loc: l, Instr: c})
			}
			fr := Root{Kind: KFresh, Site: c}
			evs = append(evs, Event{Op: OpKill, Loc: Loc{Root: fr}, Instr: c}, Event{Op: OpWrite, Loc: Loc{fr, EncodePath([]Step{{N: AnyIndex}})}, Instr: c})
			return evs
		}
		if b.Name() == "clear" {
			for _, pv := range fi.operand(cc.Args[0]) {
				if pv.Loc.Root.Kind == KNil {
					continue
				}
				evs = append(evs, Event{Op: OpWrite, Loc: Loc{pv.Loc.Root, pv.Loc.Path.Append(Step{N: AnyIndex})}, Instr: c})
			}
			return evs
		}
		if b.Name() == "copy" {
			for _, pv := range fi.operand(cc.Args[1]) {
				if pv.Loc.Root.Kind == KNil {
					continue
				}
				l := Loc{pv.Loc.Root, pv.Loc.Path.Append(Step{N: AnyIndex})}
				evs = append(evs, Event{Op: OpReadInit, Loc: l, Instr: c}, Event{Op: OpRead, Loc: l, Instr: c})
			}
			for _, pv := range fi.operand(cc.Args[0]) {
				if pv.Loc.Root.Kind == KNil {
					continue
				}
				evs = append(evs, Event{Op: OpWrite, Loc: Loc{pv.Loc.Root, pv.Loc.Path.Append(Step{N: AnyIndex})}, Instr: c})
			}
		}
		return evs
	}
	sum, callee, once := fi.A.calleeSummary(c)
	if sum == nil {
		return nil
	}
	via := callee
	if once != nil {
		via = once
	}
	isOnce := once != nil
	tr := func(set LocSet, op Op) {
		var ls []Loc
		for l := range set {
			ls = append(ls, l)
		}
		sortLocs(ls)
		for _, l := range ls {
			inh := l.Root.Kind == KGlobal || l.Root.Kind == KGPointee
			for _, t := range fi.translate(c, isOnce, l) {
				evs = append(evs, Event{Op: op, Loc: t, Instr: c, Via: via, Inherited: inh})
			}
		}
	}
	tr(sum.ReadsInitial, OpReadInit)
	tr(sum.MayRead, OpRead)
	tr(sum.MayWrite, OpWrite)
	if !isOnce {
		// definite writes: only when the argument designates exactly one location
		var ls []Loc
		for l := range sum.MustWrite {
			ls = append(ls, l)
		}
		sortLocs(ls)
		for _, l := range ls {
			ts := fi.translate(c, false, l)
			if len(ts) == 1 && fi.singularIn(ts[0].Root) && !ts[0].Path.HasAny() {
				evs = append(evs, Event{Op: OpMustWrite, Loc: ts[0], Instr: c, Via: via})
			}
		}
		// objects returned fresh by the callee are fully defined by it
		res := callee.Signature.Results()
		for k := 0; k < res.Len(); k++ {
			if isPtrLike(res.At(k).Type()) {
				evs = append(evs, Event{Op: OpMustWrite, Loc: Loc{Root: Root{Kind: KFresh, Site: c, Sub: k}}, Instr: c, Via: via})
			}
		}
	}
	return evs
}

func sortLocs(ls []Loc) {
	sort.Slice(ls, func(i, j int) bool {
		a, b := ls[i], ls[j]
		if a.Root.Kind != b.Root.Kind {
			return a.Root.Kind < b.Root.Kind
		}
		if a.Root.Index != b.Root.Index {
			return a.Root.Index < b.Root.Index
		}
		an, bn := "", ""
		if a.Root.Global != nil {
			an = a.Root.Global.Name()
		}
		if b.Root.Global != nil {
			bn = b.Root.Global.Name()
		}
		if an != bn {
			return an < bn
		}
		return a.Path < b.Path
	})
}

// ---- dataflow: must-written, may-written, pairs, returns ----------------

type state struct {
	must LocSet // nil = unreachable/top
	may  LocSet
}

func (fi *FuncInfo) covered(must LocSet, l Loc) bool {
	if l.Path.HasAny() {
		return true // untracked (DESIGN R-INIT): variable-indexed storage
	}
	for m := range must {
		if m.Root == l.Root && Covers(m.Path, l.Path) {
			return true
		}
	}
	// all children covered?
	t := TypeAt(fi.RootType(l.Root), l.Path)
	if t == nil {
		return false
	}
	switch u := t.Underlying().(type) {
	case *types.Struct:
		n := 0
		for i := 0; i < u.NumFields(); i++ {
			if isZeroSize(u.Field(i).Type()) {
				continue
			}
			n++
			if !fi.covered(must, Loc{l.Root, l.Path.Append(Step{Field: true, N: i})}) {
				return false
			}
		}
		return n > 0
	case *types.Array:
		if u.Len() == 0 || u.Len() > 64 {
			return false
		}
		for i := 0; i < int(u.Len()); i++ {
			if !fi.covered(must, Loc{l.Root, l.Path.Append(Step{N: i})}) {
				return false
			}
		}
		return true
	}
	return false
}

func isZeroSize(t types.Type) bool {
	switch u := t.Underlying().(type) {
	case *types.Array:
		return u.Len() == 0 || isZeroSize(u.Elem())
	case *types.Struct:
		for i := 0; i < u.NumFields(); i++ {
			if !isZeroSize(u.Field(i).Type()) {
				return false
			}
		}
		return true
	}
	return false
}

func (fi *FuncInfo) meetMust(a, b LocSet) LocSet {
	if a == nil {
		return b.Clone()
	}
	if b == nil {
		return a.Clone()
	}
	out := LocSet{}
	for l := range a {
		if fi.covered(b, l) {
			out.Add(l)
		}
	}
	for l := range b {
		if fi.covered(a, l) {
			out.Add(l)
		}
	}
	return out
}

func sameSet(a, b LocSet) bool {
	if (a == nil) != (b == nil) || len(a) != len(b) {
		return false
	}
	for l := range a {
		if !b.Has(l) {
			return false
		}
	}
	return true
}

// peelableLoops finds loops whose header has an integer phi entered with a constant and whose body tests that
// phi for (in)equality with the same constant. Returns, per block of such a loop, its header; and per header the
// phi and the constant. Only outermost such loops are considered.
func (fi *FuncInfo) peelableLoops() (map[*ssa.BasicBlock]*ssa.BasicBlock, map[*ssa.BasicBlock]*ssa.Phi, map[*ssa.BasicBlock]constant.Value) {
	f := fi.Fn
	of := map[*ssa.BasicBlock]*ssa.BasicBlock{}
	phis := map[*ssa.BasicBlock]*ssa.Phi{}
	consts := map[*ssa.BasicBlock]constant.Value{}
	reach := func(from, to *ssa.BasicBlock, within *ssa.BasicBlock) bool {
		seen := map[*ssa.BasicBlock]bool{}
		var walk func(b *ssa.BasicBlock) bool
		walk = func(b *ssa.BasicBlock) bool {
			for _, s := range b.Succs {
				if s == to {
					return true
				}
				if !seen[s] && within.Dominates(s) {
					seen[s] = true
					if walk(s) {
						return true
					}
				}
			}
			return false
		}
		return walk(from)
	}
	for _, h := range f.Blocks {
		if of[h] != nil {
			continue // inside an outer peelable loop already
		}
		back := false
		for _, p := range h.Preds {
			if h.Dominates(p) {
				back = true
			}
		}
		if !back {
			continue
		}
		for _, ins := range h.Instrs {
			ph, ok := ins.(*ssa.Phi)
			if !ok {
				break
			}
			var c0 constant.Value
			okc := true
			for i, p := range h.Preds {
				if h.Dominates(p) {
					continue
				}
				c, isC := ph.Edges[i].(*ssa.Const)
				if !isC || c.Value == nil || c.Value.Kind() != constant.Int || (c0 != nil && !constant.Compare(c0, token.EQL, c.Value)) {
					okc = false
					break
				}
				c0 = c.Value
			}
			if !okc || c0 == nil {
				continue
			}
			used := false
			for _, ref := range *ph.Referrers() {
				bo, ok := ref.(*ssa.BinOp)
				if !ok || !h.Dominates(bo.Block()) {
					continue
				}
				switch bo.Op {
				case token.EQL, token.NEQ, token.LSS, token.LEQ, token.GTR, token.GEQ:
				default:
					continue
				}
				other := bo.Y
				if bo.Y == ssa.Value(ph) {
					other = bo.X
				}
				// a test of the induction variable against a constant inside the body (not the loop condition itself:
				// that one leaves the loop) — `if i != 63`, `if i < 63`
				if c, isC := other.(*ssa.Const); isC && c.Value != nil && c.Value.Kind() == constant.Int && bo.Block() != h {
					for _, r2 := range *bo.Referrers() {
						if _, isIf := r2.(*ssa.If); isIf {
							used = true
						}
					}
				}
			}
			if !used {
				continue
			}
			phis[h], consts[h] = ph, c0
			of[h] = h
			for _, b := range f.Blocks {
				if b != h && h.Dominates(b) && reach(b, h, h) {
					of[b] = h
				}
			}
			break
		}
	}
	return of, phis, consts
}

func (fi *FuncInfo) dataflow() {
	f := fi.Fn
	sum := &Summary{Fn: f, MayRead: LocSet{}, MayWrite: LocSet{}, ReadsInitial: LocSet{}, MustWrite: nil, Pairs: map[Pair]struct{}{}}
	fi.Sum = sum
	in := make([]state, len(f.Blocks))
	out := make([]state, len(f.Blocks))
	in[0] = state{must: LocSet{}, may: LocSet{}}
	lastWriteEv := map[Loc]Event{}
	localSeen := map[string]bool{}

	step := func(st *state, ev Event, record bool) {
		switch ev.Op {
		case OpKill:
			for l := range st.must {
				if l.Root == ev.Loc.Root {
					delete(st.must, l)
				}
			}
		case OpKillPath:
			for l := range st.must {
				if l.Root == ev.Loc.Root && Overlap(l.Path, ev.Loc.Path) {
					delete(st.must, l)
				}
			}
		case OpReadInit:
			if ev.Loc.Path.HasAny() {
				if record {
					fi.Untracked++
				}
				return
			}
			if fi.covered(st.must, ev.Loc) {
				return
			}
			if ev.Loc.Root.IsFresh() {
				t := fi.RootType(ev.Loc.Root)
				if t != nil && NonZeroValid(t) && containsArray(TypeAt(t, ev.Loc.Path)) {
					// a whole-object read (copy, return by value) of a table whose entries are filled through variable
					// indices: element-wise definedness is a loop property the rule does not track (same as element reads)
					if record {
						fi.Untracked++
					}
					return
				}
				if t != nil && NonZeroValid(t) {
					key := fi.LocName(ev.Loc) + "@" + fmt.Sprint(ev.Instr.Pos())
					if !localSeen[key] {
						localSeen[key] = true
						fi.LocalInit = append(fi.LocalInit, InitViolation{Fn: f, Root: ev.Loc.Root, Loc: ev.Loc, Instr: ev.Instr, Via: ev.Via})
					}
				}
				return
			}
			if sum.ReadsInitial.Add(ev.Loc) {
				fi.InitReadAt[ev.Loc] = ev
			}
		case OpRead:
			if !ev.Loc.Root.IsFresh() {
				sum.MayRead.Add(ev.Loc)
			}
			if ev.Loc.Root.IsFresh() {
				return
			}
			for w := range st.may {
				if w.Root.IsFresh() {
					continue
				}
				if w.Root == ev.Loc.Root && w.Root.Kind != KElem {
					continue
				}
				p := Pair{W: w, R: ev.Loc}
				if _, ok := sum.Pairs[p]; !ok {
					sum.Pairs[p] = struct{}{}
					fi.PairAt[p] = [2]Event{lastWriteEv[w], ev}
				}
			}
		case OpWrite:
			if !ev.Loc.Root.IsFresh() {
				sum.MayWrite.Add(ev.Loc)
			}
			if st.may.Add(ev.Loc) {
				lastWriteEv[ev.Loc] = ev
			}
			if ev.Loc.Root.IsFresh() && !(ev.Via != nil && load.ShortName(ev.Via) == "field.(*Element).One") {
				st.may.Add(nonOneMark(ev.Loc)) // written by something other than Element.One (see identityByZero)
			}
		case OpMustWrite:
			st.must.Add(ev.Loc)
			if ev.Loc.Root.IsFresh() {
				if t := fi.RootType(ev.Loc.Root); t != nil && NonZeroValid(t) {
					// the moment the object becomes "zero value + One() on the coordinates that are 1 in the neutral
					// element", its never-written coordinates are the zeros of the neutral element: defined
					for _, zl := range fi.identityZeros(st, ev.Loc.Root, t) {
						st.must.Add(zl)
					}
				}
			}
		}
	}

	// Virtual nodes: node b.Index is block b in general; node n+b.Index is block b during the FIRST iteration of
	// a loop whose induction variable starts at a constant that the body compares it with (`if i != 63 { … }`:
	// a folded-back peeled iteration). In that copy the comparison is decided, so a path that would use a
	// value before the first iteration has produced it is not considered.
	n := len(f.Blocks)
	peelOf, peelPhi, peelConst := fi.peelableLoops()
	succsOf := func(node int) []int {
		b := f.Blocks[node%n]
		first := node >= n
		var out []int
		for si, sb := range b.Succs {
			if first {
				h := peelOf[b]
				// decided comparisons of the induction variable with its initial value
				if ifi, ok := b.Instrs[len(b.Instrs)-1].(*ssa.If); ok {
					if bo, ok := ifi.Cond.(*ssa.BinOp); ok {
						switch bo.Op {
						case token.EQL, token.NEQ, token.LSS, token.LEQ, token.GTR, token.GEQ:
							// in the first iteration the induction variable HAS its initial value: any comparison of it
							// with a constant is decided (`if i != 63`, `if i < 63`, `if i > 0` …)
							var c *ssa.Const
							phiLeft := false
							if bo.X == ssa.Value(peelPhi[h]) {
								c, _ = bo.Y.(*ssa.Const)
								phiLeft = true
							} else if bo.Y == ssa.Value(peelPhi[h]) {
								c, _ = bo.X.(*ssa.Const)
							}
							if c != nil && c.Value != nil && c.Value.Kind() == constant.Int {
								var truth bool
								if phiLeft {
									truth = constant.Compare(peelConst[h], bo.Op, c.Value)
								} else {
									truth = constant.Compare(c.Value, bo.Op, peelConst[h])
								}
								taken := 1
								if truth {
									taken = 0
								}
								if si != taken {
									continue
								}
							}
						}
					}
				}
				switch {
				case sb == h: // back edge: first iteration over
					out = append(out, sb.Index)
				case peelOf[sb] == h:
					out = append(out, n+sb.Index)
				default: // leaves the loop
					out = append(out, sb.Index)
				}
				continue
			}
			if h := peelOf[sb]; h == sb && peelOf[b] != h {
				out = append(out, n+sb.Index) // entering a peelable loop from outside
			} else {
				out = append(out, sb.Index)
			}
		}
		return out
	}
	vpreds := make([][]int, 2*n)
	exists := make([]bool, 2*n)
	exists[0] = true
	for changedE := true; changedE; {
		changedE = false
		for node := 0; node < 2*n; node++ {
			if !exists[node] {
				continue
			}
			for _, sn := range succsOf(node) {
				found := false
				for _, p := range vpreds[sn] {
					if p == node {
						found = true
					}
				}
				if !found {
					vpreds[sn] = append(vpreds[sn], node)
				}
				if !exists[sn] {
					exists[sn] = true
					changedE = true
				}
			}
		}
	}
	in = make([]state, 2*n)
	out = make([]state, 2*n)
	in[0] = state{must: LocSet{}, may: LocSet{}}
	changed := true
	for iter := 0; changed && iter < 100; iter++ {
		changed = false
		for node := 0; node < 2*n; node++ {
			if !exists[node] {
				continue
			}
			b := f.Blocks[node%n]
			var st state
			if node == 0 {
				st = state{must: in[0].must.Clone(), may: in[0].may.Clone()}
			} else {
				st.may = LocSet{}
				first := true
				for _, pn := range vpreds[node] {
					po := out[pn]
					if po.must == nil {
						continue
					}
					if gain := append(fi.successEdgeGain(f.Blocks[pn%n], b), fi.loopArrayGain(f.Blocks[pn%n], b)...); len(gain) > 0 {
						// the edge on which a fallible setter's error is nil: the setter has written all of its receiver
						po = state{must: po.must.Clone(), may: po.may}
						for _, l := range gain {
							po.must.Add(l)
						}
					}
					if first {
						st.must = po.must.Clone()
						first = false
					} else {
						st.must = fi.meetMust(st.must, po.must)
					}
					for l := range po.may {
						st.may.Add(l)
					}
				}
				if first {
					continue // not yet reachable
				}
			}
			for _, ins := range b.Instrs {
				if call, ok := ins.(*ssa.Call); ok {
					m := fi.MayRootsBefore[ins]
					if m == nil {
						m = map[Root]bool{}
						fi.MayRootsBefore[ins] = m
					}
					for l := range st.may {
						m[l.Root] = true
					}
					fi.callPairs(call, sum)
				}
				for _, ev := range fi.Events[ins] {
					step(&st, ev, false)
				}
			}
			if !sameSet(out[node].must, st.must) || !sameSet(out[node].may, st.may) {
				out[node] = st
				changed = true
			}
		}
	}
	if changed {
		fi.A.problem(f, nil, "effect dataflow did not converge")
	}
	// fold the first-iteration copies back: a block's exit state is the meet/union over its copies
	for bi := 0; bi < n; bi++ {
		a, b := out[bi], out[n+bi]
		switch {
		case b.must == nil:
		case a.must == nil:
			out[bi] = b
		default:
			m := state{must: fi.meetMust(a.must, b.must), may: a.may.Clone()}
			for l := range b.may {
				m.may.Add(l)
			}
			out[bi] = m
		}
	}
	// final pass: return sites
	for _, b := range f.Blocks {
		if len(b.Instrs) == 0 {
			continue
		}
		ret, ok := b.Instrs[len(b.Instrs)-1].(*ssa.Return)
		if !ok {
			continue
		}
		st := out[b.Index]
		if st.must == nil {
			continue // unreachable
		}
		// a return block that only merges values (phis of the named results): one site per incoming path
		if vs := fi.virtualSites(ret); len(vs) > 1 {
			for _, v := range vs {
				pst := out[v.pred.Index]
				if pst.must == nil {
					continue
				}
				must := pst.must.Clone()
				for _, l := range append(fi.successEdgeGain(v.pred, v.to), fi.loopArrayGain(v.pred, v.to)...) {
					must.Add(l)
				}
				fi.addReturnSite(sum, ret, state{must: must, may: pst.may}, v)
			}
			// the function's MustWrite is still the meet at the merged block
			m := LocSet{}
			for l := range st.must {
				if !l.Root.IsFresh() {
					m.Add(l)
				}
			}
			if sum.MustWrite == nil {
				sum.MustWrite = m
			} else {
				sum.MustWrite = fi.meetMust(sum.MustWrite, m)
			}
			continue
		}
		// MustWrite of the function: meet over return sites, non-fresh roots only
		m := LocSet{}
		for l := range st.must {
			if !l.Root.IsFresh() {
				m.Add(l)
			}
		}
		if sum.MustWrite == nil {
			sum.MustWrite = m
		} else {
			sum.MustWrite = fi.meetMust(sum.MustWrite, m)
		}
		fi.addReturnSite(sum, ret, st, nil)
	}
	if sum.MustWrite == nil {
		sum.MustWrite = LocSet{}
	}
}

func isErrorType(t types.Type) bool {
	return types.Identical(t, types.Universe.Lookup("error").Type())
}

// callPairs imports the callee's internal write-then-read pairs.
func (fi *FuncInfo) callPairs(c *ssa.Call, sum *Summary) {
	cs, callee, once := fi.A.calleeSummary(c)
	if cs == nil || len(cs.Pairs) == 0 {
		return
	}
	via := callee
	if once != nil {
		via = once
	}
	for p := range cs.Pairs {
		ws := fi.translate(c, once != nil, p.W)
		rs := fi.translate(c, once != nil, p.R)
		for _, w := range ws {
			for _, r := range rs {
				if w.Root.IsFresh() || r.Root.IsFresh() {
					continue
				}
				if w.Root == r.Root && w.Root.Kind != KElem {
					continue
				}
				np := Pair{W: w, R: r}
				if _, ok := sum.Pairs[np]; !ok {
					sum.Pairs[np] = struct{}{}
					fi.PairAt[np] = [2]Event{{Op: OpWrite, Loc: w, Instr: c, Via: via}, {Op: OpRead, Loc: r, Instr: c, Via: via}}
				}
			}
		}
	}
}

// ---- external and assembly summaries ------------------------------------

func (a *Analysis) external(f *ssa.Function) *Summary {
	name := f.String()
	if s, ok := a.Ext[name]; ok {
		return s
	}
	s := &Summary{Fn: f, MayRead: LocSet{}, MayWrite: LocSet{}, ReadsInitial: LocSet{}, MustWrite: LocSet{}, Pairs: map[Pair]struct{}{}, External: true}
	idx := func(param, i int) Loc {
		return Loc{Root{Kind: KParam, Index: param}, EncodePath([]Step{{N: i}})}
	}
	if f.Synthetic != "" && f.Name() == "init" {
		// initialiser of an imported package: touches nothing of ours
		s.Returns = []ReturnSite{{Err: -1}}
		a.Ext[name] = s
		return s
	}
	readAll := func(params ...int) {
		for _, p := range params {
			s.MayRead.Add(idx(p, AnyIndex))
			s.ReadsInitial.Add(idx(p, AnyIndex))
		}
	}
	hasPtr := false
	for _, p := range f.Params {
		if isPtrLike(p.Type()) {
			hasPtr = true
		}
	}
	res := f.Signature.Results()
	for k := 0; k < res.Len(); k++ {
		if isPtrLike(res.At(k).Type()) {
			hasPtr = true
		}
	}
	pkg := ""
	if f.Pkg != nil {
		pkg = f.Pkg.Pkg.Path()
	}
	switch {
	case name == "(encoding/binary.littleEndian).Uint64" || name == "(encoding/binary.bigEndian).Uint64":
		for i := 0; i < 8; i++ {
			s.MayRead.Add(idx(1, i))
			s.ReadsInitial.Add(idx(1, i))
		}
	case name == "(encoding/binary.littleEndian).Uint32" || name == "(encoding/binary.bigEndian).Uint32":
		for i := 0; i < 4; i++ {
			s.MayRead.Add(idx(1, i))
			s.ReadsInitial.Add(idx(1, i))
		}
	case name == "(encoding/binary.littleEndian).PutUint64" || name == "(encoding/binary.bigEndian).PutUint64":
		for i := 0; i < 8; i++ {
			s.MayWrite.Add(idx(1, i))
			s.MustWrite.Add(idx(1, i))
		}
	case name == "(encoding/binary.littleEndian).PutUint32" || name == "(encoding/binary.bigEndian).PutUint32":
		for i := 0; i < 4; i++ {
			s.MayWrite.Add(idx(1, i))
			s.MustWrite.Add(idx(1, i))
		}
	case name == "crypto/subtle.ConstantTimeCompare" || name == "bytes.Equal" || name == "bytes.Compare":
		readAll(0, 1)
	case name == "crypto/subtle.ConstantTimeCopy":
		readAll(2)
		s.MayWrite.Add(idx(1, AnyIndex))
	case name == "crypto/subtle.XORBytes":
		readAll(1, 2)
		s.MayWrite.Add(idx(0, AnyIndex))
	case name == "(*sync.Once).Do":
		// handled at the call site through the literal
	case pkg == "sync" && (strings.HasSuffix(name, ".Lock") || strings.HasSuffix(name, ".Unlock") || strings.HasSuffix(name, ".RLock") || strings.HasSuffix(name, ".RUnlock")):
		// mutual exclusion: no effect on the locations we track; the lock word itself
		s.MayRead.Add(Loc{Root{Kind: KParam, Index: 0}, ""})
		s.MayWrite.Add(Loc{Root{Kind: KParam, Index: 0}, ""})
	case pkg == "sync/atomic" && !strings.Contains(name, "Pointer"):
		// atomic integer operations on their receiver / first argument
		s.MayRead.Add(Loc{Root{Kind: KParam, Index: 0}, ""})
		s.ReadsInitial.Add(Loc{Root{Kind: KParam, Index: 0}, ""})
		if !strings.HasSuffix(name, ".Load") && !strings.HasPrefix(f.Name(), "Load") {
			s.MayWrite.Add(Loc{Root{Kind: KParam, Index: 0}, ""})
		}
	case !hasPtr:
		// a function of scalars only cannot touch our memory
	default:
		// reported at each call site (scoped to the calling function)
		s = nil
	}
	if s != nil {
		s.Returns = []ReturnSite{{Err: -1}}
	}
	a.Ext[name] = s
	return s
}

func (a *Analysis) asmSummary(f *ssa.Function) *Summary {
	s := &Summary{Fn: f, MayRead: LocSet{}, MayWrite: LocSet{}, ReadsInitial: LocSet{}, MustWrite: LocSet{}, Pairs: map[Pair]struct{}{}}
	as := a.P.Asm[f]
	if as == nil {
		a.problem(f, nil, "no body and no assembly")
		return s
	}
	for _, u := range as.Undecided {
		a.addProblemFn(f, "UNDECIDED asm "+a.P.RelFile(u))
	}
	if as.NParams != len(f.Params) {
		a.problem(f, nil, "assembly frame declares %d argument words, Go declaration has %d parameters", as.NParams, len(f.Params))
	}
	for _, p := range f.Params {
		if _, ok := p.Type().Underlying().(*types.Pointer); !ok {
			a.problem(f, nil, "assembly stub with non-pointer parameter %s", p.Name())
		}
	}
	written := LocSet{}
	for _, ev := range as.Events {
		if ev.Param >= len(f.Params) {
			a.problem(f, nil, "assembly accesses argument word %d", ev.Param)
			continue
		}
		pt := pointee(f.Params[ev.Param].Type())
		st, ok := pt.Underlying().(*types.Struct)
		if !ok || ev.Word >= st.NumFields() {
			a.problem(f, nil, "assembly access %s outside the pointee of %s", ev.Inst.Text, f.Params[ev.Param].Name())
			continue
		}
		l := Loc{Root{Kind: KParam, Index: ev.Param}, EncodePath([]Step{{Field: true, N: ev.Word}})}
		if ev.Write {
			s.MayWrite.Add(l)
			s.MustWrite.Add(l)
			written.Add(l)
		} else {
			s.MayRead.Add(l)
			if !written.Has(l) {
				s.ReadsInitial.Add(l)
			}
			for w := range written {
				if w.Root != l.Root {
					s.Pairs[Pair{W: w, R: l}] = struct{}{}
				}
			}
		}
	}
	s.Returns = []ReturnSite{{Err: -1, WrittenRoots: map[Root]bool{}}}
	for l := range s.MayWrite {
		s.Returns[0].WrittenRoots[l.Root] = true
	}
	return s
}

// ---- helpers for rules ---------------------------------------------------

// EventString renders an event for reports.
func (fi *FuncInfo) EventString(ev Event) string {
	op := map[Op]string{OpReadInit: "R0", OpRead: "R", OpWrite: "W", OpMustWrite: "W!", OpKill: "new", OpKillPath: "zero"}[ev.Op]
	via := ""
	if ev.Via != nil {
		via = " via " + load.ShortName(ev.Via)
	}
	pos := "-"
	if ev.Instr != nil {
		pos = fi.A.P.Rel(ev.Instr.Pos())
	}
	return fmt.Sprintf("%s(%s)@%s%s", op, fi.LocName(ev.Loc), pos, via)
}

func (fi *FuncInfo) LocNames(s LocSet) []string {
	out := sortedLocs(s, fi.LocName)
	return out
}

func JoinNames(xs []string) string { return strings.Join(xs, ", ") }

// Translate maps a callee location to caller locations at a (non-Once) call site.
func (fi *FuncInfo) Translate(c ssa.CallInstruction, l Loc) []Loc { return fi.translate(c, false, l) }

// PtsOf exposes the points-to set of a pointer/slice value.
func (fi *FuncInfo) PtsOf(v ssa.Value) []PVal { return fi.operand(v) }

// successEdgeGain: pb ends in `if err != nil` (or ==) on the error result of a
// call to a function whose every success site has written its whole receiver
// (the fallible setters); on the edge to b where the error is nil the
// receiver object of that call is therefore fully defined.
func (fi *FuncInfo) successEdgeGain(pb, b *ssa.BasicBlock) []Loc {
	if len(pb.Instrs) == 0 || len(pb.Succs) != 2 {
		return nil
	}
	ifi, ok := pb.Instrs[len(pb.Instrs)-1].(*ssa.If)
	if !ok {
		return nil
	}
	bo, ok := ifi.Cond.(*ssa.BinOp)
	if !ok || (bo.Op != token.EQL && bo.Op != token.NEQ) {
		return nil
	}
	x, y := bo.X, bo.Y
	if c, isC := x.(*ssa.Const); isC && c.Value == nil {
		x, y = y, x
	}
	if c, isC := y.(*ssa.Const); !isC || c.Value != nil {
		return nil
	}
	ex, ok := x.(*ssa.Extract)
	if !ok || !isErrorType(ex.Type()) {
		return nil
	}
	call, ok := ex.Tuple.(*ssa.Call)
	if !ok {
		return nil
	}
	h := call.Common().StaticCallee()
	hi := fi.A.Info[h]
	if h == nil || hi == nil || hi.Sum == nil || len(call.Common().Args) == 0 {
		return nil
	}
	nilEdge := 0
	if bo.Op == token.NEQ {
		nilEdge = 1
	}
	if pb.Succs[nilEdge] != b || pb.Succs[1-nilEdge] == b {
		return nil
	}
	n := 0
	for _, rs := range hi.Sum.Returns {
		switch {
		case rs.Forwarded != nil, rs.Err == 2, rs.Err == -1:
			return nil
		case rs.Err == 0:
			if !rs.RecvDefined {
				return nil
			}
			n++
		}
	}
	if n == 0 {
		return nil
	}
	pvs := fi.operand(call.Common().Args[0])
	if len(pvs) != 1 {
		return nil
	}
	return []Loc{pvs[0].Loc}
}

// vsite is one incoming path of a merging return block.
type vsite struct {
	pred, to *ssa.BasicBlock
	subst    map[ssa.Value]ssa.Value
}

func (v *vsite) resolve(x ssa.Value) ssa.Value {
	if v == nil {
		return x
	}
	for i := 0; i < 8; i++ {
		y, ok := v.subst[x]
		if !ok {
			break
		}
		x = y
	}
	return x
}

// virtualSites expands a return whose block (and, transitively, the blocks that
// jump to it) holds nothing but phis into the paths that reach it.
func (fi *FuncInfo) virtualSites(ret *ssa.Return) []*vsite {
	merging := func(b *ssa.BasicBlock) bool {
		if len(b.Preds) < 2 {
			return false
		}
		for _, in := range b.Instrs[:len(b.Instrs)-1] {
			switch in.(type) {
			case *ssa.Phi, *ssa.DebugRef:
			default:
				return false
			}
		}
		return true
	}
	if !merging(ret.Block()) {
		return nil
	}
	var out []*vsite
	var walk func(b *ssa.BasicBlock, subst map[ssa.Value]ssa.Value, depth int) bool
	walk = func(b *ssa.BasicBlock, subst map[ssa.Value]ssa.Value, depth int) bool {
		for i, pb := range b.Preds {
			s2 := map[ssa.Value]ssa.Value{}
			for k, v := range subst {
				s2[k] = v
			}
			for _, in := range b.Instrs {
				if ph, ok := in.(*ssa.Phi); ok {
					s2[ph] = ph.Edges[i]
				}
			}
			_, isJump := pb.Instrs[len(pb.Instrs)-1].(*ssa.Jump)
			if isJump && merging(pb) && depth < 4 {
				if !walk(pb, s2, depth+1) {
					return false
				}
				continue
			}
			out = append(out, &vsite{pred: pb, to: b, subst: s2})
			if len(out) > 32 {
				return false
			}
		}
		return true
	}
	if !walk(ret.Block(), map[ssa.Value]ssa.Value{}, 0) {
		return nil
	}
	return out
}

func (fi *FuncInfo) addReturnSite(sum *Summary, ret *ssa.Return, st state, v *vsite) {
	f := fi.Fn
	rs := ReturnSite{Instr: ret, Err: -1, WrittenRoots: map[Root]bool{}}
	if v != nil {
		rs.Pred, rs.To = v.pred, v.to
	}
	for l := range st.may {
		rs.WrittenRoots[l.Root] = true
	}
	if len(f.Params) > 0 && isPtrLike(f.Params[0].Type()) {
		rs.RecvDefined = fi.covered(st.must, Loc{Root: Root{Kind: KParam, Index: 0}})
	}
	res := f.Signature.Results()
	rs.Results = make([][]PVal, len(ret.Results))
	for k, rv0 := range ret.Results {
		rv := v.resolve(rv0)
		if isPtrLike(rv.Type()) {
			rs.Results[k] = fi.operand(rv)
			for _, pv := range rs.Results[k] {
				if pv.Loc.Root.IsFresh() && len(fi.Contents[pv.Loc.Root]) > 0 {
					if sum.RetContents == nil {
						sum.RetContents = map[int][]PVal{}
					}
					for _, cpv := range fi.Contents[pv.Loc.Root] {
						sum.RetContents[k], _ = addPV(sum.RetContents[k], cpv)
					}
				}
			}
			// a returned local object of a non-zero-valid type must be fully defined
			for _, pv := range rs.Results[k] {
				if pv.Loc.Root.IsFresh() {
					if t := fi.RootType(pv.Loc.Root); t != nil && NonZeroValid(t) && !fi.covered(st.must, pv.Loc) {
						fi.LocalInit = append(fi.LocalInit, InitViolation{Fn: f, Root: pv.Loc.Root, Loc: pv.Loc, Instr: ret})
					}
				}
			}
		}
	}
	if n := res.Len(); n > 0 && isErrorType(res.At(n-1).Type()) {
		ev := v.resolve(ret.Results[n-1])
		rs.Err = 2
		if k := fi.A.P.ErrNil(ev); k != 2 {
			// the nil constant; errors.New / fmt.Errorf; a sentinel error variable (written once, by the
			// initialiser, with a non-nil error); a non-nil concrete value boxed into the interface
			rs.Err = k
		} else {
			// `if err != nil { return nil, err }`: on the branch where it was tested non-nil (nil), it is
			from := ret.Block()
			if v != nil {
				from = v.pred
			}
			if k := knownByBranch(ev, from); k != 2 {
				rs.Err = k
			}
		}
		switch e := ev.(type) {
		case *ssa.Extract:
			if call, ok := e.Tuple.(*ssa.Call); ok {
				if cal := call.Common().StaticCallee(); cal != nil && fi.A.Info[cal] != nil {
					// forwarded tuple: must forward all components in order
					fwd := true
					for k, rv0 := range ret.Results {
						rv := v.resolve(rv0)
						ex, ok := rv.(*ssa.Extract)
						if !ok || ex.Tuple != e.Tuple || ex.Index != k {
							fwd = false
						}
					}
					if fwd {
						rs.Forwarded = cal
					}
				}
			}
		}
	}
	sum.Returns = append(sum.Returns, rs)
}

// ---- the neutral element written as "zero value + One()" ------------------------------------

const nonOneField = 9999

func nonOneMark(l Loc) Loc {
	return Loc{Root: l.Root, Path: EncodePath([]Step{{Field: true, N: nonOneField}}) + l.Path}
}

// identityPattern: per coordinate system, the coordinates that are 1 and those that are 0 in the neutral element.
var identityPattern = map[string][2][]string{
	"projP2":       {{"Y", "Z"}, {"X"}},
	"projCached":   {{"YplusX", "YminusX", "Z"}, {"T2d"}},
	"affineCached": {{"YplusX", "YminusX"}, {"T2d"}},
	"Point":        {{"y", "z"}, {"x", "t"}},
}

// identityZeros: when a fresh point-like object is exactly "the zero value
// with One() stored into the coordinates that are 1 in the neutral element" —
// (a) none of the coordinates that are 0 there has been written on any path so
// far, and (b) the coordinates that are 1 there have all been written on every
// path, by field.(*Element).One and by nothing else — the object IS the neutral
// element of its coordinate system, and its never-written coordinates are
// defined (they are its zeros). Returns those locations.
func (fi *FuncInfo) identityZeros(st *state, root Root, t types.Type) []Loc {
	n, ok := t.(*types.Named)
	if !ok {
		return nil
	}
	pat, ok := identityPattern[n.Obj().Name()]
	if !ok {
		return nil
	}
	fieldPath := func(name string) (Path, bool) {
		i := load.FieldIndex(t, name)
		if i < 0 {
			return "", false
		}
		return EncodePath([]Step{{Field: true, N: i}}), true
	}
	var zeros []Loc
	for _, zf := range pat[1] {
		fp, ok := fieldPath(zf)
		if !ok {
			return nil
		}
		for w := range st.may {
			if w.Root == root && Overlap(w.Path, fp) {
				return nil // a zero coordinate has been written
			}
		}
		zeros = append(zeros, Loc{Root: root, Path: fp})
	}
	mark := EncodePath([]Step{{Field: true, N: nonOneField}})
	for _, of := range pat[0] {
		fp, ok := fieldPath(of)
		if !ok || !fi.covered(st.must, Loc{Root: root, Path: fp}) {
			return nil
		}
		for w := range st.may {
			if w.Root == root && strings.HasPrefix(string(w.Path), string(mark)) && Overlap(Path(strings.TrimPrefix(string(w.Path), string(mark))), fp) {
				return nil // written by something other than One()
			}
		}
	}
	return zeros
}

// loopArrayGain: pb is the header of a counted loop `for i := 0; i < N; i++`
// (N a constant) and b its exit. Every array of length N that the body writes
// at index i on every iteration — by a store, or by a callee that always writes
// the element it is handed — has been written completely when the loop is left
// through its condition.
func (fi *FuncInfo) loopArrayGain(pb, b *ssa.BasicBlock) []Loc {
	if len(pb.Instrs) == 0 || len(pb.Succs) != 2 || pb.Succs[1] != b || pb.Succs[0] == b {
		return nil
	}
	ifi, ok := pb.Instrs[len(pb.Instrs)-1].(*ssa.If)
	if !ok {
		return nil
	}
	bo, ok := ifi.Cond.(*ssa.BinOp)
	if !ok {
		return nil
	}
	idx, bound := bo.X, bo.Y
	switch bo.Op {
	case token.LSS:
	case token.GTR:
		idx, bound = bound, idx
	default:
		return nil
	}
	bc, ok := bound.(*ssa.Const)
	if !ok || bc.Value == nil || bc.Value.Kind() != constant.Int {
		return nil
	}
	n, _ := constant.Int64Val(bc.Value)
	if start, step, isInd := load.Induction(idx); !isInd || start != 0 || step != 1 || n <= 0 {
		return nil
	}
	body := pb.Succs[0]
	inLoop := func(x *ssa.BasicBlock) bool { return x == body || body.Dominates(x) }
	var latches []*ssa.BasicBlock
	for _, pr := range pb.Preds {
		if inLoop(pr) {
			latches = append(latches, pr)
		}
	}
	if len(latches) == 0 {
		return nil
	}
	everyIteration := func(x *ssa.BasicBlock) bool {
		for _, l := range latches {
			if x != l && !x.Dominates(l) {
				return false
			}
		}
		return true
	}
	elemOf := func(addr ssa.Value) (Loc, bool) {
		ia, ok := addr.(*ssa.IndexAddr)
		if !ok || ia.Index != idx {
			return Loc{}, false
		}
		var arr *types.Array
		switch t := ia.X.Type().Underlying().(type) {
		case *types.Pointer:
			arr, _ = t.Elem().Underlying().(*types.Array)
		}
		if arr == nil || arr.Len() != n {
			return Loc{}, false
		}
		pvs := fi.operand(ia.X)
		if len(pvs) != 1 {
			return Loc{}, false
		}
		return pvs[0].Loc, true
	}
	var out []Loc
	for _, x := range fi.Fn.Blocks {
		if !inLoop(x) || !everyIteration(x) {
			continue
		}
		for _, in := range x.Instrs {
			switch w := in.(type) {
			case *ssa.Store:
				if l, ok := elemOf(w.Addr); ok {
					out = append(out, l)
				}
			case *ssa.Call:
				h := w.Common().StaticCallee()
				hi := fi.A.Info[h]
				if h == nil || hi == nil || hi.Sum == nil {
					continue
				}
				for k, a := range w.Common().Args {
					if l, ok := elemOf(a); ok && hi.Sum.MustWrite.Has(Loc{Root: Root{Kind: KParam, Index: k}}) {
						out = append(out, l)
					}
				}
			}
		}
	}
	return out
}

// knownByBranch: the error value ev is compared with nil by a branch one side of which dominates block b
// (and is entered only through that branch): 1 = non-nil there, 0 = nil there, 2 = unknown.
func knownByBranch(ev ssa.Value, b *ssa.BasicBlock) int {
	refs := ev.Referrers()
	if refs == nil {
		return 2
	}
	for _, ref := range *refs {
		bo, ok := ref.(*ssa.BinOp)
		if !ok || (bo.Op != token.EQL && bo.Op != token.NEQ) {
			continue
		}
		other := bo.Y
		if bo.Y == ev {
			other = bo.X
		}
		if c, isC := other.(*ssa.Const); !isC || c.Value != nil {
			continue
		}
		for _, r2 := range *bo.Referrers() {
			ifi, ok := r2.(*ssa.If)
			if !ok {
				continue
			}
			blk := ifi.Block()
			for side, succ := range blk.Succs {
				if len(succ.Preds) != 1 || !(succ == b || succ.Dominates(b)) {
					continue
				}
				nonNil := (bo.Op == token.NEQ) == (side == 0)
				if nonNil {
					return 1
				}
				return 0
			}
		}
	}
	return 2
}

// containsArray: the type is, or has a (nested) field that is, an array.
func containsArray(t types.Type) bool {
	if t == nil {
		return false
	}
	switch u := t.Underlying().(type) {
	case *types.Array:
		return true
	case *types.Struct:
		for i := 0; i < u.NumFields(); i++ {
			if _, isArr := u.Field(i).Type().Underlying().(*types.Array); isArr {
				if ft := u.Field(i).Type().Underlying().(*types.Array); ft.Len() > 0 {
					return true
				}
			}
		}
	}
	return false
}
