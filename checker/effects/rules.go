package effects

import (
	"fmt"
	"go/types"
	"sort"
	"strings"

	"golang.org/x/tools/go/ssa"

	"verif/checker/load"
	"verif/checker/report"
)

func (a *Analysis) cfg() string { return a.P.Config.Name }

func (a *Analysis) pos(in ssa.Instruction) string {
	if in == nil {
		return "-"
	}
	return a.P.Rel(in.Pos())
}

func (a *Analysis) fnPos(f *ssa.Function) string { return a.P.Rel(f.Pos()) }

// ---- R-INIT ----------------------------------------------------------------

// RInitReceivers: for every API-root method that may write its receiver, the
// incoming value of the receiver is never read.
func (a *Analysis) RInitReceivers(only func(*ssa.Function) bool) []report.Obligation {
	var out []report.Obligation
	for _, f := range a.P.APIRoots() {
		if f.Signature.Recv() == nil || (only != nil && !only(f)) {
			continue
		}
		fi := a.Info[f]
		recv := Root{Kind: KParam, Index: 0}
		if !fi.Sum.MayWrite.HasRoot(recv) {
			continue
		}
		o := report.Obligation{Rule: "R-INIT", Key: "R-INIT/" + load.ShortName(f) + "/recv", Config: a.cfg(), Pos: a.fnPos(f), OK: true}
		var bad []string
		var first *Event
		var locs []Loc
		for l := range fi.Sum.ReadsInitial {
			if l.Root == recv {
				locs = append(locs, l)
			}
		}
		sortLocs(locs)
		for _, l := range locs {
			ev := fi.InitReadAt[l]
			if first == nil || (ev.Instr != nil && first.Instr != nil && ev.Instr.Pos() < first.Instr.Pos()) {
				e := ev
				first = &e
			}
			bad = append(bad, fi.LocName(l))
		}
		if len(bad) > 0 {
			o.OK = false
			o.Pos = a.pos(first.Instr)
			if len(bad) > 6 {
				bad = append(bad[:6], fmt.Sprintf("… %d more", len(bad)-6))
			}
			o.Detail = fmt.Sprintf("the receiver's incoming value is read before it is written: %s (first: %s)", strings.Join(bad, ", "), fi.EventString(*first))
		} else {
			o.Detail = "every read of the receiver is preceded on all paths by a write of the location read"
		}
		out = append(out, o)
	}
	return out
}

// RDefined: an exported method that returns its receiver has written the whole
// receiver on every path to each site that returns it (so the result cannot be
// the receiver's previous content).
func (a *Analysis) RDefined() []report.Obligation {
	var out []report.Obligation
	recv := Root{Kind: KParam, Index: 0}
	for _, f := range a.P.APIRoots() {
		if f.Signature.Recv() == nil {
			continue
		}
		fi := a.Info[f]
		returnsRecv := false
		for _, rs := range fi.Sum.Returns {
			if len(rs.Results) > 0 {
				for _, pv := range rs.Results[0] {
					if pv.Loc.Root == recv && pv.Loc.Path == "" {
						returnsRecv = true
					}
				}
			}
		}
		if !returnsRecv {
			continue
		}
		o := report.Obligation{Rule: "R-DEF", Key: "R-DEF/" + load.ShortName(f) + "/recv", Config: a.cfg(), Pos: a.fnPos(f), OK: true,
			Detail: "every site that returns the receiver is reached only after the whole receiver has been written"}
		for _, s := range a.flatSitesDef(f, 0) {
			if s.returnsRecv && !s.defined {
				o.OK = false
				o.Pos = a.pos(s.instr)
				o.Detail = "the receiver is returned at " + s.desc + " although some path to it leaves (part of) the receiver unwritten: the result is the receiver's previous content"
			}
		}
		out = append(out, o)
	}
	return out
}

type defSite struct {
	returnsRecv bool
	defined     bool
	desc        string
	instr       ssa.Instruction
}

func (a *Analysis) flatSitesDef(f *ssa.Function, depth int) []defSite {
	fi := a.Info[f]
	recv := Root{Kind: KParam, Index: 0}
	var out []defSite
	for _, rs := range fi.Sum.Returns {
		if rs.Forwarded != nil && depth < 8 && len(rs.Instr.Results) > 0 {
			ex, _ := rs.Instr.Results[0].(*ssa.Extract)
			call, _ := ex.Tuple.(*ssa.Call)
			sameRecv := false
			if call != nil {
				for _, pv := range fi.operand(call.Common().Args[0]) {
					if pv.Loc.Root == recv && pv.Loc.Path == "" {
						sameRecv = true
					}
				}
			}
			for _, cs := range a.flatSitesDef(rs.Forwarded, depth+1) {
				out = append(out, defSite{returnsRecv: cs.returnsRecv && sameRecv, defined: cs.defined || rs.RecvDefined, desc: a.pos(rs.Instr) + " → " + cs.desc, instr: rs.Instr})
			}
			continue
		}
		ds := defSite{defined: rs.RecvDefined, desc: a.pos(rs.Instr), instr: rs.Instr}
		if len(rs.Results) > 0 {
			for _, pv := range rs.Results[0] {
				if pv.Loc.Root == recv && pv.Loc.Path == "" {
					ds.returnsRecv = true
				}
			}
		}
		out = append(out, ds)
	}
	return out
}

// RInitLocals: every local object of a type whose zero value is not a valid
// value is written before it is read (zero-constant stores are not writes).
func (a *Analysis) RInitLocals(only func(*ssa.Function) bool) []report.Obligation {
	var out []report.Obligation
	for _, f := range a.P.Funcs {
		if only != nil && !only(f) {
			continue
		}
		fi := a.Info[f]
		bad := map[Root][]InitViolation{}
		for _, v := range fi.LocalInit {
			bad[v.Root] = append(bad[v.Root], v)
		}
		for _, b := range f.Blocks {
			for _, in := range b.Instrs {
				al, ok := in.(*ssa.Alloc)
				if !ok || !NonZeroValid(al.Type().(*types.Pointer).Elem()) {
					continue
				}
				r := Root{Kind: KFresh, Site: al}
				o := report.Obligation{Rule: "R-INIT", Key: "R-INIT/" + load.ShortName(f) + "/" + fi.RootName(r), Config: a.cfg(), Pos: a.pos(al), OK: true,
					Detail: "local " + types.TypeString(al.Type().(*types.Pointer).Elem(), nil) + " is defined on every path before each read"}
				if vs := bad[r]; len(vs) > 0 {
					v := vs[0]
					o.OK = false
					o.Pos = a.pos(v.Instr)
					via := ""
					if v.Via != nil {
						via = " by " + load.ShortName(v.Via)
					}
					o.Detail = fmt.Sprintf("%s is read%s before it has been written on some path (a zero-value store is not a definition: all-zero coordinates are the degenerate value)", fi.LocName(v.Loc), via)
				}
				out = append(out, o)
			}
		}
	}
	return out
}

// ---- R-ALIAS ---------------------------------------------------------------

type rootInfo struct {
	r     Root
	name  string
	shape types.Type // pointee type; for slices the slice type
	slice bool
}

func (fi *FuncInfo) aliasRoots() []rootInfo {
	var out []rootInfo
	for i, p := range fi.Fn.Params {
		switch u := p.Type().Underlying().(type) {
		case *types.Pointer:
			out = append(out, rootInfo{r: Root{Kind: KParam, Index: i}, name: p.Name(), shape: u.Elem()})
		case *types.Slice:
			out = append(out, rootInfo{r: Root{Kind: KParam, Index: i}, name: p.Name(), shape: u, slice: true})
			if pe, ok := u.Elem().Underlying().(*types.Pointer); ok {
				out = append(out, rootInfo{r: Root{Kind: KElem, Index: i}, name: p.Name() + "[i]", shape: pe.Elem()})
			}
		}
	}
	return out
}

func arrayElem(t types.Type) (types.Type, bool) {
	switch u := t.Underlying().(type) {
	case *types.Slice:
		return u.Elem(), true
	case *types.Array:
		return u.Elem(), true
	}
	return nil, false
}

func mayAliasShapes(a, b rootInfo) bool {
	if a.slice || b.slice {
		ea, oka := arrayElem(a.shape)
		eb, okb := arrayElem(b.shape)
		return oka && okb && types.Identical(ea.Underlying(), eb.Underlying())
	}
	return types.Identical(a.shape.Underlying(), b.shape.Underlying())
}

func blurFirstIndex(p Path) Path {
	st := p.Steps()
	if len(st) > 0 && !st[0].Field {
		st[0].N = AnyIndex
	}
	return EncodePath(st)
}

// RAlias: for every function and every pair of distinct roots that may alias
// exactly, no read through one root follows an overlapping write through the
// other, and they are not both written at overlapping paths.
func (a *Analysis) RAlias() []report.Obligation {
	var out []report.Obligation
	for _, f := range a.P.Funcs {
		fi := a.Info[f]
		roots := fi.aliasRoots()
		for i := 0; i < len(roots); i++ {
			for j := i; j < len(roots); j++ {
				ra, rb := roots[i], roots[j]
				if i == j && ra.r.Kind != KElem {
					continue
				}
				if !mayAliasShapes(ra, rb) {
					continue
				}
				o := report.Obligation{Rule: "R-ALIAS", Key: fmt.Sprintf("R-ALIAS/%s/(%s,%s)", load.ShortName(f), ra.name, rb.name), Config: a.cfg(), Pos: a.fnPos(f), OK: true,
					Detail: "no read through one follows an overlapping write through the other"}
				blur := ra.slice || rb.slice
				var hazards []string
				var pairs []Pair
				for p := range fi.Sum.Pairs {
					pairs = append(pairs, p)
				}
				sort.Slice(pairs, func(x, y int) bool {
					if pairs[x].W.Path != pairs[y].W.Path {
						return pairs[x].W.Path < pairs[y].W.Path
					}
					return pairs[x].R.Path < pairs[y].R.Path
				})
				var firstPos string
				for _, p := range pairs {
					if !((p.W.Root == ra.r && p.R.Root == rb.r) || (p.W.Root == rb.r && p.R.Root == ra.r)) {
						continue
					}
					wp, rp := p.W.Path, p.R.Path
					if blur {
						wp, rp = blurFirstIndex(wp), blurFirstIndex(rp)
					}
					if !Overlap(wp, rp) {
						continue
					}
					evs := fi.PairAt[p]
					if len(hazards) < 3 {
						hazards = append(hazards, fmt.Sprintf("%s then %s", fi.EventString(evs[0]), fi.EventString(evs[1])))
					}
					if firstPos == "" && evs[1].Instr != nil {
						firstPos = a.pos(evs[1].Instr)
					}
				}
				if i != j {
					var ws [2][]Loc
					for l := range fi.Sum.MayWrite {
						if l.Root == ra.r {
							ws[0] = append(ws[0], l)
						} else if l.Root == rb.r {
							ws[1] = append(ws[1], l)
						}
					}
					found := false
					for _, x := range ws[0] {
						for _, y := range ws[1] {
							if !found && Overlap(x.Path, y.Path) {
								hazards = append(hazards, fmt.Sprintf("both %s and %s are written", fi.LocName(x), fi.LocName(y)))
								found = true
							}
						}
					}
				}
				if len(hazards) > 0 {
					o.OK = false
					if firstPos != "" {
						o.Pos = firstPos
					}
					o.Detail = "if " + ra.name + " and " + rb.name + " alias the result changes: " + strings.Join(hazards, "; ")
				}
				out = append(out, o)
			}
		}
	}
	return out
}

// ---- R-RO ------------------------------------------------------------------

func (a *Analysis) RReadOnly() []report.Obligation {
	var out []report.Obligation
	for _, f := range a.P.APIRoots() {
		fi := a.Info[f]
		start := 0
		if f.Signature.Recv() != nil {
			start = 1
			// a method that never returns its receiver uses it as an input only
			// (Bytes, Equal, IsNegative, ExtendedCoordinates…): it must not write it
			recv := Root{Kind: KParam, Index: 0}
			returnsRecv := false
			for _, rs := range fi.Sum.Returns {
				if len(rs.Results) > 0 {
					for _, pv := range rs.Results[0] {
						if pv.Loc.Root == recv {
							returnsRecv = true
						}
					}
				}
			}
			if !returnsRecv && isPtrLike(f.Params[0].Type()) {
				o := report.Obligation{Rule: "R-RO", Key: "R-RO/" + load.ShortName(f) + "/recv", Config: a.cfg(), Pos: a.fnPos(f), OK: true,
					Detail: "the receiver is an input only (it is never the result) and is never written"}
				var ws []string
				for l := range fi.Sum.MayWrite {
					if l.Root == recv {
						ws = append(ws, fi.LocName(l))
					}
				}
				sort.Strings(ws)
				if len(ws) > 0 {
					o.OK = false
					if len(ws) > 5 {
						ws = append(ws[:5], "…")
					}
					o.Detail = "the method does not return its receiver, so the receiver is a (possibly shared) input — but it is written: " + strings.Join(ws, ", ")
				}
				out = append(out, o)
			}
		}
		for i := start; i < len(f.Params); i++ {
			p := f.Params[i]
			if !isPtrLike(p.Type()) {
				continue
			}
			o := report.Obligation{Rule: "R-RO", Key: "R-RO/" + load.ShortName(f) + "/" + p.Name(), Config: a.cfg(), Pos: a.fnPos(f), OK: true,
				Detail: "never written (transitively, including slice elements and their pointees)"}
			var ws []string
			for l := range fi.Sum.MayWrite {
				if (l.Root.Kind == KParam || l.Root.Kind == KElem) && l.Root.Index == i {
					ws = append(ws, fi.LocName(l))
				}
			}
			sort.Strings(ws)
			if len(ws) > 0 {
				o.OK = false
				if len(ws) > 5 {
					ws = append(ws[:5], "…")
				}
				o.Detail = "input argument is written: " + strings.Join(ws, ", ")
				// position of the first write event
				for _, b := range f.Blocks {
					for _, in := range b.Instrs {
						for _, ev := range fi.Events[in] {
							if ev.Op == OpWrite && (ev.Loc.Root.Kind == KParam || ev.Loc.Root.Kind == KElem) && ev.Loc.Root.Index == i && o.Pos == a.fnPos(f) {
								o.Pos = a.pos(in)
							}
						}
					}
				}
			}
			out = append(out, o)
		}
	}
	return out
}

// ---- R-FRESH ---------------------------------------------------------------

func (a *Analysis) RFresh() []report.Obligation {
	var out []report.Obligation
	for _, f := range a.P.APIRoots() {
		fi := a.Info[f]
		res := f.Signature.Results()
		for k := 0; k < res.Len(); k++ {
			if !isPtrLike(res.At(k).Type()) {
				continue
			}
			o := report.Obligation{Rule: "R-FRESH", Key: fmt.Sprintf("R-FRESH/%s/result%d", load.ShortName(f), k), Config: a.cfg(), Pos: a.fnPos(f), OK: true}
			var prov, bad []string
			seen := map[string]bool{}
			for _, rs := range fi.Sum.Returns {
				if k >= len(rs.Results) {
					continue
				}
				if len(rs.Results[k]) == 0 {
					bad = append(bad, "result of unknown provenance at "+a.pos(rs.Instr))
				}
				for _, pv := range rs.Results[k] {
					n := fi.LocName(pv.Loc)
					ok := false
					switch pv.Loc.Root.Kind {
					case KFresh, KNil:
						ok = true
					case KParam:
						ok = pv.Loc.Root.Index == 0 && f.Signature.Recv() != nil && pv.Loc.Path == ""
					}
					if !seen[n] {
						seen[n] = true
						prov = append(prov, n)
					}
					if !ok {
						bad = append(bad, n+" returned at "+a.pos(rs.Instr))
						o.Pos = a.pos(rs.Instr)
					}
				}
			}
			sort.Strings(prov)
			o.Detail = "provenance {" + strings.Join(prov, ", ") + "}"
			if len(bad) > 0 {
				o.OK = false
				o.Detail = "result is neither fresh, the receiver, nor nil: " + strings.Join(bad, "; ")
			}
			out = append(out, o)
		}
	}
	return out
}

// ---- R-GLOBAL --------------------------------------------------------------

func isOnceType(t types.Type) bool {
	n, ok := t.(*types.Named)
	return ok && n.Obj().Pkg() != nil && n.Obj().Pkg().Path() == "sync" && n.Obj().Name() == "Once"
}

type onceInfo struct {
	g        *ssa.Global
	lits     map[*ssa.Function]bool
	doCalls  map[*ssa.Function][]*ssa.Call // function -> its Do calls on this Once
	oncePath Path
}

func (a *Analysis) onces() map[*ssa.Global]*onceInfo {
	out := map[*ssa.Global]*onceInfo{}
	for _, f := range a.P.Funcs {
		fi := a.Info[f]
		for _, b := range f.Blocks {
			for _, in := range b.Instrs {
				c, ok := in.(*ssa.Call)
				if !ok {
					continue
				}
				callee, lit := load.StaticCallee(c)
				if callee == nil || callee.String() != "(*sync.Once).Do" {
					continue
				}
				pvs := fi.operand(c.Common().Args[0])
				if len(pvs) != 1 || pvs[0].Loc.Root.Kind != KGlobal || lit == nil {
					a.problem(f, in, "sync.Once.Do on something other than a field of one package-level variable with a function literal")
					continue
				}
				g := pvs[0].Loc.Root.Global
				oi := out[g]
				if oi == nil {
					oi = &onceInfo{g: g, lits: map[*ssa.Function]bool{}, doCalls: map[*ssa.Function][]*ssa.Call{}, oncePath: pvs[0].Loc.Path}
					out[g] = oi
				}
				oi.lits[lit] = true
				oi.doCalls[f] = append(oi.doCalls[f], c)
			}
		}
	}
	return out
}

func dominatesInstr(x, y ssa.Instruction) bool {
	bx, by := x.Block(), y.Block()
	if bx == by {
		for _, in := range bx.Instrs {
			if in == x {
				return true
			}
			if in == y {
				return false
			}
		}
		return false
	}
	return bx.Dominates(by)
}

// RGlobal: package state is write-once.
func (a *Analysis) RGlobal() []report.Obligation {
	var out []report.Obligation
	onces := a.onces()
	litOf := map[*ssa.Function]*onceInfo{}
	for _, oi := range onces {
		for l := range oi.lits {
			litOf[l] = oi
		}
	}
	// guarding accessors: every return dominated by a Do call on the Once
	accessor := map[*ssa.Function]*onceInfo{}
	for _, oi := range onces {
		for f, calls := range oi.doCalls {
			all := true
			for _, rs := range a.Info[f].Sum.Returns {
				d := false
				for _, c := range calls {
					if dominatesInstr(c, rs.Instr) {
						d = true
					}
				}
				if !d {
					all = false
				}
			}
			if all {
				accessor[f] = oi
			}
		}
	}
	// (1) writers
	for _, f := range a.P.Funcs {
		fi := a.Info[f]
		isInit := f.Name() == "init" && f.Synthetic != ""
		o := report.Obligation{Rule: "R-GLOBAL", Key: "R-GLOBAL/" + load.ShortName(f) + "/writes", Config: a.cfg(), Pos: a.fnPos(f), OK: true,
			Detail: "writes no package-level state"}
		if isInit {
			o.Detail = "package initialiser (single-threaded, before any API call)"
			out = append(out, o)
			continue
		}
		var bad []string
		n := 0
		for _, b := range f.Blocks {
			for _, in := range b.Instrs {
				for _, ev := range fi.Events[in] {
					if ev.Op != OpWrite || ev.Inherited || !(ev.Loc.Root.Kind == KGlobal || ev.Loc.Root.Kind == KGPointee) {
						continue
					}
					n++
					if oi := litOf[f]; oi != nil && ev.Loc.Root.Kind == KGlobal && ev.Loc.Root.Global == oi.g {
						continue
					}
					if len(bad) < 3 {
						bad = append(bad, fi.EventString(ev))
					}
					if o.OK {
						o.Pos = a.pos(in)
					}
					o.OK = false
				}
			}
		}
		if litOf[f] != nil && o.OK {
			o.Detail = fmt.Sprintf("sync.Once literal: its %d write events all target %s, the variable holding its Once", n, litOf[f].g.Name())
		}
		if !o.OK {
			o.Detail = "writes package-level state outside the package initialiser / its own sync.Once literal: " + strings.Join(bad, "; ")
		}
		out = append(out, o)
	}
	// (2) every access of Once-protected state is after the Do
	for g, oi := range onces {
		for _, f := range a.P.Funcs {
			if oi.lits[f] {
				continue
			}
			fi := a.Info[f]
			var guards []ssa.Instruction
			for _, c := range oi.doCalls[f] {
				guards = append(guards, c)
			}
			for _, b := range f.Blocks {
				for _, in := range b.Instrs {
					if c, ok := in.(*ssa.Call); ok {
						if cal := c.Common().StaticCallee(); cal != nil && accessor[cal] == oi {
							guards = append(guards, c)
						}
					}
				}
			}
			nAcc := 0
			var bad []string
			var badPos string
			for _, b := range f.Blocks {
				for _, in := range b.Instrs {
					for _, ev := range fi.Events[in] {
						if ev.Inherited || ev.Loc.Root.Kind != KGlobal || ev.Loc.Root.Global != g {
							continue
						}
						if ev.Op != OpRead && ev.Op != OpWrite {
							continue
						}
						if strings.HasPrefix(string(ev.Loc.Path), string(oi.oncePath)) {
							continue // the Once itself
						}
						nAcc++
						ok := false
						for _, gd := range guards {
							if gd != in && dominatesInstr(gd, in) {
								ok = true
							}
						}
						if !ok && len(bad) < 3 {
							bad = append(bad, fi.EventString(ev))
							if badPos == "" {
								badPos = a.pos(in)
							}
						}
					}
				}
			}
			if nAcc == 0 {
				continue
			}
			o := report.Obligation{Rule: "R-GLOBAL", Key: "R-GLOBAL/" + load.ShortName(f) + "/after-once:" + g.Name(), Config: a.cfg(), Pos: a.fnPos(f), OK: len(bad) == 0,
				Detail: fmt.Sprintf("%d accesses of %s, each dominated by its sync.Once.Do (or by a call of an accessor that always runs it)", nAcc, g.Name())}
			if len(bad) > 0 {
				o.Pos = badPos
				o.Detail = "access of lazily initialised state not dominated by its sync.Once.Do: " + strings.Join(bad, "; ")
			}
			out = append(out, o)
		}
	}
	// (3) each lazily built global has exactly one Once, one literal
	for g, oi := range onces {
		o := report.Obligation{Rule: "R-GLOBAL", Key: "R-GLOBAL/once:" + g.Name(), Config: a.cfg(), Pos: "-", OK: len(oi.lits) == 1,
			Detail: fmt.Sprintf("%d initialiser literal(s) under one sync.Once", len(oi.lits))}
		out = append(out, o)
	}
	// (4) package-level variables inventory
	for _, sp := range []*ssa.Package{a.P.Field, a.P.Root} {
		var names []string
		for n, m := range sp.Members {
			if _, ok := m.(*ssa.Global); ok && !strings.HasPrefix(n, "init$") {
				names = append(names, n)
			}
		}
		sort.Strings(names)
		for _, n := range names {
			g := sp.Members[n].(*ssa.Global)
			hasOnce := false
			if st, ok := g.Type().(*types.Pointer).Elem().Underlying().(*types.Struct); ok {
				for i := 0; i < st.NumFields(); i++ {
					if isOnceType(st.Field(i).Type()) {
						hasOnce = true
					}
				}
			}
			_, used := onces[g]
			o := report.Obligation{Rule: "R-GLOBAL", Key: "R-GLOBAL/var:" + load.ShortName0(sp) + n, Config: a.cfg(), Pos: a.P.Rel(g.Pos()), OK: true}
			if hasOnce {
				o.Detail = "lazily built under its own sync.Once"
				if !used {
					o.OK = false
					o.Detail = "has a sync.Once field that no Do call uses"
				}
			} else {
				o.Detail = "written only by the package initialiser (see …/writes obligations)"
			}
			out = append(out, o)
		}
	}
	return out
}

// ---- R-ATOMIC ----------------------------------------------------------------

type flatSite struct {
	err     int
	res0    []PVal
	recvW   bool
	desc    string
	instr   ssa.Instruction
	unknown string
}

// FallibleSetters: methods with receiver *T and results (*T, error).
func (a *Analysis) FallibleSetters() []*ssa.Function {
	var out []*ssa.Function
	for _, f := range a.P.Funcs {
		recv := f.Signature.Recv()
		res := f.Signature.Results()
		if recv == nil || res.Len() != 2 || !isErrorType(res.At(1).Type()) || f.Parent() != nil {
			continue
		}
		if _, ok := recv.Type().(*types.Pointer); !ok || !types.Identical(recv.Type(), res.At(0).Type()) {
			continue
		}
		out = append(out, f)
	}
	return out
}

func (a *Analysis) flatSites(f *ssa.Function, depth int) []flatSite {
	fi := a.Info[f]
	var out []flatSite
	recv := Root{Kind: KParam, Index: 0}
	for _, rs := range fi.Sum.Returns {
		if rs.Forwarded != nil && depth < 8 {
			ex := rs.Instr.Results[0].(*ssa.Extract)
			call := ex.Tuple.(*ssa.Call)
			before := fi.MayRootsBefore[call][recv]
			for _, cs := range a.flatSites(rs.Forwarded, depth+1) {
				fs := flatSite{err: cs.err, instr: rs.Instr, unknown: cs.unknown, desc: a.pos(rs.Instr) + " → " + load.ShortName(rs.Forwarded) + " " + cs.desc}
				for _, pv := range cs.res0 {
					fs.res0 = append(fs.res0, fi.translatePV(call, 0, pv)...)
				}
				fs.recvW = before
				if cs.recvW {
					// the callee's receiver: which caller root is it?
					for _, pv := range fi.operand(call.Common().Args[0]) {
						if pv.Loc.Root == recv {
							fs.recvW = true
						}
					}
				}
				// other callee writes to caller's receiver through non-receiver params cannot happen for R-RO-clean callees; checked by R-RO
				out = append(out, fs)
			}
			continue
		}
		fs := flatSite{err: rs.Err, instr: rs.Instr, desc: a.pos(rs.Instr)}
		if len(rs.Results) > 0 {
			fs.res0 = rs.Results[0]
		}
		fs.recvW = rs.WrittenRoots[recv]
		if rs.Err == 2 {
			fs.unknown = "error operand is neither the nil constant, errors.New(...), nor a forwarded call tuple"
		}
		out = append(out, fs)
	}
	return out
}

func (a *Analysis) RAtomic() []report.Obligation {
	var out []report.Obligation
	for _, f := range a.FallibleSetters() {
		fi := a.Info[f]
		sites := a.flatSites(f, 0)
		nErr, nOK := 0, 0
		for i, s := range sites {
			kind := "success"
			if s.err == 1 {
				kind = "error"
				nErr++
			} else if s.err == 0 {
				nOK++
			}
			o := report.Obligation{Rule: "R-ATOMIC", Key: fmt.Sprintf("R-ATOMIC/%s/%s-site#%d", load.ShortName(f), kind, i), Config: a.cfg(), Pos: a.pos(s.instr), OK: true}
			var names []string
			for _, pv := range s.res0 {
				names = append(names, fi.LocName(pv.Loc))
			}
			switch {
			case s.unknown != "":
				o.OK = false
				o.Detail = "UNDECIDED return site " + s.desc + ": " + s.unknown
			case s.err == 1:
				o.Detail = "error site " + s.desc + ": returns nil, receiver not written on any path to it"
				for _, pv := range s.res0 {
					if pv.Loc.Root.Kind != KNil {
						o.OK = false
						o.Detail = "error site " + s.desc + " returns a non-nil value: " + strings.Join(names, ",")
					}
				}
				if len(s.res0) == 0 {
					o.OK = false
					o.Detail = "error site " + s.desc + ": result of unknown provenance"
				}
				if s.recvW {
					o.OK = false
					o.Detail = "the receiver may already have been written on a path to error site " + s.desc
				}
			case s.err == 0:
				o.Detail = "success site " + s.desc + ": returns exactly the receiver"
				if len(s.res0) != 1 || s.res0[0].Loc.Root != (Root{Kind: KParam, Index: 0}) || s.res0[0].Loc.Path != "" {
					o.OK = false
					o.Detail = "success site " + s.desc + " returns {" + strings.Join(names, ",") + "}, not exactly the receiver"
				}
			}
			out = append(out, o)
		}
		o := report.Obligation{Rule: "R-ATOMIC", Key: "R-ATOMIC/" + load.ShortName(f) + "/shape", Config: a.cfg(), Pos: a.fnPos(f), OK: nErr >= 1 && nOK >= 1,
			Detail: fmt.Sprintf("%d error site(s), %d success site(s)", nErr, nOK)}
		out = append(out, o)
	}
	return out
}

// ---- instruction inventory for evidence --------------------------------------

func (a *Analysis) Stats() map[string]int {
	st := map[string]int{"functions": len(a.P.Funcs), "ssa_instructions": a.P.NInstr, "api_roots": len(a.P.APIRoots())}
	for _, f := range a.P.Funcs {
		fi := a.Info[f]
		for _, evs := range fi.Events {
			st["effect_events"] += len(evs)
		}
		st["write_then_read_pairs"] += len(fi.Sum.Pairs)
		st["untracked_variable_index_reads"] += fi.Untracked
	}
	for _, s := range a.P.Asm {
		st["asm_instructions"] += len(s.Func.Insts)
		st["asm_memory_events"] += len(s.Events)
	}
	return st
}
