package effects

import (
	"fmt"
	"go/ast"
	"go/types"
	"sort"
	"strings"

	"golang.org/x/tools/go/ssa"

	"verif/checker/load"
	"verif/checker/report"
)

func (a *Analysis) cfg() string { return a.P.Config.Name }

func (a *Analysis) pos(in ssa.Instruction) string {
	if in == nil {
		return "-"
	}
	return a.P.Rel(in.Pos())
}

func (a *Analysis) fnPos(f *ssa.Function) string { return a.P.Rel(f.Pos()) }

// ---- R-INIT ----------------------------------------------------------------

// RInitReceivers: for every API-root method that may write its receiver, the
// incoming value of the receiver is never read.
func (a *Analysis) RInitReceivers(only func(*ssa.Function) bool) []report.Obligation {
	var out []report.Obligation
	for _, f := range a.P.APIRoots() {
		if f.Signature.Recv() == nil || (only != nil && !only(f)) {
			continue
		}
		fi := a.Info[f]
		recv := Root{Kind: KParam, Index: 0}
		if !fi.Sum.MayWrite.HasRoot(recv) {
			continue
		}
		o := report.Obligation{Rule: "R-INIT", Key: "R-INIT/" + load.ShortName(f) + "/recv", Config: a.cfg(), Pos: a.fnPos(f), OK: true}
		var bad []string
		var first *Event
		var locs []Loc
		for l := range fi.Sum.ReadsInitial {
			if l.Root == recv {
				locs = append(locs, l)
			}
		}
		sortLocs(locs)
		for _, l := range locs {
			ev := fi.InitReadAt[l]
			if first == nil || (ev.Instr != nil && first.Instr != nil && ev.Instr.Pos() < first.Instr.Pos()) {
				e := ev
				first = &e
			}
			bad = append(bad, fi.LocName(l))
		}
		if len(bad) > 0 {
			o.OK = false
			o.Pos = a.pos(first.Instr)
			if len(bad) > 6 {
				bad = append(bad[:6], fmt.Sprintf("… %d more", len(bad)-6))
			}
			o.Detail = fmt.Sprintf("the receiver's incoming value is read before it is written: %s (first: %s)", strings.Join(bad, ", "), fi.EventString(*first))
		} else {
			o.Detail = "every read of the receiver is preceded on all paths by a write of the location read"
		}
		out = append(out, o)
	}
	return out
}

// RDefined: an exported method that returns its receiver has written the whole
// receiver on every path to each site that returns it (so the result cannot be
// the receiver's previous content).
func (a *Analysis) RDefined() []report.Obligation {
	var out []report.Obligation
	recv := Root{Kind: KParam, Index: 0}
	for _, f := range a.P.APIRoots() {
		if f.Signature.Recv() == nil {
			continue
		}
		fi := a.Info[f]
		returnsRecv := false
		for _, rs := range fi.Sum.Returns {
			if len(rs.Results) > 0 {
				for _, pv := range rs.Results[0] {
					if pv.Loc.Root == recv && pv.Loc.Path == "" {
						returnsRecv = true
					}
				}
			}
		}
		if !returnsRecv {
			continue
		}
		o := report.Obligation{Rule: "R-DEF", Key: "R-DEF/" + load.ShortName(f) + "/recv", Config: a.cfg(), Pos: a.fnPos(f), OK: true,
			Detail: "every site that returns the receiver is reached only after the whole receiver has been written"}
		for _, s := range a.flatSitesDef(f, 0) {
			if s.returnsRecv && !s.defined {
				o.OK = false
				o.Pos = a.pos(s.instr)
				o.Detail = "the receiver is returned at " + s.desc + " although some path to it leaves (part of) the receiver unwritten: the result is the receiver's previous content"
			}
		}
		out = append(out, o)
	}
	return out
}

type defSite struct {
	returnsRecv bool
	defined     bool
	desc        string
	instr       ssa.Instruction
}

func (a *Analysis) flatSitesDef(f *ssa.Function, depth int) []defSite {
	fi := a.Info[f]
	recv := Root{Kind: KParam, Index: 0}
	var out []defSite
	for _, rs := range fi.Sum.Returns {
		if rs.Forwarded != nil && depth < 8 && len(rs.Instr.Results) > 0 {
			ex, _ := rs.Instr.Results[0].(*ssa.Extract)
			call, _ := ex.Tuple.(*ssa.Call)
			sameRecv := false
			if call != nil {
				for _, pv := range fi.operand(call.Common().Args[0]) {
					if pv.Loc.Root == recv && pv.Loc.Path == "" {
						sameRecv = true
					}
				}
			}
			for _, cs := range a.flatSitesDef(rs.Forwarded, depth+1) {
				out = append(out, defSite{returnsRecv: cs.returnsRecv && sameRecv, defined: cs.defined || rs.RecvDefined, desc: a.pos(rs.Instr) + " → " + cs.desc, instr: rs.Instr})
			}
			continue
		}
		ds := defSite{defined: rs.RecvDefined, desc: a.pos(rs.Instr), instr: rs.Instr}
		if len(rs.Results) > 0 {
			for _, pv := range rs.Results[0] {
				if pv.Loc.Root == recv && pv.Loc.Path == "" {
					ds.returnsRecv = true
				}
			}
		}
		out = append(out, ds)
	}
	return out
}

// RInitLocals: every local object of a type whose zero value is not a valid
// value is written before it is read (zero-constant stores are not writes).
func (a *Analysis) RInitLocals(only func(*ssa.Function) bool) []report.Obligation {
	var out []report.Obligation
	for _, f := range a.P.Funcs {
		if only != nil && !only(f) {
			continue
		}
		fi := a.Info[f]
		bad := map[Root][]InitViolation{}
		for _, v := range fi.LocalInit {
			bad[v.Root] = append(bad[v.Root], v)
		}
		for _, b := range f.Blocks {
			for _, in := range b.Instrs {
				al, ok := in.(*ssa.Alloc)
				if !ok || !NonZeroValid(al.Type().(*types.Pointer).Elem()) {
					continue
				}
				r := Root{Kind: KFresh, Site: al}
				o := report.Obligation{Rule: "R-INIT", Key: "R-INIT/" + load.ShortName(f) + "/" + fi.RootName(r), Config: a.cfg(), Pos: a.pos(al), OK: true,
					Detail: "local " + types.TypeString(al.Type().(*types.Pointer).Elem(), nil) + " is defined on every path before each read"}
				if vs := bad[r]; len(vs) > 0 {
					v := vs[0]
					o.OK = false
					o.Pos = a.pos(v.Instr)
					via := ""
					if v.Via != nil {
						via = " by " + load.ShortName(v.Via)
					}
					o.Detail = fmt.Sprintf("%s is read%s before it has been written on some path (a zero-value store is not a definition: all-zero coordinates are the degenerate value)", fi.LocName(v.Loc), via)
				}
				out = append(out, o)
			}
		}
	}
	return out
}

// ---- R-ALIAS ---------------------------------------------------------------

type rootInfo struct {
	r     Root
	name  string
	shape types.Type // pointee type; for slices the slice type
	slice bool
}

func (fi *FuncInfo) aliasRoots() []rootInfo {
	var out []rootInfo
	for i, p := range fi.Fn.Params {
		switch u := p.Type().Underlying().(type) {
		case *types.Pointer:
			out = append(out, rootInfo{r: Root{Kind: KParam, Index: i}, name: p.Name(), shape: u.Elem()})
		case *types.Slice:
			out = append(out, rootInfo{r: Root{Kind: KParam, Index: i}, name: p.Name(), shape: u, slice: true})
			if pe, ok := u.Elem().Underlying().(*types.Pointer); ok {
				out = append(out, rootInfo{r: Root{Kind: KElem, Index: i}, name: p.Name() + "[i]", shape: pe.Elem()})
			}
		}
	}
	return out
}

func arrayElem(t types.Type) (types.Type, bool) {
	switch u := t.Underlying().(type) {
	case *types.Slice:
		return u.Elem(), true
	case *types.Array:
		return u.Elem(), true
	}
	return nil, false
}

func mayAliasShapes(a, b rootInfo) bool {
	if a.slice || b.slice {
		ea, oka := arrayElem(a.shape)
		eb, okb := arrayElem(b.shape)
		return oka && okb && types.Identical(ea.Underlying(), eb.Underlying())
	}
	return types.Identical(a.shape.Underlying(), b.shape.Underlying())
}

func blurFirstIndex(p Path) Path {
	st := p.Steps()
	if len(st) > 0 && !st[0].Field {
		st[0].N = AnyIndex
	}
	return EncodePath(st)
}

type rootPair [2]Root

func mkPair(a, b Root) rootPair {
	if rootLess(b, a) {
		a, b = b, a
	}
	return rootPair{a, b}
}

func rootLess(a, b Root) bool {
	if a.Kind != b.Kind {
		return a.Kind < b.Kind
	}
	return a.Index < b.Index
}

// aliasDemand computes, for every function, the pairs of its parameter roots
// that can designate the same object in some call. Exported functions of
// exported types are called by users, who may pass any same-typed pointers
// aliased (that is the property). An unexported function is called only from
// the call sites in the two packages: a pair of its roots is demanded iff at
// some call site the two actuals may designate overlapping storage — the same
// local/global location, or locations at overlapping paths below two roots of
// the caller that are themselves demanded. Distinct local objects, a local and
// a parameter, package state and a parameter never alias.
func (a *Analysis) aliasDemand() (map[*ssa.Function]map[rootPair]bool, map[*ssa.Function]int) {
	need := map[*ssa.Function]map[rootPair]bool{}
	sites := map[*ssa.Function]int{}
	var work []*ssa.Function
	demand := func(f *ssa.Function, p rootPair) {
		if need[f] == nil {
			need[f] = map[rootPair]bool{}
		}
		if !need[f][p] {
			need[f][p] = true
			work = append(work, f)
		}
	}
	for _, f := range a.P.Funcs {
		if !a.P.IsAPIRoot(f) || a.AliasByEvaluation[load.ShortName(f)] {
			continue
		}
		roots := a.Info[f].aliasRoots()
		for i := range roots {
			for j := i; j < len(roots); j++ {
				if i == j && roots[i].r.Kind != KElem {
					continue
				}
				if mayAliasShapes(roots[i], roots[j]) {
					demand(f, mkPair(roots[i].r, roots[j].r))
				}
			}
		}
	}
	counted := map[*ssa.Function]bool{}
	// every function's call sites are examined at least once (same-location actuals need no demand in the caller)
	work = append(work, a.P.Funcs...)
	for len(work) > 0 {
		f := work[len(work)-1]
		work = work[:len(work)-1]
		fi := a.Info[f]
		mayAlias := func(la, lb Loc) bool {
			if la.Root.Kind == KNil || lb.Root.Kind == KNil {
				return false
			}
			if la.Root == lb.Root {
				return Overlap(la.Path, lb.Path)
			}
			pa := la.Root.Kind == KParam || la.Root.Kind == KElem
			pb := lb.Root.Kind == KParam || lb.Root.Kind == KElem
			if pa && pb {
				return need[f][mkPair(la.Root, lb.Root)] && Overlap(la.Path, lb.Path)
			}
			return false
		}
		for _, b := range f.Blocks {
			for _, in := range b.Instrs {
				c, ok := in.(ssa.CallInstruction)
				if !ok {
					continue
				}
				callee, lit := load.StaticCallee(c)
				h, acts := callee, load.Actuals(c)
				if lit != nil {
					h, acts = lit, load.OnceActuals(c)
				}
				if h == nil || a.Info[h] == nil {
					continue
				}
				if !counted[f] {
					sites[h]++
				}
				hroots := a.Info[h].aliasRoots()
				locsOf := func(r rootInfo) []Loc {
					if r.r.Index >= len(acts) {
						return nil
					}
					var out []Loc
					if r.r.Kind == KElem {
						for _, pv := range fi.elemsOf(in, acts[r.r.Index]) {
							out = append(out, pv.Loc)
						}
						return out
					}
					for _, pv := range fi.operand(acts[r.r.Index]) {
						out = append(out, pv.Loc)
					}
					return out
				}
				for i := range hroots {
					for j := i; j < len(hroots); j++ {
						if i == j && hroots[i].r.Kind != KElem {
							continue
						}
						if !mayAliasShapes(hroots[i], hroots[j]) {
							continue
						}
						hit := false
						la, lb := locsOf(hroots[i]), locsOf(hroots[j])
						for _, x := range la {
							for _, y := range lb {
								if i == j && x == y && x.Root.Kind != KElem && x.Root.Kind != KFresh {
									continue // the same single element
								}
								if mayAlias(x, y) {
									hit = true
								}
							}
						}
						if hit {
							demand(h, mkPair(hroots[i].r, hroots[j].r))
						}
					}
				}
			}
		}
		counted[f] = true
	}
	return need, sites
}

// RAlias: for every function and every pair of distinct roots that may alias
// exactly in some call (aliasDemand), no read through one root follows an
// overlapping write through the other, and they are not both written at
// overlapping paths.
func (a *Analysis) RAlias() []report.Obligation {
	var out []report.Obligation
	need, sites := a.aliasDemand()
	for _, f := range a.P.Funcs {
		fi := a.Info[f]
		roots := fi.aliasRoots()
		for i := 0; i < len(roots); i++ {
			for j := i; j < len(roots); j++ {
				ra, rb := roots[i], roots[j]
				if i == j && ra.r.Kind != KElem {
					continue
				}
				if !mayAliasShapes(ra, rb) {
					continue
				}
				o := report.Obligation{Rule: "R-ALIAS", Key: fmt.Sprintf("R-ALIAS/%s/(%s,%s)", load.ShortName(f), ra.name, rb.name), Config: a.cfg(), Pos: a.fnPos(f), OK: true,
					Detail: "no read through one follows an overlapping write through the other"}
				blur := ra.slice || rb.slice
				var hazards []string
				var pairs []Pair
				for p := range fi.Sum.Pairs {
					pairs = append(pairs, p)
				}
				sort.Slice(pairs, func(x, y int) bool {
					if pairs[x].W.Path != pairs[y].W.Path {
						return pairs[x].W.Path < pairs[y].W.Path
					}
					return pairs[x].R.Path < pairs[y].R.Path
				})
				var firstPos string
				for _, p := range pairs {
					if !((p.W.Root == ra.r && p.R.Root == rb.r) || (p.W.Root == rb.r && p.R.Root == ra.r)) {
						continue
					}
					wp, rp := p.W.Path, p.R.Path
					if blur {
						wp, rp = blurFirstIndex(wp), blurFirstIndex(rp)
					}
					if !Overlap(wp, rp) {
						continue
					}
					evs := fi.PairAt[p]
					if len(hazards) < 3 {
						hazards = append(hazards, fmt.Sprintf("%s then %s", fi.EventString(evs[0]), fi.EventString(evs[1])))
					}
					if firstPos == "" && evs[1].Instr != nil {
						firstPos = a.pos(evs[1].Instr)
					}
				}
				if i != j {
					var ws [2][]Loc
					for l := range fi.Sum.MayWrite {
						if l.Root == ra.r {
							ws[0] = append(ws[0], l)
						} else if l.Root == rb.r {
							ws[1] = append(ws[1], l)
						}
					}
					found := false
					for _, x := range ws[0] {
						for _, y := range ws[1] {
							if !found && Overlap(x.Path, y.Path) {
								hazards = append(hazards, fmt.Sprintf("both %s and %s are written", fi.LocName(x), fi.LocName(y)))
								found = true
							}
						}
					}
				}
				demanded := need[f][mkPair(ra.r, rb.r)]
				switch {
				case len(hazards) > 0 && demanded:
					o.OK = false
					if firstPos != "" {
						o.Pos = firstPos
					}
					o.Detail = "if " + ra.name + " and " + rb.name + " alias the result changes: " + strings.Join(hazards, "; ")
				case len(hazards) > 0:
					o.Detail = fmt.Sprintf("unexported function whose %d call site(s) never pass overlapping storage for %s and %s (distinct locals, or roots of the caller that cannot themselves alias); it would not tolerate aliasing: %s", sites[f], ra.name, rb.name, hazards[0])
				case !demanded:
					o.Detail += fmt.Sprintf(" (and none of its %d call site(s) passes them aliased)", sites[f])
				}
				out = append(out, o)
			}
		}
	}
	return out
}

// ---- R-RO ------------------------------------------------------------------

func (a *Analysis) RReadOnly() []report.Obligation {
	var out []report.Obligation
	for _, f := range a.P.APIRoots() {
		fi := a.Info[f]
		start := 0
		if f.Signature.Recv() != nil {
			start = 1
			// a method that never returns its receiver uses it as an input only
			// (Bytes, Equal, IsNegative, ExtendedCoordinates…): it must not write it
			recv := Root{Kind: KParam, Index: 0}
			returnsRecv := false
			for _, rs := range fi.Sum.Returns {
				if len(rs.Results) > 0 {
					for _, pv := range rs.Results[0] {
						if pv.Loc.Root == recv {
							returnsRecv = true
						}
					}
				}
			}
			if !returnsRecv && isPtrLike(f.Params[0].Type()) {
				o := report.Obligation{Rule: "R-RO", Key: "R-RO/" + load.ShortName(f) + "/recv", Config: a.cfg(), Pos: a.fnPos(f), OK: true,
					Detail: "the receiver is an input only (it is never the result) and is never written"}
				var ws []string
				for l := range fi.Sum.MayWrite {
					if l.Root == recv {
						ws = append(ws, fi.LocName(l))
					}
				}
				sort.Strings(ws)
				if len(ws) > 0 {
					o.OK = false
					if len(ws) > 5 {
						ws = append(ws[:5], "…")
					}
					o.Detail = "the method does not return its receiver, so the receiver is a (possibly shared) input — but it is written: " + strings.Join(ws, ", ")
				}
				out = append(out, o)
			}
		}
		for i := start; i < len(f.Params); i++ {
			p := f.Params[i]
			if !isPtrLike(p.Type()) {
				continue
			}
			o := report.Obligation{Rule: "R-RO", Key: "R-RO/" + load.ShortName(f) + "/" + p.Name(), Config: a.cfg(), Pos: a.fnPos(f), OK: true,
				Detail: "never written (transitively, including slice elements and their pointees)"}
			var ws []string
			for l := range fi.Sum.MayWrite {
				if (l.Root.Kind == KParam || l.Root.Kind == KElem) && l.Root.Index == i {
					ws = append(ws, fi.LocName(l))
				}
			}
			sort.Strings(ws)
			if len(ws) > 0 {
				o.OK = false
				if len(ws) > 5 {
					ws = append(ws[:5], "…")
				}
				o.Detail = "input argument is written: " + strings.Join(ws, ", ")
				// position of the first write event
				for _, b := range f.Blocks {
					for _, in := range b.Instrs {
						for _, ev := range fi.Events[in] {
							if ev.Op == OpWrite && (ev.Loc.Root.Kind == KParam || ev.Loc.Root.Kind == KElem) && ev.Loc.Root.Index == i && o.Pos == a.fnPos(f) {
								o.Pos = a.pos(in)
							}
						}
					}
				}
			}
			out = append(out, o)
		}
	}
	return out
}

// ---- R-FRESH ---------------------------------------------------------------

func (a *Analysis) RFresh() []report.Obligation {
	var out []report.Obligation
	for _, f := range a.P.APIRoots() {
		fi := a.Info[f]
		res := f.Signature.Results()
		for k := 0; k < res.Len(); k++ {
			if !isPtrLike(res.At(k).Type()) {
				continue
			}
			o := report.Obligation{Rule: "R-FRESH", Key: fmt.Sprintf("R-FRESH/%s/result%d", load.ShortName(f), k), Config: a.cfg(), Pos: a.fnPos(f), OK: true}
			var prov, bad []string
			seen := map[string]bool{}
			for _, rs := range fi.Sum.Returns {
				if k >= len(rs.Results) {
					continue
				}
				if len(rs.Results[k]) == 0 {
					bad = append(bad, "result of unknown provenance at "+a.pos(rs.Instr))
				}
				for _, pv := range rs.Results[k] {
					n := fi.LocName(pv.Loc)
					ok := false
					switch pv.Loc.Root.Kind {
					case KFresh, KNil:
						ok = true
					case KParam:
						ok = pv.Loc.Root.Index == 0 && f.Signature.Recv() != nil && pv.Loc.Path == ""
					}
					if !seen[n] {
						seen[n] = true
						prov = append(prov, n)
					}
					if !ok {
						bad = append(bad, n+" returned at "+a.pos(rs.Instr))
						o.Pos = a.pos(rs.Instr)
					}
				}
			}
			sort.Strings(prov)
			o.Detail = "provenance {" + strings.Join(prov, ", ") + "}"
			if len(bad) > 0 {
				o.OK = false
				o.Detail = "result is neither fresh, the receiver, nor nil: " + strings.Join(bad, "; ")
			}
			out = append(out, o)
		}
	}
	return out
}

// ---- R-GLOBAL --------------------------------------------------------------

func isOnceType(t types.Type) bool {
	n, ok := t.(*types.Named)
	return ok && n.Obj().Pkg() != nil && n.Obj().Pkg().Path() == "sync" && n.Obj().Name() == "Once"
}

type onceKey struct {
	g    *ssa.Global
	path Path
}

type onceInfo struct {
	g        *ssa.Global
	lits     map[*ssa.Function]bool
	doCalls  map[*ssa.Function][]*ssa.Call // function -> its Do calls on this Once
	oncePath Path
	region   map[*ssa.Global][]Path // package state written under this Once (usually inside g itself)
}

func (oi *onceInfo) name() string {
	if oi.oncePath == "" {
		return oi.g.Name()
	}
	return oi.g.Name() + PrettyPath(oi.g.Type().(*types.Pointer).Elem(), oi.oncePath)
}

func (oi *onceInfo) covers(g *ssa.Global, p Path) bool {
	for _, r := range oi.region[g] {
		if Overlap(r, p) {
			return true
		}
	}
	return false
}

func (oi *onceInfo) regionSize() int {
	n := 0
	for _, ps := range oi.region {
		n += len(ps)
	}
	return n
}

func (oi *onceInfo) regionNames() string {
	var ns []string
	for g := range oi.region {
		ns = append(ns, g.Name())
	}
	sort.Strings(ns)
	return strings.Join(ns, ", ")
}

// onces finds every sync.Once (a field of a package-level variable, identified
// by variable and field path), the functions run under it and the part of the
// variable those functions write (the state it protects).
type holderDo struct {
	f   *ssa.Function // the holder method containing the Do call
	loc Loc           // the Once, relative to a parameter of f
	lit *ssa.Function
}

func (a *Analysis) onces() map[onceKey]*onceInfo {
	out := map[onceKey]*onceInfo{}
	var holders []holderDo
	defer func() {
		// resolve holder methods at their call sites: the call stands for the Do call
		for _, h := range holders {
			for _, g := range a.P.Funcs {
				gi := a.Info[g]
				if gi == nil {
					continue
				}
				for _, b := range g.Blocks {
					for _, in := range b.Instrs {
						c2, ok := in.(*ssa.Call)
						if !ok {
							continue
						}
						if callee, _ := load.StaticCallee(c2); callee != h.f {
							continue
						}
						locs := gi.Translate(c2, h.loc)
						if len(locs) != 1 || locs[0].Root.Kind != KGlobal {
							a.problem(g, in, "sync.Once of a holder object that is not a field of one package-level variable")
							continue
						}
						k := onceKey{locs[0].Root.Global, locs[0].Path}
						oi := out[k]
						if oi == nil {
							oi = &onceInfo{g: k.g, lits: map[*ssa.Function]bool{}, doCalls: map[*ssa.Function][]*ssa.Call{}, oncePath: k.path, region: map[*ssa.Global][]Path{}}
							out[k] = oi
						}
						oi.lits[h.lit] = true
						oi.doCalls[g] = append(oi.doCalls[g], c2)
					}
				}
			}
		}
		a.onceRegions(out)
	}()
	for _, f := range a.P.Funcs {
		fi := a.Info[f]
		for _, b := range f.Blocks {
			for _, in := range b.Instrs {
				c, ok := in.(*ssa.Call)
				if !ok {
					continue
				}
				callee, lit := load.StaticCallee(c)
				if callee == nil || callee.String() != "(*sync.Once).Do" {
					continue
				}
				pvs := fi.operand(c.Common().Args[0])
				if len(pvs) == 1 && pvs[0].Loc.Root.Kind == KParam && lit != nil {
					// a method of a holder type (`func (h *tableOnce) get() { h.once.Do(h.build); … }`): which Once this
					// is is decided at the call sites of the method, below
					holders = append(holders, holderDo{f: f, loc: pvs[0].Loc, lit: lit})
					continue
				}
				if len(pvs) != 1 || pvs[0].Loc.Root.Kind != KGlobal || lit == nil {
					a.problem(f, in, "sync.Once.Do on something other than a field of one package-level variable with a function literal or method value")
					continue
				}
				k := onceKey{pvs[0].Loc.Root.Global, pvs[0].Loc.Path}
				oi := out[k]
				if oi == nil {
					oi = &onceInfo{g: k.g, lits: map[*ssa.Function]bool{}, doCalls: map[*ssa.Function][]*ssa.Call{}, oncePath: k.path, region: map[*ssa.Global][]Path{}}
					out[k] = oi
				}
				oi.lits[lit] = true
				oi.doCalls[f] = append(oi.doCalls[f], c)
			}
		}
	}
	return out
}

func (a *Analysis) onceRegions(out map[onceKey]*onceInfo) {
	// protected regions: what the functions run under the Once write inside its variable
	for _, oi := range out {
		seen := map[Loc]bool{}
		add := func(ev Event) {
			if ev.Op == OpWrite && ev.Loc.Root.Kind == KGlobal && !isOncePath(ev.Loc.Root.Global, ev.Loc.Path) && !seen[ev.Loc] {
				seen[ev.Loc] = true
				oi.region[ev.Loc.Root.Global] = append(oi.region[ev.Loc.Root.Global], ev.Loc.Path)
			}
		}
		for l := range oi.lits {
			if li := a.Info[l]; li != nil {
				for _, b := range l.Blocks {
					for _, in := range b.Instrs {
						for _, ev := range li.Events[in] {
							add(ev)
						}
					}
				}
			}
		}
		for f, calls := range oi.doCalls {
			for _, c := range calls {
				for _, ev := range a.Info[f].Events[c] {
					add(ev)
				}
			}
		}
		for g := range oi.region {
			ps := oi.region[g]
			sort.Slice(ps, func(i, j int) bool { return ps[i] < ps[j] })
		}
	}
}

// directCallers: functions with a direct static call of f (not through sync.Once.Do).
func (a *Analysis) directCallers(f *ssa.Function) []*ssa.Function {
	var out []*ssa.Function
	for _, g := range a.P.Funcs {
		found := false
		for _, b := range g.Blocks {
			for _, in := range b.Instrs {
				if c, ok := in.(ssa.CallInstruction); ok {
					if callee, _ := load.StaticCallee(c); callee == f {
						found = true
					}
				}
			}
		}
		if found {
			out = append(out, g)
		}
	}
	return out
}

// isOncePath: does the path lead into a sync.Once field of g?
func isOncePath(g *ssa.Global, p Path) bool {
	t := g.Type().(*types.Pointer).Elem()
	for _, st := range p.Steps() {
		if isOnceType(t) {
			return true
		}
		switch u := t.Underlying().(type) {
		case *types.Struct:
			if !st.Field || st.N >= u.NumFields() {
				return false
			}
			t = u.Field(st.N).Type()
		case *types.Array:
			t = u.Elem()
		case *types.Slice:
			t = u.Elem()
		default:
			return false
		}
	}
	return isOnceType(t)
}

func onceFieldCount(t types.Type) int {
	switch u := t.Underlying().(type) {
	case *types.Struct:
		if isOnceType(t) {
			return 1
		}
		n := 0
		for i := 0; i < u.NumFields(); i++ {
			n += onceFieldCount(u.Field(i).Type())
		}
		return n
	case *types.Array:
		if onceFieldCount(u.Elem()) > 0 {
			return int(u.Len()) * onceFieldCount(u.Elem())
		}
	}
	return 0
}

func dominatesInstr(x, y ssa.Instruction) bool {
	bx, by := x.Block(), y.Block()
	if bx == by {
		for _, in := range bx.Instrs {
			if in == x {
				return true
			}
			if in == y {
				return false
			}
		}
		return false
	}
	return bx.Dominates(by)
}

// RGlobal: package state is write-once.
func (a *Analysis) RGlobal() []report.Obligation {
	var out []report.Obligation
	onces := a.onces()
	var keys []onceKey
	for k := range onces {
		keys = append(keys, k)
	}
	sort.Slice(keys, func(i, j int) bool {
		if keys[i].g.Name() != keys[j].g.Name() {
			return keys[i].g.Name() < keys[j].g.Name()
		}
		return keys[i].path < keys[j].path
	})
	litOf := map[*ssa.Function]*onceInfo{}
	doCallOf := map[ssa.Instruction]*onceInfo{}
	for _, oi := range onces {
		for l := range oi.lits {
			litOf[l] = oi
		}
		for _, calls := range oi.doCalls {
			for _, c := range calls {
				doCallOf[c] = oi
			}
		}
	}
	// guarding accessors: every return dominated by a Do call on the Once
	accessor := map[*ssa.Function][]*onceInfo{}
	for _, k := range keys {
		oi := onces[k]
		for f, calls := range oi.doCalls {
			all := true
			for _, rs := range a.Info[f].Sum.Returns {
				d := false
				for _, c := range calls {
					if dominatesInstr(c, rs.Instr) {
						d = true
					}
				}
				if !d {
					all = false
				}
			}
			if all {
				accessor[f] = append(accessor[f], oi)
			}
		}
	}
	isAccessor := func(f *ssa.Function, oi *onceInfo) bool {
		for _, x := range accessor[f] {
			if x == oi {
				return true
			}
		}
		return false
	}
	// (1) writers
	for _, f := range a.P.Funcs {
		fi := a.Info[f]
		isInit := load.IsInitFunc(f)
		o := report.Obligation{Rule: "R-GLOBAL", Key: "R-GLOBAL/" + load.ShortName(f) + "/writes", Config: a.cfg(), Pos: a.fnPos(f), OK: true,
			Detail: "writes no package-level state"}
		if isInit {
			o.Detail = "package initialiser (single-threaded, before any API call)"
			out = append(out, o)
			continue
		}
		var bad []string
		n := 0
		for _, b := range f.Blocks {
			for _, in := range b.Instrs {
				for _, ev := range fi.Events[in] {
					if ev.Op != OpWrite || ev.Inherited || !(ev.Loc.Root.Kind == KGlobal || ev.Loc.Root.Kind == KGPointee) {
						continue
					}
					n++
					if oi := litOf[f]; oi != nil && ev.Loc.Root.Kind == KGlobal && (ev.Loc.Root.Global == oi.g || len(a.directCallers(f)) == 0) {
						continue // the function run under a Once (and only there) builds the state that Once protects
					}
					if oi := doCallOf[in]; oi != nil && ev.Loc.Root.Kind == KGlobal {
						continue // performed by the function run under this Once
					}
					if len(bad) < 3 {
						bad = append(bad, fi.EventString(ev))
					}
					if o.OK {
						o.Pos = a.pos(in)
					}
					o.OK = false
				}
			}
		}
		if litOf[f] != nil && o.OK {
			o.Detail = fmt.Sprintf("runs only under the sync.Once %s: its %d write events build the state that Once protects (%s)", litOf[f].name(), n, litOf[f].regionNames())
		}
		if !o.OK {
			o.Detail = "writes package-level state outside the package initialiser / its own sync.Once literal: " + strings.Join(bad, "; ")
		}
		out = append(out, o)
	}
	// (2) every access of Once-protected state is after the Do
	for _, k := range keys {
		oi := onces[k]
		for _, f := range a.P.Funcs {
			if oi.lits[f] {
				continue
			}
			fi := a.Info[f]
			var guards []ssa.Instruction
			for _, c := range oi.doCalls[f] {
				guards = append(guards, c)
			}
			for _, b := range f.Blocks {
				for _, in := range b.Instrs {
					if c, ok := in.(*ssa.Call); ok {
						if cal, _ := load.StaticCallee(c); cal != nil && isAccessor(cal, oi) {
							guards = append(guards, c)
						}
					}
				}
			}
			nAcc := 0
			var bad []string
			var badPos string
			for _, b := range f.Blocks {
				for _, in := range b.Instrs {
					if doCallOf[in] == oi {
						continue // the initialiser's own accesses, inside the Once
					}
					for _, ev := range fi.Events[in] {
						if ev.Inherited || ev.Loc.Root.Kind != KGlobal {
							continue
						}
						if ev.Op != OpRead && ev.Op != OpWrite {
							continue
						}
						g := ev.Loc.Root.Global
						if isOncePath(g, ev.Loc.Path) || !oi.covers(g, ev.Loc.Path) {
							continue // a Once itself, or state this Once does not protect
						}
						nAcc++
						ok := false
						for _, gd := range guards {
							if gd != in && dominatesInstr(gd, in) {
								ok = true
							}
						}
						if !ok && len(bad) < 3 {
							bad = append(bad, fi.EventString(ev))
							if badPos == "" {
								badPos = a.pos(in)
							}
						}
					}
				}
			}
			if nAcc == 0 {
				continue
			}
			o := report.Obligation{Rule: "R-GLOBAL", Key: "R-GLOBAL/" + load.ShortName(f) + "/after-once:" + oi.name(), Config: a.cfg(), Pos: a.fnPos(f), OK: len(bad) == 0,
				Detail: fmt.Sprintf("%d accesses of the state built under %s, each dominated by its sync.Once.Do (or by a call of an accessor that always runs it)", nAcc, oi.name())}
			if len(bad) > 0 {
				o.Pos = badPos
				o.Detail = "access of lazily initialised state not dominated by its sync.Once.Do: " + strings.Join(bad, "; ")
			}
			out = append(out, o)
		}
	}
	// (3) each Once runs exactly one function, and no two Onces build overlapping state
	for i, k := range keys {
		oi := onces[k]
		o := report.Obligation{Rule: "R-GLOBAL", Key: "R-GLOBAL/once:" + oi.name(), Config: a.cfg(), Pos: "-", OK: len(oi.lits) == 1,
			Detail: fmt.Sprintf("%d initialiser function(s) under this sync.Once; it builds %d location(s) of %s", len(oi.lits), oi.regionSize(), oi.regionNames())}
		for j, k2 := range keys {
			if j == i {
				continue
			}
			for g, ps := range onces[k2].region {
				for _, r := range ps {
					if oi.covers(g, r) {
						o.OK = false
						o.Detail = fmt.Sprintf("state of %s is written both under %s and under %s", g.Name(), oi.name(), onces[k2].name())
					}
				}
			}
		}
		out = append(out, o)
	}
	// (4) package-level variables inventory
	for _, sp := range []*ssa.Package{a.P.Field, a.P.Root} {
		var names []string
		for n, m := range sp.Members {
			if _, ok := m.(*ssa.Global); ok && !strings.HasPrefix(n, "init$") {
				names = append(names, n)
			}
		}
		sort.Strings(names)
		for _, n := range names {
			g := sp.Members[n].(*ssa.Global)
			nOnce := onceFieldCount(g.Type().(*types.Pointer).Elem())
			used := 0
			for _, k := range keys {
				if k.g == g {
					used++
				}
			}
			o := report.Obligation{Rule: "R-GLOBAL", Key: "R-GLOBAL/var:" + load.ShortName0(sp) + n, Config: a.cfg(), Pos: a.P.Rel(g.Pos()), OK: true}
			if nOnce > 0 {
				o.Detail = "lazily built under its own sync.Once"
				if used != nOnce {
					o.OK = false
					o.Detail = fmt.Sprintf("has %d sync.Once field(s), %d of them used by a Do call", nOnce, used)
				}
			} else {
				o.Detail = "written only by the package initialiser (see …/writes obligations)"
				for _, k := range keys {
					if len(onces[k].region[g]) > 0 {
						o.Detail = "lazily built under the sync.Once " + onces[k].name() + " (see …/writes and …/after-once obligations)"
					}
				}
			}
			out = append(out, o)
			// R-EXPORT: package state must not be reachable for writing from outside the package. R-GLOBAL sees the
			// writes the packages make; an EXPORTED variable can be written (or, if it is a pointer, written through)
			// by any importer at any time, between any two calls. Harmless only if the packages never read it or
			// its type holds nothing of theirs (an exported sentinel error).
			e := report.Obligation{Rule: "R-EXPORT", Key: "R-EXPORT/var:" + load.ShortName0(sp) + n, Config: a.cfg(), Pos: a.P.Rel(g.Pos()), OK: true,
				Detail: "unexported: no importer can write it or write through it"}
			if ast.IsExported(n) {
				vt := g.Type().(*types.Pointer).Elem()
				mentions := mentionsRepoType(vt, map[types.Type]bool{})
				read := false
				for _, f := range a.P.Funcs {
					if load.IsInitFunc(f) {
						continue
					}
					if fi := a.Info[f]; fi != nil && fi.Sum != nil {
						for l := range fi.Sum.MayRead {
							if (l.Root.Kind == KGlobal || l.Root.Kind == KGPointee) && l.Root.Global == g {
								read = true
							}
						}
					}
				}
				isErr := types.Identical(vt, types.Universe.Lookup("error").Type())
				switch {
				case mentions:
					e.OK = false
					e.Detail = fmt.Sprintf("exported package-level variable of type %s: importers can overwrite it or write through it, so package state (and every later result that reads it) can change between calls, unsynchronised", vt)
				case read && !isErr:
					e.OK = false
					e.Detail = "exported package-level variable that the package's own code reads: importers can change what later calls compute"
				default:
					e.Detail = "exported, but holds nothing of the packages' types and is not read by their code (a sentinel value for callers)"
				}
			}
			out = append(out, e)
		}
	}
	return out
}

// mentionsRepoType: t is, points to, or contains a named type declared in one of the two packages.
func mentionsRepoType(t types.Type, seen map[types.Type]bool) bool {
	if seen[t] {
		return false
	}
	seen[t] = true
	switch u := t.(type) {
	case *types.Named:
		if o := u.Obj(); o != nil && o.Pkg() != nil && (o.Pkg().Path() == load.RootPath || o.Pkg().Path() == load.FieldPath) {
			return true
		}
		return mentionsRepoType(u.Underlying(), seen)
	case *types.Pointer:
		return mentionsRepoType(u.Elem(), seen)
	case *types.Slice:
		return mentionsRepoType(u.Elem(), seen)
	case *types.Array:
		return mentionsRepoType(u.Elem(), seen)
	case *types.Map:
		return mentionsRepoType(u.Key(), seen) || mentionsRepoType(u.Elem(), seen)
	case *types.Struct:
		for i := 0; i < u.NumFields(); i++ {
			if mentionsRepoType(u.Field(i).Type(), seen) {
				return true
			}
		}
	}
	return false
}

// ---- R-ATOMIC ----------------------------------------------------------------

type flatSite struct {
	err     int
	res0    []PVal
	recvW   bool
	desc    string
	instr   ssa.Instruction
	unknown string
}

// FallibleSetters: methods with receiver *T and results (*T, error).
func (a *Analysis) FallibleSetters() []*ssa.Function {
	var out []*ssa.Function
	for _, f := range a.P.Funcs {
		recv := f.Signature.Recv()
		res := f.Signature.Results()
		if recv == nil || res.Len() != 2 || !isErrorType(res.At(1).Type()) || f.Parent() != nil {
			continue
		}
		if _, ok := recv.Type().(*types.Pointer); !ok || !types.Identical(recv.Type(), res.At(0).Type()) {
			continue
		}
		out = append(out, f)
	}
	return out
}

func (a *Analysis) flatSites(f *ssa.Function, depth int) []flatSite {
	fi := a.Info[f]
	var out []flatSite
	recv := Root{Kind: KParam, Index: 0}
	for _, rs := range fi.Sum.Returns {
		if rs.Forwarded != nil && depth < 8 {
			ex := rs.Instr.Results[0].(*ssa.Extract)
			call := ex.Tuple.(*ssa.Call)
			before := fi.MayRootsBefore[call][recv]
			for _, cs := range a.flatSites(rs.Forwarded, depth+1) {
				fs := flatSite{err: cs.err, instr: rs.Instr, unknown: cs.unknown, desc: a.pos(rs.Instr) + " → " + load.ShortName(rs.Forwarded) + " " + cs.desc}
				for _, pv := range cs.res0 {
					fs.res0 = append(fs.res0, fi.translatePV(call, 0, pv)...)
				}
				fs.recvW = before
				if cs.recvW {
					// the callee's receiver: which caller root is it?
					for _, pv := range fi.operand(call.Common().Args[0]) {
						if pv.Loc.Root == recv {
							fs.recvW = true
						}
					}
				}
				// other callee writes to caller's receiver through non-receiver params cannot happen for R-RO-clean callees; checked by R-RO
				out = append(out, fs)
			}
			continue
		}
		fs := flatSite{err: rs.Err, instr: rs.Instr, desc: a.pos(rs.Instr)}
		if len(rs.Results) > 0 {
			fs.res0 = rs.Results[0]
		}
		fs.recvW = rs.WrittenRoots[recv]
		if rs.Err == 2 {
			fs.unknown = "error operand is neither the nil constant, a definitely non-nil error (errors.New, fmt.Errorf, a write-once sentinel variable), nor a forwarded call tuple"
		}
		out = append(out, fs)
	}
	return out
}

func (a *Analysis) RAtomic() []report.Obligation {
	var out []report.Obligation
	for _, f := range a.FallibleSetters() {
		fi := a.Info[f]
		sites := a.flatSites(f, 0)
		nErr, nOK := 0, 0
		for i, s := range sites {
			kind := "success"
			if s.err == 1 {
				kind = "error"
				nErr++
			} else if s.err == 0 {
				nOK++
			}
			o := report.Obligation{Rule: "R-ATOMIC", Key: fmt.Sprintf("R-ATOMIC/%s/%s-site#%d", load.ShortName(f), kind, i), Config: a.cfg(), Pos: a.pos(s.instr), OK: true}
			var names []string
			for _, pv := range s.res0 {
				names = append(names, fi.LocName(pv.Loc))
			}
			switch {
			case s.unknown != "":
				o.OK = false
				o.Detail = "UNDECIDED return site " + s.desc + ": " + s.unknown
			case s.err == 1:
				o.Detail = "error site " + s.desc + ": returns nil, receiver not written on any path to it"
				for _, pv := range s.res0 {
					if pv.Loc.Root.Kind != KNil {
						o.OK = false
						o.Detail = "error site " + s.desc + " returns a non-nil value: " + strings.Join(names, ",")
					}
				}
				if len(s.res0) == 0 {
					o.OK = false
					o.Detail = "error site " + s.desc + ": result of unknown provenance"
				}
				if s.recvW {
					o.OK = false
					o.Detail = "the receiver may already have been written on a path to error site " + s.desc
				}
			case s.err == 0:
				o.Detail = "success site " + s.desc + ": returns exactly the receiver"
				if len(s.res0) != 1 || s.res0[0].Loc.Root != (Root{Kind: KParam, Index: 0}) || s.res0[0].Loc.Path != "" {
					o.OK = false
					o.Detail = "success site " + s.desc + " returns {" + strings.Join(names, ",") + "}, not exactly the receiver"
				}
			}
			out = append(out, o)
		}
		o := report.Obligation{Rule: "R-ATOMIC", Key: "R-ATOMIC/" + load.ShortName(f) + "/shape", Config: a.cfg(), Pos: a.fnPos(f), OK: nErr >= 1 && nOK >= 1,
			Detail: fmt.Sprintf("%d error site(s), %d success site(s)", nErr, nOK)}
		out = append(out, o)
	}
	return out
}

// ---- instruction inventory for evidence --------------------------------------

func (a *Analysis) Stats() map[string]int {
	st := map[string]int{"functions": len(a.P.Funcs), "ssa_instructions": a.P.NInstr, "api_roots": len(a.P.APIRoots())}
	for _, f := range a.P.Funcs {
		fi := a.Info[f]
		for _, evs := range fi.Events {
			st["effect_events"] += len(evs)
		}
		st["write_then_read_pairs"] += len(fi.Sum.Pairs)
		st["untracked_variable_index_reads"] += fi.Untracked
	}
	for _, s := range a.P.Asm {
		st["asm_instructions"] += len(s.Func.Insts)
		st["asm_memory_events"] += len(s.Events)
	}
	return st
}
