// Package report holds the obligation/finding model shared by all engines and
// the evidence / known-findings plumbing (DESIGN §2, §7).
package report

import (
	"encoding/json"
	"fmt"
	"os"
	"path/filepath"
	"regexp"
	"sort"
	"strings"
	"time"
)

// Obligation is one rule instance. Keys are rule + construct, never lines.
type Obligation struct {
	Rule   string `json:"rule"`
	Key    string `json:"key"`
	Config string `json:"config,omitempty"`
	Pos    string `json:"pos,omitempty"`
	OK     bool   `json:"ok"`
	Detail string `json:"detail,omitempty"`
	// set by the driver
	Exception string `json:"exception,omitempty"`
	Known     bool   `json:"known_finding,omitempty"`
}

type Set struct {
	Obls     []Obligation
	Problems []string // UNDECIDED / structural failures: fail closed
	Notes    []string
}

func (s *Set) Add(o Obligation) { s.Obls = append(s.Obls, o) }
func (s *Set) Problem(f string, a ...interface{}) {
	s.Problems = append(s.Problems, fmt.Sprintf(f, a...))
}
func (s *Set) Note(f string, a ...interface{}) { s.Notes = append(s.Notes, fmt.Sprintf(f, a...)) }
func (s *Set) Merge(o *Set) {
	s.Obls = append(s.Obls, o.Obls...)
	s.Problems = append(s.Problems, o.Problems...)
	s.Notes = append(s.Notes, o.Notes...)
}

// Count returns the number of obligations of a rule.
func (s *Set) Count(rule string) int {
	n := 0
	for _, o := range s.Obls {
		if o.Rule == rule {
			n++
		}
	}
	return n
}

// KnownFinding is an entry of /verif/known_findings.json (never written at run time).
type KnownFinding struct {
	Property string `json:"property"`
	Key      string `json:"key"`
	Status   string `json:"status"` // "known" | "fixed"
	What     string `json:"what"`
	Commit   string `json:"commit,omitempty"`
}

func LoadKnown(path string) ([]KnownFinding, error) {
	b, err := os.ReadFile(path)
	if err != nil {
		if os.IsNotExist(err) {
			return nil, nil
		}
		return nil, err
	}
	var k []KnownFinding
	if err := json.Unmarshal(b, &k); err != nil {
		return nil, err
	}
	return k, nil
}

// Exception is a frozen, reasoned exemption of one construct key from one rule.
type Exception struct {
	Key    string
	Reason string
	// Prefix: the exception covers every key that starts with Key
	Prefix bool
	// Pattern: Key is a regular expression over construct keys
	Pattern bool
}

type Floor struct {
	Rule string
	Min  int
}

// Outcome of a property check.
type Outcome struct {
	Property    string
	Tier        string
	Level       string
	Set         *Set
	Violations  []Obligation
	KnownHits   []Obligation
	Stale       []string
	FloorFails  []string
	Canary      []string // canary failures
	Start       time.Time
	Extra       map[string]interface{}
	Samples     []interface{}
	Assumptions []string
	Explanation string
	TrustedBase []string
	Programs    int
	Seed        int64
}

// Decide applies exceptions, known findings and floors.
func Decide(prop string, set *Set, exceptions []Exception, known []KnownFinding, floors []Floor) *Outcome {
	out := &Outcome{Property: prop, Set: set, Extra: map[string]interface{}{}}
	exc := map[string]string{}
	usedExc := map[string]bool{}
	for _, e := range exceptions {
		if !e.Prefix && !e.Pattern {
			exc[e.Key] = e.Reason
		}
	}
	kn := map[string]KnownFinding{}
	usedKn := map[string]bool{}
	for _, k := range known {
		if k.Property == prop && k.Status == "known" {
			kn[k.Key] = k
		}
	}
	seenKeys := map[string]bool{}
	for i := range set.Obls {
		o := &set.Obls[i]
		seenKeys[o.Key] = true
		if r, ok := exc[o.Key]; ok {
			usedExc[o.Key] = true
			o.Exception = r
			continue
		}
		pref := false
		for _, e := range exceptions {
			if (e.Prefix && strings.HasPrefix(o.Key, e.Key)) || (e.Pattern && matchKey(e.Key, o.Key)) {
				seenKeys[e.Key] = true
				if !o.OK {
					o.Exception = e.Reason
				}
				pref = true
			}
		}
		if pref && o.Exception != "" {
			continue
		}
		if o.OK {
			continue
		}
		if _, ok := kn[o.Key]; ok {
			o.Known = true
			usedKn[o.Key] = true
			out.KnownHits = append(out.KnownHits, *o)
			continue
		}
		out.Violations = append(out.Violations, *o)
	}
	for _, e := range exceptions {
		if !seenKeys[e.Key] {
			out.Stale = append(out.Stale, "exception "+e.Key+" matches no construct (stale)")
		}
	}
	for k := range kn {
		if !usedKn[k] {
			out.Stale = append(out.Stale, "known finding "+k+" no longer fires (stale, informational)")
		}
	}
	sort.Strings(out.Stale)
	for _, f := range floors {
		if n := set.Count(f.Rule); n < f.Min {
			out.FloorFails = append(out.FloorFails, fmt.Sprintf("rule %s matched %d instances, floor is %d (a rule must not pass vacuously)", f.Rule, n, f.Min))
		}
	}
	return out
}

func matchKey(pattern, key string) bool {
	re, err := regexp.Compile(pattern)
	return err == nil && re.MatchString(key)
}

func (o *Outcome) Failed() bool {
	return len(o.Violations) > 0 || len(o.Set.Problems) > 0 || len(o.FloorFails) > 0 || len(o.Canary) > 0 || o.staleExceptions() > 0
}

func (o *Outcome) staleExceptions() int {
	n := 0
	for _, s := range o.Stale {
		if strings.HasPrefix(s, "exception ") {
			n++
		}
	}
	return n
}

func VerifDir() string {
	if d := os.Getenv("VERIF_DIR"); d != "" {
		return d
	}
	// the binary lives in /verif/bin
	exe, err := os.Executable()
	if err == nil {
		d := filepath.Dir(filepath.Dir(exe))
		if _, err := os.Stat(filepath.Join(d, "properties.jsonl")); err == nil {
			return d
		}
	}
	if wd, err := os.Getwd(); err == nil {
		if _, err := os.Stat(filepath.Join(wd, "properties.jsonl")); err == nil {
			return wd
		}
	}
	return "/verif"
}

// Emit prints the report, writes the replay and evidence files and returns the exit code.
func (o *Outcome) Emit(noEvidence bool) int {
	dir := VerifDir()
	byRule := map[string][2]int{}
	for _, ob := range o.Set.Obls {
		c := byRule[ob.Rule]
		c[0]++
		if ob.OK || ob.Exception != "" {
			c[1]++
		}
		byRule[ob.Rule] = c
	}
	var rules []string
	for r := range byRule {
		rules = append(rules, r)
	}
	sort.Strings(rules)
	fmt.Printf("== %s tier=%s level=%s\n", o.Property, o.Tier, o.Level)
	for _, r := range rules {
		fmt.Printf("   rule %-12s obligations=%d discharged=%d\n", r, byRule[r][0], byRule[r][1])
	}
	for _, n := range o.Set.Notes {
		fmt.Println("   note:", n)
	}
	if os.Getenv("VERIF_LIST") != "" {
		for _, ob := range o.Set.Obls {
			fmt.Printf("   OBL ok=%v %s [%s] %s: %s\n", ob.OK, ob.Key, ob.Config, ob.Pos, ob.Detail)
		}
	}
	for _, ob := range o.Set.Obls {
		if ob.Exception != "" {
			fmt.Printf("   EXCEPTION %s: %s\n", ob.Key, ob.Exception)
		}
	}
	for _, s := range o.Stale {
		fmt.Println("   STALE:", s)
	}
	printed := map[string]bool{}
	for _, k := range o.KnownHits {
		if printed[k.Key] {
			continue
		}
		printed[k.Key] = true
		var cfgs []string
		for _, k2 := range o.KnownHits {
			if k2.Key == k.Key {
				cfgs = append(cfgs, k2.Config)
			}
		}
		fmt.Printf("KNOWN-FINDING: property=%s %s at %s [%s]: %s\n", o.Property, k.Key, k.Pos, strings.Join(cfgs, ","), k.Detail)
	}
	code := 0
	if o.Failed() {
		code = 1
		replay := filepath.Join(dir, "evidence", "replay", o.Property+".json")
		os.MkdirAll(filepath.Dir(replay), 0o755)
		rp := map[string]interface{}{"property": o.Property, "violations": o.Violations, "undecided": o.Set.Problems, "floor_failures": o.FloorFails, "canary_failures": o.Canary, "stale": o.Stale}
		b, _ := json.MarshalIndent(rp, "", " ")
		os.WriteFile(replay, b, 0o644)
		for _, v := range o.Violations {
			fmt.Printf("FAIL %s [%s] at %s: %s\n", v.Key, v.Config, v.Pos, v.Detail)
		}
		for _, p := range o.Set.Problems {
			fmt.Println("FAIL", p)
		}
		for _, p := range o.FloorFails {
			fmt.Println("FAIL FLOOR", p)
		}
		for _, p := range o.Canary {
			fmt.Println("FAIL CANARY", p)
		}
		for _, s := range o.Stale {
			if strings.HasPrefix(s, "exception ") {
				fmt.Println("FAIL STALE", s)
			}
		}
		fmt.Printf("VIOLATION property=%s replay=%s\n", o.Property, replay)
	} else {
		fmt.Printf("PASS %s\n", o.Property)
	}
	if !noEvidence {
		o.writeEvidence(dir, byRule)
	}
	return code
}

func (o *Outcome) writeEvidence(dir string, byRule map[string][2]int) {
	total, disch := 0, 0
	ruleCounts := map[string]interface{}{}
	for r, c := range byRule {
		total += c[0]
		disch += c[1]
		ruleCounts[r] = map[string]int{"obligations": c[0], "discharged": c[1]}
	}
	// aggregated obligations (e.g. the individual machine-operation obligations behind one E4-OBL line)
	if n, ok := o.Extra["aggregated_obligations"].(int); ok {
		total += n
		if nd, ok := o.Extra["aggregated_discharged"].(int); ok {
			disch += nd
		}
	}
	// known findings count as not discharged
	keys := map[string]bool{}
	for _, ob := range o.Set.Obls {
		keys[ob.Key] = true
	}
	samples := o.Samples
	if len(samples) == 0 {
		for i, ob := range o.Set.Obls {
			if i%(1+len(o.Set.Obls)/8) == 0 {
				samples = append(samples, ob)
			}
		}
	}
	cov := map[string]interface{}{
		"obligations":         total,
		"discharged":          disch,
		"evaluations":         total,
		"distinct_nontrivial": len(keys),
		"rule":                "one obligation per rule instance (rule + construct key) found in /repo's current source; distinct = distinct keys; non-trivial = the rule's pattern matched a real construct",
		"checker_cmd":         fmt.Sprintf("bin/verif check %s --tier %s", o.Property, o.Tier),
		"trusted_base":        o.TrustedBase,
		"explanation":         o.Explanation,
		"samples":             samples,
		"rules":               ruleCounts,
		"exhaustive":          true,
		"undecided":           o.Set.Problems,
		"notes":               o.Set.Notes,
		"stale":               o.Stale,
	}
	if o.Programs > 0 {
		cov["programs"] = o.Programs
		cov["disagreements_checked"] = total
	}
	var kf []string
	for _, k := range o.KnownHits {
		kf = append(kf, k.Key)
	}
	cov["known_findings_matched"] = kf
	var exc []string
	for _, ob := range o.Set.Obls {
		if ob.Exception != "" {
			exc = append(exc, ob.Key+": "+ob.Exception)
		}
	}
	cov["exceptions_applied"] = exc
	for k, v := range o.Extra {
		cov[k] = v
	}
	if o.Assumptions == nil {
		o.Assumptions = []string{}
	}
	if o.TrustedBase == nil {
		cov["trusted_base"] = []string{}
	}
	if o.Set.Problems == nil {
		cov["undecided"] = []string{}
	}
	ev := map[string]interface{}{
		"property_id": o.Property,
		"tier":        o.Tier,
		"seed":        o.Seed,
		"level":       o.Level,
		"coverage":    cov,
		"assumptions": o.Assumptions,
		"wall_s":      time.Since(o.Start).Seconds(),
		"violations":  len(o.Violations) + len(o.Set.Problems) + len(o.FloorFails) + len(o.Canary),
	}
	b, _ := json.MarshalIndent(ev, "", " ")
	os.MkdirAll(filepath.Join(dir, "evidence"), 0o755)
	os.WriteFile(filepath.Join(dir, "evidence", o.Property+".json"), b, 0o644)
}
