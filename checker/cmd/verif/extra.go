package main

func extraCommand(name string, args []string) (int, bool) {
	return 0, false
}
