package main

import (
	"encoding/json"
	"fmt"
	"os"
	"os/exec"
	"path/filepath"
	"sort"
	"sync"

	"verif/checker/load"
	"verif/checker/report"
)

func extraCommand(name string, args []string) (int, bool) {
	switch name {
	case "reference":
		// prints the reference table of non-API functions (receiver, signature, callers) of the analysed tree;
		// regenerate checker/load/reference.json from it only when the rules are re-anchored on a new tree
		all := map[string]*load.RefFn{}
		for _, cfg := range []string{"amd64", "purego", "arm64", "386"} {
			p, err := load.Load(cfg)
			if err != nil {
				fmt.Fprintln(os.Stderr, err)
				return 1, true
			}
			for n, e := range p.ReferenceTable() {
				if old, ok := all[n]; ok {
					old.Configs = append(old.Configs, cfg)
					for _, c := range e.Callers {
						found := false
						for _, o := range old.Callers {
							if o == c {
								found = true
							}
						}
						if !found {
							old.Callers = append(old.Callers, c)
						}
					}
					sort.Strings(old.Callers)
				} else {
					all[n] = e
				}
			}
		}
		b, _ := json.MarshalIndent(all, "", " ")
		fmt.Println(string(b))
		return 0, true
	}
	return 0, false
}

type expectEntry struct {
	Class    string   `json:"class"`
	Property string   `json:"property"`
	Patch    string   `json:"patch"`
	Fires    []string `json:"fires"`
}

type corpusResult struct {
	Applied     int      `json:"mutants_applied"`
	Detected    int      `json:"mutants_detected"`
	Skipped     []string `json:"mutants_skipped"`
	Weak        []string `json:"undetected_but_expected"`
	BenignRun   int      `json:"benign_applied"`
	FalseAlarms []string `json:"benign_false_alarms"`
	Samples     []string `json:"samples"`
}

// corpusSelfTest (thorough tier): every corpus change this property's check is
// recorded to catch must still be caught, and no benign edit may be reported.
// Each patch is applied to a scratch copy of /repo's current tree outside /repo
// and /verif, analysed in a fresh process, and removed at once.
func corpusSelfTest(id string) *corpusResult {
	dir := report.VerifDir()
	b, err := os.ReadFile(filepath.Join(dir, "mutants", "expect.json"))
	if err != nil {
		return nil
	}
	var exp map[string]expectEntry
	if json.Unmarshal(b, &exp) != nil {
		return nil
	}
	exe, err := os.Executable()
	if err != nil {
		return nil
	}
	var ids []string
	for mid, e := range exp {
		relevant := e.Class == "benign"
		for _, f := range e.Fires {
			if f == id {
				relevant = true
			}
		}
		if relevant {
			ids = append(ids, mid)
		}
	}
	sort.Strings(ids)
	res := &corpusResult{}
	var mu sync.Mutex
	sem := make(chan struct{}, 8)
	var wg sync.WaitGroup
	for _, mid := range ids {
		wg.Add(1)
		go func(mid string) {
			defer wg.Done()
			sem <- struct{}{}
			defer func() { <-sem }()
			e := exp[mid]
			tmp, err := os.MkdirTemp("", "verif-corpus-")
			if err != nil {
				return
			}
			defer os.RemoveAll(tmp)
			dst := filepath.Join(tmp, "repo")
			if out, err := exec.Command("cp", "-r", load.RepoDir(), dst).CombinedOutput(); err != nil {
				mu.Lock()
				res.Skipped = append(res.Skipped, mid+": copy failed: "+string(out))
				mu.Unlock()
				return
			}
			os.RemoveAll(filepath.Join(dst, ".git"))
			ap := exec.Command("git", "apply", "--whitespace=nowarn", filepath.Join(dir, e.Patch))
			ap.Dir = dst
			if out, err := ap.CombinedOutput(); err != nil {
				mu.Lock()
				res.Skipped = append(res.Skipped, mid+": no longer applies to the current tree ("+firstLine(string(out))+")")
				mu.Unlock()
				return
			}
			for _, f := range []string{"known_findings.json", "properties.jsonl"} {
				if data, err := os.ReadFile(filepath.Join(dir, f)); err == nil {
					os.WriteFile(filepath.Join(tmp, f), data, 0o644)
				}
			}
			cmd := exec.Command(exe, "check", id, "--tier", "quick", "--no-evidence")
			cmd.Env = append(os.Environ(), "VERIF_REPO="+dst, "VERIF_DIR="+tmp)
			out, _ := cmd.CombinedOutput()
			fired := cmd.ProcessState != nil && cmd.ProcessState.ExitCode() != 0
			mu.Lock()
			defer mu.Unlock()
			if e.Class == "benign" {
				res.BenignRun++
				if fired {
					res.FalseAlarms = append(res.FalseAlarms, mid+": "+firstFail(string(out)))
				}
				return
			}
			res.Applied++
			if fired {
				res.Detected++
				if len(res.Samples) < 6 {
					res.Samples = append(res.Samples, mid+" → "+firstFail(string(out)))
				}
			} else {
				res.Weak = append(res.Weak, mid)
			}
		}(mid)
	}
	wg.Wait()
	sort.Strings(res.Skipped)
	sort.Strings(res.Weak)
	sort.Strings(res.FalseAlarms)
	sort.Strings(res.Samples)
	return res
}

func firstLine(s string) string {
	for i, c := range s {
		if c == '\n' {
			return s[:i]
		}
	}
	return s
}

func firstFail(out string) string {
	start := 0
	for i := 0; i <= len(out); i++ {
		if i == len(out) || out[i] == '\n' {
			line := out[start:i]
			if len(line) > 5 && line[:5] == "FAIL " {
				if len(line) > 220 {
					line = line[:220] + "…"
				}
				return line
			}
			start = i + 1
		}
	}
	return "(exit 1)"
}

func printCorpus(id string, r *corpusResult) {
	if r == nil {
		return
	}
	fmt.Printf("   corpus self-test: %d recorded changes applied, %d detected, %d skipped; %d benign edits applied, %d reported\n", r.Applied, r.Detected, len(r.Skipped), r.BenignRun, len(r.FalseAlarms))
	for _, w := range r.Weak {
		fmt.Printf("CHECKER-WEAKNESS property=%s %s is recorded as caught by this check but was not\n", id, w)
	}
	for _, f := range r.FalseAlarms {
		fmt.Printf("CHECKER-FALSE-ALARM property=%s %s\n", id, f)
	}
}
