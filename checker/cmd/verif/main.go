package main

import (
	"fmt"
	"golang.org/x/tools/go/packages"
	"golang.org/x/tools/go/ssa"
	"golang.org/x/tools/go/ssa/ssautil"
)

func main() {
	cfg := &packages.Config{Mode: packages.LoadSyntax, Dir: "/repo"}
	pkgs, err := packages.Load(cfg, "./...")
	if err != nil {
		panic(err)
	}
	prog, spkgs := ssautil.Packages(pkgs, ssa.BuilderMode(0))
	prog.Build()
	for _, p := range spkgs {
		fmt.Println(p.Pkg.Path(), len(p.Members))
	}
}
