package main

import (
	"fmt"
	"os"

	"verif/checker/effects"
	"verif/checker/load"
	"verif/checker/report"
)

func main() {
	cfg := "amd64"
	if len(os.Args) > 1 {
		cfg = os.Args[1]
	}
	p, err := load.Load(cfg)
	if err != nil {
		fmt.Println("ERR", err)
		os.Exit(2)
	}
	a := effects.Run(p)
	for _, pr := range append(p.Problems, a.Problems...) {
		fmt.Println("PROBLEM", pr)
	}
	var all []report.Obligation
	all = append(all, a.RInitReceivers(nil)...)
	all = append(all, a.RInitLocals(nil)...)
	all = append(all, a.RAlias()...)
	all = append(all, a.RReadOnly()...)
	all = append(all, a.RFresh()...)
	all = append(all, a.RGlobal()...)
	all = append(all, a.RAtomic()...)
	cnt := map[string]int{}
	for _, o := range all {
		cnt[o.Rule]++
		if !o.OK || len(os.Args) > 2 {
			fmt.Printf("%v %s @%s: %s\n", o.OK, o.Key, o.Pos, o.Detail)
		}
	}
	fmt.Println(cnt, a.Stats())
}
