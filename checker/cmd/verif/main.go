// Command verif decides the properties C01–C20 of /repo by static analysis.
//
//	verif check <Cxx> [--tier quick|thorough] [--no-evidence]
//	verif list
//
// Type aliases (type fe = field.Element) are seen through: the rules identify types by their declared name.
//
//go:debug gotypesalias=0
package main

import (
	"fmt"
	"os"
	"path/filepath"
	"runtime/debug"
	"runtime/pprof"
	"sort"
	"strconv"
	"time"

	"verif/checker/props"
	"verif/checker/report"
)

func usage() {
	fmt.Fprintln(os.Stderr, "usage: verif check <Cxx> [--tier quick|thorough] [--no-evidence] | verif list")
	os.Exit(2)
}

func main() {
	if len(os.Args) < 2 {
		usage()
	}
	if pf := os.Getenv("VERIF_PROFILE"); pf != "" {
		f, err := os.Create(pf)
		if err == nil {
			pprof.StartCPUProfile(f)
			defer pprof.StopCPUProfile()
		}
	}
	switch os.Args[1] {
	case "list":
		var ids []string
		for id := range props.Registry {
			ids = append(ids, id)
		}
		sort.Strings(ids)
		for _, id := range ids {
			fmt.Println(id, props.Registry[id].Level, "-", props.Registry[id].Technique)
		}
	case "check":
		if len(os.Args) < 3 {
			usage()
		}
		code := check(os.Args[2], os.Args[3:])
		pprof.StopCPUProfile()
		os.Exit(code)
	default:
		if code, ok := extraCommand(os.Args[1], os.Args[2:]); ok {
			os.Exit(code)
		}
		usage()
	}
}

func check(id string, args []string) (code int) {
	tier := os.Getenv("VERIF_TIER")
	noEv, dump := false, false
	for i := 0; i < len(args); i++ {
		switch args[i] {
		case "--tier":
			if i+1 < len(args) {
				tier = args[i+1]
				i++
			}
		case "--no-evidence":
			noEv = true
		case "--dump":
			dump = true
		case "--replay":
			i++ // replay re-runs the whole (deterministic) check and prints the derivation
		}
	}
	if tier != "thorough" {
		tier = "quick"
	}
	start := time.Now()
	p := props.Registry[id]
	if p == nil {
		fmt.Printf("unknown or unclaimed property %s\n", id)
		return 2
	}
	var seed int64
	if s := os.Getenv("VERIF_SEED"); s != "" {
		seed, _ = strconv.ParseInt(s, 10, 64)
	}
	c := props.NewCtx(tier)
	switch id {
	case "C03", "C04", "C05", "C09", "C10", "C20":
		c.QuickArm64 = true
	}
	defer func() {
		if r := recover(); r != nil {
			// a panic in the checker fails the check (fail closed)
			c.Set.Problem("PANIC in checker: %v", r)
			if os.Getenv("VERIF_DEBUG") != "" {
				debug.PrintStack()
			}
			out := report.Decide(id, c.Set, p.Exceptions, nil, p.Floors)
			out.Tier, out.Level, out.Start, out.Seed = tier, p.Level, start, seed
			out.Explanation = p.Explanation
			code = out.Emit(noEv)
			if code == 0 {
				code = 1
			}
		}
	}()
	p.Build(c)
	c.ScopeProblems()
	if dump {
		for _, o := range c.Set.Obls {
			fmt.Printf("OBL %v %s [%s] %s: %s\n", o.OK, o.Key, o.Config, o.Pos, o.Detail)
		}
	}
	known, err := report.LoadKnown(filepath.Join(report.VerifDir(), "known_findings.json"))
	if err != nil {
		c.Set.Problem("known_findings.json: %v", err)
	}
	out := report.Decide(id, c.Set, p.Exceptions, known, p.Floors)
	out.Tier, out.Level, out.Start, out.Seed = tier, p.Level, start, seed
	out.Explanation = p.Explanation
	out.Assumptions = p.Assumptions
	out.TrustedBase = p.TrustedBase
	out.Programs = p.Programs
	out.Extra["configurations"] = c.Inventory()
	out.Extra["technique"] = p.Technique
	if c.Samples != nil {
		out.Samples = c.Samples
	}
	for k, v := range c.Extra {
		out.Extra[k] = v
	}
	if tier == "thorough" && os.Getenv("VERIF_NO_CORPUS") == "" && os.Getenv("VERIF_REPO") == "" {
		if cr := corpusSelfTest(id); cr != nil {
			out.Extra["corpus_self_test"] = cr
			for _, f := range cr.FalseAlarms {
				out.Canary = append(out.Canary, "benign edit reported (checker defect, not a defect of /repo): "+f)
			}
			defer printCorpus(id, cr)
		}
	}
	return out.Emit(noEv)
}
