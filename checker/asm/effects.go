package asm

import "fmt"

// Event is one memory access of an assembly body, in program order.
type Event struct {
	Write bool
	Param int // index of the pointer argument the base register was loaded from
	Word  int // 8-byte word index inside the pointee
	Inst  Inst
}

type Summary struct {
	Func      *Func
	Events    []Event
	Undecided []string
	Mnemonics map[string]int
	NParams   int
}

// straight-line, fixed-latency mnemonics that have a transfer function
var known = map[string]bool{
	// amd64
	"MOVQ": true, "MULQ": true, "IMUL3Q": true, "ADDQ": true, "ADCQ": true,
	"ANDQ": true, "SHLQ": true, "SHRQ": true, "RET": true, "LEAQ": true,
	// arm64
	"MOVD": true, "LDP": true, "STP": true, "AND": true, "ADD": true,
	"LSR": true, "MADD": true,
}

// Summarize derives the ordered memory events of f. Every memory operand must
// be off(reg) with reg holding an unmodified pointer argument loaded from
// name+off(FP); every mnemonic must be in the modelled straight-line set.
func Summarize(f *Func) *Summary {
	s := &Summary{Func: f, Mnemonics: map[string]int{}}
	s.Undecided = append(s.Undecided, f.Undecided...)
	s.NParams = int(f.ArgSize / 8)
	bind := map[string]int{}
	und := func(i Inst, why string) {
		s.Undecided = append(s.Undecided, fmt.Sprintf("%s %s: %s", i.Pos(), i.Text, why))
	}
	sawRet := false
	for _, in := range f.Insts {
		s.Mnemonics[in.Mnemonic]++
		if !known[in.Mnemonic] {
			und(in, "mnemonic has no transfer function (not in the straight-line set)")
			continue
		}
		if sawRet {
			und(in, "instruction after RET")
		}
		if in.Mnemonic == "RET" {
			sawRet = true
			continue
		}
		n := len(in.Ops)
		if n == 0 {
			und(in, "no operands")
			continue
		}
		// shift counts must be immediates (no variable shift by CL)
		if (in.Mnemonic == "SHLQ" || in.Mnemonic == "SHRQ" || in.Mnemonic == "LSR") && in.Ops[0].Kind != Imm {
			und(in, "variable shift count")
		}
		// memory / FP operands
		for k, op := range in.Ops {
			switch op.Kind {
			case MemIdx:
				// base + index*scale + off as arithmetic on integers (LEAQ); never an address into memory
				if in.Mnemonic != "LEAQ" || k != 0 || n != 2 || in.Ops[1].Kind != Reg {
					und(in, "scaled-index operand outside LEAQ arithmetic")
					continue
				}
				if _, isPtr := bind[op.Reg]; isPtr {
					und(in, "LEAQ on a register that holds a pointer argument (address arithmetic)")
				}
				if _, isPtr := bind[op.Reg2]; isPtr {
					und(in, "LEAQ on a register that holds a pointer argument (address arithmetic)")
				}
			case Mem:
				if op.Reg == "SP" {
					// a slot of the function's own frame: private scratch, no effect outside the body
					if op.Off%8 != 0 || op.Off < 0 || op.Off+8 > f.FrameSize {
						und(in, "stack slot outside the declared frame")
					}
					if in.Mnemonic == "LEAQ" {
						und(in, "address of a stack slot taken")
					}
					continue
				}
				if in.Mnemonic == "LEAQ" {
					und(in, "LEAQ of a memory operand (address arithmetic on a pointer)")
					continue
				}
				p, ok := bind[op.Reg]
				if !ok {
					und(in, "memory operand through a register that does not hold a pointer argument")
					continue
				}
				isDst := k == n-1 && n >= 2
				if isDst && !(in.Mnemonic == "MOVQ" || in.Mnemonic == "MOVD" || in.Mnemonic == "STP") {
					und(in, "read-modify-write memory destination")
					continue
				}
				if op.Off%8 != 0 {
					und(in, "unaligned offset")
					continue
				}
				words := 1
				if in.Mnemonic == "LDP" || in.Mnemonic == "STP" {
					words = 2
				}
				for w := 0; w < words; w++ {
					s.Events = append(s.Events, Event{Write: isDst, Param: p, Word: int(op.Off/8) + w, Inst: in})
				}
			case FP:
				if k != 0 || n != 2 || in.Ops[1].Kind != Reg || !(in.Mnemonic == "MOVQ" || in.Mnemonic == "MOVD") {
					und(in, "FP reference outside a pointer-argument load")
				}
				if op.Off%8 != 0 || op.Off < 0 || op.Off >= f.ArgSize {
					und(in, "FP offset outside the argument frame")
				}
			case Sym:
				und(in, "reference to a global symbol")
			case Unknown:
				// already recorded by the parser
			}
		}
		// register writes: destination is the last operand
		dst := in.Ops[n-1]
		var written []string
		switch dst.Kind {
		case Reg:
			written = append(written, dst.Reg)
		case RegPair:
			if in.Mnemonic == "LDP" {
				written = append(written, dst.Reg, dst.Reg2)
			}
		}
		if in.Mnemonic == "MULQ" {
			written = []string{"AX", "DX"}
		}
		for _, r := range written {
			delete(bind, r)
		}
		if in.Ops[0].Kind == FP && n == 2 && dst.Kind == Reg {
			bind[dst.Reg] = int(in.Ops[0].Off / 8)
		}
	}
	if !sawRet {
		s.Undecided = append(s.Undecided, fmt.Sprintf("%s:%d %s: no RET", f.File, f.Line, f.Name))
	}
	return s
}
