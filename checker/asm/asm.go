// Package asm is a front end for the subset of the Go assembler used by
// filippo.io/edwards25519/field: straight-line TEXT bodies whose operands are
// registers, immediates, off(reg) memory references, name+off(FP) argument
// references, arm64 shifted registers (Rn>>k) and register pairs.
// Anything else is reported as Undecided and fails the check that needs it.
package asm

import (
	"fmt"
	"os"
	"strconv"
	"strings"
)

type OpKind int

const (
	Reg OpKind = iota
	Imm
	Mem      // Off(Reg)
	FP       // Name+Off(FP)
	RegShift // Reg>>Imm or Reg<<Imm
	RegPair  // (Reg, Reg2)
	Sym      // name(SB) and anything symbolic
	MemIdx   // Off(Reg)(Reg2*Imm): scaled-index address expression (LEAQ arithmetic only)
	Unknown
)

type Operand struct {
	Kind  OpKind
	Reg   string
	Reg2  string
	Imm   uint64
	Off   int64
	Name  string
	Shift string // ">>" or "<<"
	Text  string
}

func (o Operand) String() string { return o.Text }

type Inst struct {
	Mnemonic string
	Ops      []Operand
	File     string
	Line     int
	Text     string
}

func (i Inst) Pos() string { return fmt.Sprintf("%s:%d", i.File, i.Line) }

type Func struct {
	Name      string
	Flags     string
	FrameSize int64
	ArgSize   int64
	Insts     []Inst
	File      string
	Line      int
	Undecided []string
}

type File struct {
	Path        string
	Constraints []string // //go:build lines
	Funcs       []*Func
	Undecided   []string // file-level constructs outside any TEXT (GLOBL/DATA: static data)
}

func ParseFile(path string) (*File, error) {
	data, err := os.ReadFile(path)
	if err != nil {
		return nil, err
	}
	f := &File{Path: path}
	var cur *Func
	for n, raw := range strings.Split(string(data), "\n") {
		line := raw
		if i := strings.Index(line, "//"); i >= 0 {
			c := strings.TrimSpace(line[i:])
			if strings.HasPrefix(c, "//go:build ") {
				f.Constraints = append(f.Constraints, strings.TrimPrefix(c, "//go:build "))
			}
			line = line[:i]
		}
		line = strings.TrimSpace(line)
		if line == "" || strings.HasPrefix(line, "#include") {
			continue
		}
		if strings.HasPrefix(line, "#") {
			if cur != nil {
				cur.Undecided = append(cur.Undecided, fmt.Sprintf("%s:%d preprocessor directive %q", path, n+1, line))
			}
			continue
		}
		if strings.HasPrefix(line, "TEXT") {
			cur = &Func{File: path, Line: n + 1}
			f.Funcs = append(f.Funcs, cur)
			rest := strings.TrimSpace(strings.TrimPrefix(line, "TEXT"))
			parts := splitOperands(rest)
			if len(parts) < 2 {
				cur.Undecided = append(cur.Undecided, fmt.Sprintf("%s:%d malformed TEXT %q", path, n+1, line))
				continue
			}
			name := parts[0]
			name = strings.TrimSuffix(name, "(SB)")
			name = strings.TrimPrefix(name, "·")
			name = strings.TrimPrefix(name, "·")
			cur.Name = name
			sz := parts[len(parts)-1]
			if len(parts) == 3 {
				cur.Flags = parts[1]
			}
			sz = strings.TrimPrefix(sz, "$")
			fa := strings.SplitN(sz, "-", 2)
			cur.FrameSize, _ = strconv.ParseInt(fa[0], 0, 64)
			if len(fa) == 2 {
				cur.ArgSize, _ = strconv.ParseInt(fa[1], 0, 64)
			}
			continue
		}
		if cur == nil {
			f.Undecided = append(f.Undecided, fmt.Sprintf("%s:%d %q outside any TEXT (static data shared by every call is not modelled)", path, n+1, line))
			continue
		}
		if strings.HasSuffix(line, ":") {
			cur.Undecided = append(cur.Undecided, fmt.Sprintf("%s:%d label %q (control flow not modelled)", path, n+1, line))
			continue
		}
		fields := strings.Fields(line)
		inst := Inst{Mnemonic: fields[0], File: path, Line: n + 1, Text: line}
		rest := strings.TrimSpace(line[len(fields[0]):])
		if rest != "" {
			for _, p := range splitOperands(rest) {
				op := parseOperand(p)
				if op.Kind == Unknown {
					cur.Undecided = append(cur.Undecided, fmt.Sprintf("%s:%d operand %q of %s", path, n+1, p, inst.Mnemonic))
				}
				inst.Ops = append(inst.Ops, op)
			}
		}
		cur.Insts = append(cur.Insts, inst)
	}
	return f, nil
}

// splitOperands splits on commas not inside parentheses.
func splitOperands(s string) []string {
	var out []string
	depth := 0
	start := 0
	for i, r := range s {
		switch r {
		case '(':
			depth++
		case ')':
			depth--
		case ',':
			if depth == 0 {
				out = append(out, strings.TrimSpace(s[start:i]))
				start = i + 1
			}
		}
	}
	out = append(out, strings.TrimSpace(s[start:]))
	return out
}

func isRegName(s string) bool {
	if s == "" {
		return false
	}
	switch s {
	case "AX", "BX", "CX", "DX", "SI", "DI", "BP", "SP":
		return true
	}
	if s[0] == 'R' && len(s) >= 2 {
		_, err := strconv.Atoi(s[1:])
		return err == nil
	}
	return false
}

func parseOperand(p string) Operand {
	o := Operand{Text: p, Kind: Unknown}
	switch {
	case strings.HasPrefix(p, "$"):
		v, err := strconv.ParseUint(p[1:], 0, 64)
		if err != nil {
			// negative immediates
			iv, err2 := strconv.ParseInt(p[1:], 0, 64)
			if err2 != nil {
				return o
			}
			v = uint64(iv)
		}
		o.Kind, o.Imm = Imm, v
	case strings.HasSuffix(p, "(FP)"):
		body := strings.TrimSuffix(p, "(FP)")
		i := strings.LastIndexAny(body, "+-")
		if i <= 0 {
			return o
		}
		off, err := strconv.ParseInt(body[i:], 0, 64)
		if err != nil {
			return o
		}
		o.Kind, o.Name, o.Off = FP, body[:i], off
	case strings.HasSuffix(p, "(SB)"):
		o.Kind, o.Name = Sym, strings.TrimSuffix(p, "(SB)")
	case strings.HasPrefix(p, "(") && strings.HasSuffix(p, ")") && strings.Contains(p, ","):
		in := strings.Split(p[1:len(p)-1], ",")
		if len(in) != 2 {
			return o
		}
		a, b := strings.TrimSpace(in[0]), strings.TrimSpace(in[1])
		if !isRegName(a) || !isRegName(b) {
			return o
		}
		o.Kind, o.Reg, o.Reg2 = RegPair, a, b
	case strings.HasSuffix(p, ")") && strings.Count(p, "(") == 2 && strings.Contains(p, "*"):
		// off(base)(index*scale)
		i := strings.Index(p, "(")
		j := strings.Index(p, ")(")
		if i < 0 || j < i {
			return o
		}
		base := p[i+1 : j]
		idx := strings.Split(p[j+2:len(p)-1], "*")
		if len(idx) != 2 || !isRegName(base) || !isRegName(idx[0]) {
			return o
		}
		sc, err := strconv.ParseUint(idx[1], 0, 64)
		if err != nil || (sc != 1 && sc != 2 && sc != 4 && sc != 8) {
			return o
		}
		var off int64
		if i > 0 {
			off, err = strconv.ParseInt(p[:i], 0, 64)
			if err != nil {
				return o
			}
		}
		o.Kind, o.Reg, o.Reg2, o.Imm, o.Off = MemIdx, base, idx[0], sc, off
	case strings.HasSuffix(p, ")"):
		i := strings.Index(p, "(")
		if i < 0 {
			return o
		}
		reg := p[i+1 : len(p)-1]
		if !isRegName(reg) {
			return o
		}
		var off int64
		if i > 0 {
			var err error
			off, err = strconv.ParseInt(p[:i], 0, 64)
			if err != nil {
				return o
			}
		}
		o.Kind, o.Reg, o.Off = Mem, reg, off
	case strings.Contains(p, ">>") || strings.Contains(p, "<<"):
		sh := ">>"
		if strings.Contains(p, "<<") {
			sh = "<<"
		}
		parts := strings.SplitN(p, sh, 2)
		if !isRegName(parts[0]) {
			return o
		}
		v, err := strconv.ParseUint(parts[1], 0, 64)
		if err != nil {
			return o
		}
		o.Kind, o.Reg, o.Shift, o.Imm = RegShift, parts[0], sh, v
	case isRegName(p):
		o.Kind, o.Reg = Reg, p
	}
	return o
}
