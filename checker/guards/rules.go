package guards

import (
	"fmt"
	"go/constant"
	"go/token"
	"go/types"
	"sort"
	"strings"

	"golang.org/x/tools/go/ssa"

	"verif/checker/effects"
	"verif/checker/load"
	"verif/checker/report"
)

type Engine struct {
	P        *load.Program
	A        *effects.Analysis
	Guard    *ssa.Function // checkInitialized
	cdg      map[*ssa.Function]*CDG
	gmemo    map[gkey]int // 0 unknown, 1 computing, 2 true, 3 false
	cmemo    map[gkey]int
	Problems []string
}

type gkey struct {
	f *ssa.Function
	r effects.Root
}

func New(a *effects.Analysis) *Engine {
	e := &Engine{P: a.P, A: a, cdg: map[*ssa.Function]*CDG{}, gmemo: map[gkey]int{}, cmemo: map[gkey]int{}}
	e.Guard = a.P.ByName["checkInitialized"]
	if e.Guard == nil {
		e.Problems = append(e.Problems, "ANCHOR checkInitialized not found in package edwards25519")
	}
	return e
}

func (e *Engine) CDG(f *ssa.Function) *CDG {
	if c, ok := e.cdg[f]; ok {
		return c
	}
	c := NewCDG(f)
	e.cdg[f] = c
	return c
}

func (e *Engine) cfg() string { return e.P.Config.Name }

func isPointPtr(t types.Type) bool {
	p, ok := t.Underlying().(*types.Pointer)
	if !ok {
		return false
	}
	n, ok := p.Elem().(*types.Named)
	return ok && n.Obj().Name() == "Point" && n.Obj().Pkg() != nil && n.Obj().Pkg().Path() == load.RootPath
}

// pointRoots lists the Point-typed positions of f: *Point params (receiver
// included) and the elements of []*Point params.
func pointRoots(f *ssa.Function) []effects.Root {
	var out []effects.Root
	for i, p := range f.Params {
		if isPointPtr(p.Type()) {
			out = append(out, effects.Root{Kind: effects.KParam, Index: i})
		} else if s, ok := p.Type().Underlying().(*types.Slice); ok && isPointPtr(s.Elem()) {
			out = append(out, effects.Root{Kind: effects.KElem, Index: i})
		}
	}
	return out
}

func dominates(x, y ssa.Instruction) bool {
	bx, by := x.Block(), y.Block()
	if bx == by {
		for _, in := range bx.Instrs {
			if in == x {
				return x != y
			}
			if in == y {
				return false
			}
		}
		return false
	}
	return bx.Dominates(by)
}

// calleeRootsFor returns the callee roots that map to caller root r at call c.
func (e *Engine) calleeRootsFor(fi *effects.FuncInfo, c *ssa.Call, h *ssa.Function, r effects.Root) []effects.Root {
	var out []effects.Root
	for _, hr := range pointRoots(h) {
		for _, l := range fi.Translate(c, effects.Loc{Root: hr}) {
			if l.Root == r && l.Path == "" {
				out = append(out, hr)
			}
		}
	}
	return out
}

// guardsOf returns the instructions in f that act as guards for root r:
// checkInitialized calls covering r and calls of functions that always check
// the corresponding position.
func (e *Engine) guardsOf(f *ssa.Function, r effects.Root) []ssa.Instruction {
	fi := e.A.Info[f]
	var out []ssa.Instruction
	for _, b := range f.Blocks {
		for _, in := range b.Instrs {
			c, ok := in.(*ssa.Call)
			if !ok {
				continue
			}
			h := c.Common().StaticCallee()
			if h == nil || !e.P.InRepo(h) {
				continue
			}
			if h == e.Guard {
				if e.guardCovers(fi, c, r) {
					out = append(out, in)
				}
				continue
			}
			for _, hr := range e.calleeRootsFor(fi, c, h, r) {
				if e.Checks(h, hr) {
					out = append(out, in)
					break
				}
			}
		}
	}
	return out
}

// guardCovers: does this checkInitialized call definitely inspect position r?
// Either the whole parameter slice is passed (points...), covering every
// element, or a varargs array whose slots each hold exactly one known pointer.
func (e *Engine) guardCovers(fi *effects.FuncInfo, c *ssa.Call, r effects.Root) bool {
	arg := c.Common().Args[0]
	if p, ok := arg.(*ssa.Parameter); ok {
		for i, q := range fi.Fn.Params {
			if q == p {
				return r == effects.Root{Kind: effects.KElem, Index: i}
			}
		}
		return false
	}
	sl, ok := arg.(*ssa.Slice)
	if !ok || sl.Low != nil || sl.High != nil {
		return false
	}
	al, ok := sl.X.(*ssa.Alloc)
	if !ok || al.Comment != "varargs" {
		return false
	}
	// every store into the varargs array stores one definite pointer
	for _, ref := range *al.Referrers() {
		ia, ok := ref.(*ssa.IndexAddr)
		if !ok {
			continue
		}
		for _, ref2 := range *ia.Referrers() {
			st, ok := ref2.(*ssa.Store)
			if !ok || st.Addr != ssa.Value(ia) {
				continue
			}
			pvs := fi.PtsOf(st.Val)
			if len(pvs) == 1 && pvs[0].Loc.Root == r && pvs[0].Loc.Path == "" && r.Kind == effects.KParam {
				return true
			}
		}
	}
	return false
}

// Checks: f applies the guard to r on every path to a normal return.
func (e *Engine) Checks(f *ssa.Function, r effects.Root) bool {
	k := gkey{f, r}
	switch e.cmemo[k] {
	case 1, 3:
		return false
	case 2:
		return true
	}
	e.cmemo[k] = 1
	gs := e.guardsOf(f, r)
	ok := len(gs) > 0
	for _, rs := range e.A.Info[f].Sum.Returns {
		d := false
		for _, g := range gs {
			if rs.Instr != nil && dominates(g, rs.Instr) {
				d = true
			}
		}
		if !d {
			ok = false
		}
	}
	if ok {
		e.cmemo[k] = 2
	} else {
		e.cmemo[k] = 3
	}
	return ok
}

type unguarded struct {
	ev  effects.Event
	why string
}

// Unguarded returns the initial-value reads of r in f that no guard dominates.
func (e *Engine) Unguarded(f *ssa.Function, r effects.Root) []unguarded {
	fi := e.A.Info[f]
	gs := e.guardsOf(f, r)
	var out []unguarded
	seen := map[ssa.Instruction]bool{}
	for _, b := range f.Blocks {
		for _, in := range b.Instrs {
			for _, ev := range fi.Events[in] {
				if ev.Op != effects.OpReadInit || ev.Loc.Root != r || seen[in] {
					continue
				}
				// only reads of the incoming value count
				if !fi.Sum.ReadsInitial.Has(ev.Loc) {
					continue
				}
				ok := false
				for _, g := range gs {
					if dominates(g, in) {
						ok = true
					}
				}
				if !ok && ev.Via != nil {
					if c, isCall := in.(*ssa.Call); isCall {
						h := c.Common().StaticCallee()
						if h != nil && h != e.Guard && e.P.InRepo(h) {
							hrs := e.calleeRootsFor(fi, c, h, r)
							all := len(hrs) > 0
							for _, hr := range hrs {
								if e.A.Info[h].Sum.ReadsInitial.HasRoot(hr) && !e.Guarded(h, hr) {
									all = false
								}
							}
							ok = all
						}
						if h == e.Guard {
							ok = true // the guard's own inspection of x and y
						}
					}
				}
				if !ok {
					seen[in] = true
					out = append(out, unguarded{ev: ev})
				}
			}
		}
	}
	return out
}

func (e *Engine) Guarded(f *ssa.Function, r effects.Root) bool {
	k := gkey{f, r}
	switch e.gmemo[k] {
	case 1:
		return false
	case 2:
		return true
	case 3:
		return false
	}
	e.gmemo[k] = 1
	ok := len(e.Unguarded(f, r)) == 0
	if ok {
		e.gmemo[k] = 2
	} else {
		e.gmemo[k] = 3
	}
	return ok
}

// readsBeyondGuard: is the incoming value of r read by anything other than
// checkInitialized's own inspection?
func (e *Engine) readsBeyondGuard(f *ssa.Function, r effects.Root, depth int) bool {
	fi := e.A.Info[f]
	if !fi.Sum.ReadsInitial.HasRoot(r) {
		return false
	}
	if depth > 10 {
		return true
	}
	for _, b := range f.Blocks {
		for _, in := range b.Instrs {
			for _, ev := range fi.Events[in] {
				if ev.Op != effects.OpReadInit || ev.Loc.Root != r || !fi.Sum.ReadsInitial.Has(ev.Loc) {
					continue
				}
				if ev.Via == nil {
					return true
				}
				c, ok := in.(*ssa.Call)
				if !ok {
					return true
				}
				h := c.Common().StaticCallee()
				if h == e.Guard {
					continue
				}
				if h == nil || !e.P.InRepo(h) {
					return true
				}
				hrs := e.calleeRootsFor(fi, c, h, r)
				if len(hrs) == 0 {
					return true // interior or non-Point position: a real read
				}
				for _, hr := range hrs {
					if e.readsBeyondGuard(h, hr, depth+1) {
						return true
					}
				}
			}
		}
	}
	return false
}

func rootName(f *ssa.Function, r effects.Root) string {
	n := f.Params[r.Index].Name()
	if r.Kind == effects.KElem {
		return n + "[i]"
	}
	return n
}

// GInit: every Point-typed input position of every API root is guarded;
// pure receivers are not.
func (e *Engine) GInit() []report.Obligation {
	var out []report.Obligation
	if e.Guard == nil {
		return out
	}
	for _, f := range e.P.APIRoots() {
		fi := e.A.Info[f]
		for _, r := range pointRoots(f) {
			name := rootName(f, r)
			isInput := e.readsBeyondGuard(f, r, 0)
			if isInput {
				o := report.Obligation{Rule: "G-INIT", Key: "G-INIT/" + load.ShortName(f) + "/" + name, Config: e.cfg(), Pos: e.P.Rel(f.Pos()), OK: true,
					Detail: "every read of this Point input is dominated by checkInitialized on it"}
				if load.ShortName(f) == "(*Point).Set" {
					o.Detail = "plain copy: exempt by the property (\"plain copying (Set) is exempt\")"
					o.Exception = "Set is exempt by the property statement"
					out = append(out, o)
					continue
				}
				if !e.Checks(f, r) {
					o.OK = false
					o.Detail = "some path reaches a normal return without checkInitialized having been applied to " + name + ": a zero-value Point is accepted as input on that path"
					for _, rs := range fi.Sum.Returns {
						d := false
						for _, g := range e.guardsOf(f, r) {
							if rs.Instr != nil && dominates(g, rs.Instr) {
								d = true
							}
						}
						if !d && rs.Instr != nil {
							o.Pos = e.P.Rel(rs.Instr.Pos())
						}
					}
				}
				if ug := e.Unguarded(f, r); len(ug) > 0 {
					o.OK = false
					o.Pos = e.P.Rel(ug[0].ev.Instr.Pos())
					var ds []string
					for i, u := range ug {
						if i < 3 {
							ds = append(ds, fi.EventString(u.ev))
						}
					}
					o.Detail = fmt.Sprintf("Point input %s is read without a dominating checkInitialized (%d unguarded reads; first: %s)", name, len(ug), strings.Join(ds, "; "))
				}
				out = append(out, o)
			} else {
				o := report.Obligation{Rule: "G-PURE", Key: "G-PURE/" + load.ShortName(f) + "/" + name, Config: e.cfg(), Pos: e.P.Rel(f.Pos()), OK: true,
					Detail: "pure receiver: its incoming value is never read and no guard is applied to it (a zero-value Point is acceptable)"}
				if gs := e.guardsOf(f, r); len(gs) > 0 {
					o.OK = false
					o.Pos = e.P.Rel(gs[0].Pos())
					o.Detail = "checkInitialized is applied to " + name + " although its incoming value is never read: a zero-value receiver would panic"
				}
				out = append(out, o)
			}
		}
	}
	return out
}

// ---- G-GUARD -------------------------------------------------------------------

func isZeroAggregate(v ssa.Value) bool {
	c, ok := v.(*ssa.Const)
	return ok && c.Value == nil
}

// GGuard checks the body of checkInitialized.
func (e *Engine) GGuard() []report.Obligation {
	o := report.Obligation{Rule: "G-GUARD", Key: "G-GUARD/checkInitialized", Config: e.cfg(), OK: false}
	f := e.Guard
	if f == nil {
		o.Detail = "ANCHOR checkInitialized not found"
		return []report.Obligation{o}
	}
	o.Pos = e.P.Rel(f.Pos())
	fail := func(format string, a ...interface{}) []report.Obligation {
		o.Detail = fmt.Sprintf(format, a...)
		return []report.Obligation{o}
	}
	if len(f.Params) != 1 {
		return fail("expected one variadic parameter")
	}
	sl, ok := f.Params[0].Type().Underlying().(*types.Slice)
	if !ok || !isPointPtr(sl.Elem()) {
		return fail("parameter is not ...*Point")
	}
	cdg := e.CDG(f)
	var panics []*ssa.Panic
	var rets []*ssa.Return
	for _, b := range f.Blocks {
		for _, in := range b.Instrs {
			switch x := in.(type) {
			case *ssa.Panic:
				panics = append(panics, x)
			case *ssa.Return:
				rets = append(rets, x)
			}
		}
	}
	if len(panics) != 1 || len(rets) != 1 {
		return fail("expected exactly one panic and one return, found %d and %d (an extra exit skips elements)", len(panics), len(rets))
	}
	isOrdering := func(i *ssa.If) bool {
		bo, ok := i.Cond.(*ssa.BinOp)
		return ok && (bo.Op == token.LSS || bo.Op == token.GTR || bo.Op == token.LEQ || bo.Op == token.GEQ)
	}
	// conditions deciding the panic within one iteration: do not expand through the loop condition
	deps := cdg.ClosureUntil(panics[0].Block(), isOrdering)
	var loopIf *ssa.If
	fields := map[string]bool{}
	var elemPtr ssa.Value
	for _, d := range deps {
		bo, ok := d.If.Cond.(*ssa.BinOp)
		if !ok {
			return fail("panic depends on a condition that is not a comparison: %s", d.If.Cond)
		}
		switch bo.Op {
		case token.LSS, token.GTR, token.LEQ, token.GEQ:
			if loopIf != nil {
				return fail("panic depends on more than one ordering comparison")
			}
			loopIf = d.If
			if !d.True {
				return fail("panic is on the out-of-range side of the loop condition")
			}
		case token.EQL, token.NEQ:
			wantTrue := bo.Op == token.EQL
			if d.True != wantTrue {
				return fail("panic is reached when a coordinate is NOT the zero value (%s)", e.P.Rel(bo.Pos()))
			}
			x, y := bo.X, bo.Y
			if isZeroAggregate(x) {
				x, y = y, x
			}
			if !isZeroAggregate(y) {
				return fail("comparison %s is not against the zero field.Element", e.P.Rel(bo.Pos()))
			}
			ld, ok := x.(*ssa.UnOp)
			if !ok || ld.Op != token.MUL {
				return fail("comparison operand is not a load")
			}
			fa, ok := ld.X.(*ssa.FieldAddr)
			if !ok {
				return fail("comparison operand is not a field of a Point")
			}
			fields[load.FieldName(fa.X.Type().Underlying().(*types.Pointer).Elem(), fa.Field)] = true
			if elemPtr == nil {
				elemPtr = fa.X
			} else if elemPtr != fa.X {
				return fail("the two comparisons inspect different points")
			}
		default:
			return fail("panic depends on an unexpected condition %s", bo)
		}
	}
	if len(fields) != 2 || !fields["x"] || !fields["y"] {
		var fs []string
		for k := range fields {
			fs = append(fs, k)
		}
		sort.Strings(fs)
		return fail("panic must depend on exactly x == zero and y == zero of the element; it depends on {%s}", strings.Join(fs, ","))
	}
	if loopIf == nil {
		return fail("no loop over the elements")
	}
	// element pointer = load of &points[idx]
	ld, ok := elemPtr.(*ssa.UnOp)
	if !ok || ld.Op != token.MUL {
		return fail("inspected point is not an element of the parameter slice")
	}
	ia, ok := ld.X.(*ssa.IndexAddr)
	if !ok || ia.X != ssa.Value(f.Params[0]) {
		return fail("inspected point is not an element of the parameter slice")
	}
	idx := ia.Index
	// loop condition: idx < len(points), with idx an induction variable 0,1,2,…
	lc := loopIf.Cond.(*ssa.BinOp)
	cx, cy := lc.X, lc.Y
	if lc.Op == token.GTR {
		cx, cy = cy, cx
	} else if lc.Op != token.LSS {
		return fail("loop condition is not idx < len(points)")
	}
	lenCall, ok := cy.(*ssa.Call)
	if !ok {
		return fail("loop bound is not len(points)")
	}
	if b, ok := lenCall.Common().Value.(*ssa.Builtin); !ok || b.Name() != "len" || lenCall.Common().Args[0] != ssa.Value(f.Params[0]) {
		return fail("loop bound is not len(points)")
	}
	if cx != idx {
		return fail("the index compared with len(points) is not the index used to fetch the element")
	}
	// idx is phi(0, idx+1) or (phi(-1, idx))+1
	start, step, ok2 := induction(idx)
	if !ok2 {
		return fail("element index is not an induction variable")
	}
	if start != 0 || step != 1 {
		return fail("loop visits indices starting at %d in steps of %d, not 0,1,2,…", start, step)
	}
	// the return depends only on the loop condition (false side)
	for _, d := range cdg.ClosureUntil(rets[0].Block(), isOrdering) {
		if d.If != loopIf {
			return fail("the normal return depends on a condition other than the end of the loop (%s): some elements can be skipped", e.P.Rel(d.If.Cond.Pos()))
		}
	}
	// every path from a non-panicking element check goes back to the loop header (no early exit)
	o.OK = true
	o.Detail = "loop visits indices 0..len-1 in steps of 1; panic is control-dependent exactly on x == zero ∧ y == zero of that element; the only other exit is the end of the loop"
	return []report.Obligation{o}
}

// phiParts splits a phi into its single constant edge and the single value
// shared by all its other edges.
func phiParts(ph *ssa.Phi) (c *ssa.Const, other ssa.Value, ok bool) {
	for _, e := range ph.Edges {
		if k, isC := e.(*ssa.Const); isC && k.Value != nil {
			if c != nil && !constant.Compare(c.Value, token.EQL, k.Value) {
				return nil, nil, false
			}
			c = k
			continue
		}
		if other != nil && other != e {
			return nil, nil, false
		}
		other = e
	}
	return c, other, c != nil && other != nil
}

// induction recognises v as an induction variable: returns (first value, step).
func induction(v ssa.Value) (int64, int64, bool) {
	// form A: v = phi(c, v + s)
	if ph, ok := v.(*ssa.Phi); ok {
		if c, other, ok := phiParts(ph); ok {
			if inc, ok := other.(*ssa.BinOp); ok && inc.Op == token.ADD && inc.X == ssa.Value(ph) {
				if s, ok := inc.Y.(*ssa.Const); ok && s.Value != nil {
					c0, _ := constant.Int64Val(c.Value)
					s0, _ := constant.Int64Val(s.Value)
					return c0, s0, true
				}
			}
		}
	}
	// form B: v = phi(c, v) + s   (range loops)
	if inc, ok := v.(*ssa.BinOp); ok && inc.Op == token.ADD {
		ph, ok := inc.X.(*ssa.Phi)
		s, ok2 := inc.Y.(*ssa.Const)
		if ok && ok2 && s.Value != nil {
			if c, other, ok := phiParts(ph); ok && other == ssa.Value(inc) {
				c0, _ := constant.Int64Val(c.Value)
				s0, _ := constant.Int64Val(s.Value)
				return c0 + s0, s0, true
			}
		}
	}
	return 0, 0, false
}

// ---- G-LEN -----------------------------------------------------------------------

func (e *Engine) GLen() []report.Obligation {
	var out []report.Obligation
	for _, f := range e.P.APIRoots() {
		var si, pi = -1, -1
		for i, p := range f.Params {
			if s, ok := p.Type().Underlying().(*types.Slice); ok {
				if isPointPtr(s.Elem()) {
					pi = i
				} else if pe, ok := s.Elem().Underlying().(*types.Pointer); ok {
					if n, ok := pe.Elem().(*types.Named); ok && n.Obj().Name() == "Scalar" {
						si = i
					}
				}
			}
		}
		if si < 0 || pi < 0 {
			continue
		}
		o := report.Obligation{Rule: "G-LEN", Key: "G-LEN/" + load.ShortName(f), Config: e.cfg(), Pos: e.P.Rel(f.Pos()), OK: false}
		sp, pp := ssa.Value(f.Params[si]), ssa.Value(f.Params[pi])
		isLenOf := func(v ssa.Value, p ssa.Value) bool {
			c, ok := v.(*ssa.Call)
			if !ok {
				return false
			}
			b, ok := c.Common().Value.(*ssa.Builtin)
			return ok && b.Name() == "len" && c.Common().Args[0] == p
		}
		var guardIf *ssa.If
		var okSucc *ssa.BasicBlock
		var lenCalls = map[ssa.Instruction]bool{}
		for _, b := range f.Blocks {
			ifi, ok := b.Instrs[len(b.Instrs)-1].(*ssa.If)
			if !ok {
				continue
			}
			bo, ok := ifi.Cond.(*ssa.BinOp)
			if !ok || (bo.Op != token.NEQ && bo.Op != token.EQL) {
				continue
			}
			if !((isLenOf(bo.X, sp) && isLenOf(bo.Y, pp)) || (isLenOf(bo.X, pp) && isLenOf(bo.Y, sp))) {
				continue
			}
			neSide := 0
			if bo.Op == token.EQL {
				neSide = 1
			}
			ne := b.Succs[neSide]
			if _, isPanic := ne.Instrs[len(ne.Instrs)-1].(*ssa.Panic); !isPanic {
				continue
			}
			guardIf = ifi
			okSucc = b.Succs[1-neSide]
			lenCalls[bo.X.(ssa.Instruction)] = true
			lenCalls[bo.Y.(ssa.Instruction)] = true
		}
		if guardIf == nil {
			o.Detail = "no comparison of len(scalars) with len(points) whose unequal side panics"
			out = append(out, o)
			continue
		}
		o.OK = true
		o.Detail = "len(scalars) != len(points) panics before either slice is otherwise touched"
		for _, p := range []ssa.Value{sp, pp} {
			for _, ref := range *p.Referrers() {
				if lenCalls[ref] {
					continue
				}
				if !(ref.Block() == okSucc || okSucc.Dominates(ref.Block())) {
					o.OK = false
					o.Pos = e.P.Rel(ref.Pos())
					o.Detail = "a slice is used before (or without) the length check: " + ref.String()
				}
			}
		}
		out = append(out, o)
	}
	return out
}

// ---- G-ACCEPT ----------------------------------------------------------------------

// classify renders the condition under which an error site is taken.
func (e *Engine) classify(f *ssa.Function, d CtrlDep, depth int) []string {
	cond := d.If.Cond
	neg := !d.True // error taken when cond is false
	for {
		u, ok := cond.(*ssa.UnOp)
		if ok && u.Op == token.NOT {
			cond = u.X
			neg = !neg
			continue
		}
		break
	}
	lenOfParam := func(v ssa.Value) (string, bool) {
		c, ok := v.(*ssa.Call)
		if !ok {
			return "", false
		}
		b, ok := c.Common().Value.(*ssa.Builtin)
		if !ok || b.Name() != "len" {
			return "", false
		}
		if p, ok := c.Common().Args[0].(*ssa.Parameter); ok {
			return "len(" + p.Name() + ")", true
		}
		// len of something derived from a fixed-size local: constant
		return "len(local)", true
	}
	callResult := func(v ssa.Value) (*ssa.Function, int, bool) {
		switch x := v.(type) {
		case *ssa.Call:
			if h := x.Common().StaticCallee(); h != nil {
				g, j := e.P.ResultOrigin(h, 0)
				return g, j, true
			}
		case *ssa.Extract:
			if c, ok := x.Tuple.(*ssa.Call); ok {
				if h := c.Common().StaticCallee(); h != nil {
					g, j := e.P.ResultOrigin(h, x.Index)
					return g, j, true
				}
			}
		}
		return nil, 0, false
	}
	if bo, ok := cond.(*ssa.BinOp); ok {
		op := bo.Op
		if neg {
			switch op {
			case token.EQL:
				op = token.NEQ
			case token.NEQ:
				op = token.EQL
			case token.LSS:
				op = token.GEQ
			case token.GEQ:
				op = token.LSS
			case token.GTR:
				op = token.LEQ
			case token.LEQ:
				op = token.GTR
			}
		}
		x, y := bo.X, bo.Y
		if _, isC := x.(*ssa.Const); isC {
			x, y = y, x
			switch op {
			case token.LSS:
				op = token.GTR
			case token.GTR:
				op = token.LSS
			case token.LEQ:
				op = token.GEQ
			case token.GEQ:
				op = token.LEQ
			}
		}
		if c, ok := y.(*ssa.Const); ok {
			cs := "nil"
			if c.Value != nil {
				cs = c.Value.ExactString()
			}
			if l, ok := lenOfParam(x); ok {
				return []string{fmt.Sprintf("LEN[%s %s %s]", l, op, cs)}
			}
			if h, k, ok := callResult(x); ok {
				if isErr(x.Type()) && c.Value == nil && op == token.NEQ && e.P.InRepo(h) && depth < 6 {
					// error propagated from a callee: inherit its error-site classes
					return e.errorClasses(h, depth+1)
				}
				return []string{fmt.Sprintf("PRED[%s#%d %s %s]", load.ShortName(h), k, op, cs)}
			}
		}
		return []string{"OTHER[" + e.P.Rel(bo.Pos()) + " " + bo.String() + "]"}
	}
	if h, k, ok := callResult(cond); ok {
		return []string{fmt.Sprintf("PRED[%s#%d == %v]", load.ShortName(h), k, !neg)}
	}
	return []string{"OTHER[" + cond.String() + "]"}
}

func isErr(t types.Type) bool {
	return types.Identical(t, types.Universe.Lookup("error").Type())
}

// errorClasses returns the sorted set of condition classes controlling the
// error sites of f. Each error site is the conjunction of its controlling
// branches; a literal that is the negation of another site's whole (single
// literal) condition only says "the earlier check passed" and is dropped.
func (e *Engine) errorClasses(f *ssa.Function, depth int) []string {
	set := map[string]bool{}
	fi := e.A.Info[f]
	if fi == nil {
		return nil
	}
	cdg := e.CDG(f)
	type site struct {
		lits []CtrlDep
		fwd  *ssa.Function
	}
	var sites []site
	for _, rs := range fi.Sum.Returns {
		if rs.Forwarded != nil && depth < 6 {
			sites = append(sites, site{lits: cdg.Closure(rs.Instr.Block()), fwd: rs.Forwarded})
			continue
		}
		if rs.Err != 1 {
			continue
		}
		sites = append(sites, site{lits: cdg.Closure(rs.Instr.Block())})
	}
	// iterate: a site whose remaining condition is a single literal makes the
	// negation of that literal redundant in the other sites
	single := map[CtrlDep]bool{}
	for changed := true; changed; {
		changed = false
		for i := range sites {
			var rest []CtrlDep
			for _, d := range sites[i].lits {
				if !single[CtrlDep{If: d.If, True: !d.True}] {
					rest = append(rest, d)
				}
			}
			if len(rest) != len(sites[i].lits) {
				sites[i].lits = rest
				changed = true
			}
			if len(rest) == 1 && sites[i].fwd == nil && !single[rest[0]] {
				single[rest[0]] = true
				changed = true
			}
		}
	}
	for _, s := range sites {
		var conj []string
		for _, d := range s.lits {
			cs := e.classify(f, d, depth)
			conj = append(conj, strings.Join(cs, " ∨ "))
		}
		sort.Strings(conj)
		if s.fwd != nil {
			for _, c := range e.errorClasses(s.fwd, depth+1) {
				all := append(append([]string{}, conj...), "via "+load.ShortName(s.fwd)+": "+c)
				set[strings.Join(all, " ∧ ")] = true
			}
			continue
		}
		if len(conj) == 0 {
			set["ALWAYS"] = true
			continue
		}
		set[strings.Join(conj, " ∧ ")] = true
	}
	var out []string
	for c := range set {
		out = append(out, c)
	}
	sort.Strings(out)
	return out
}

// GAccept compares the accept/reject structure of a decoder with the expected set.
func (e *Engine) GAccept(fname string, want []string) report.Obligation {
	o := report.Obligation{Rule: "G-ACCEPT", Key: "G-ACCEPT/" + fname, Config: e.cfg(), OK: false}
	f := e.P.ByName[fname]
	if f == nil {
		o.Detail = "ANCHOR " + fname + " not found"
		return o
	}
	o.Pos = e.P.Rel(f.Pos())
	got := e.errorClasses(f, 0)
	// entries starting with "?" are optional: allowed, not required
	gotSet := map[string]bool{}
	for _, g := range got {
		gotSet[g] = true
	}
	var w2 []string
	for _, w := range want {
		if strings.HasPrefix(w, "?") {
			if gotSet[w[1:]] {
				w2 = append(w2, w[1:])
			}
			continue
		}
		w2 = append(w2, w)
	}
	want = w2
	sort.Strings(want)
	gs, ws := strings.Join(got, " ∨ "), strings.Join(want, " ∨ ")
	if gs == ws {
		o.OK = true
		o.Detail = "rejects exactly when " + gs
		return o
	}
	var extra, missing []string
	wm := map[string]bool{}
	for _, w := range want {
		wm[w] = true
	}
	gm := map[string]bool{}
	for _, g := range got {
		gm[g] = true
		if !wm[g] {
			extra = append(extra, g)
		}
	}
	for _, w := range want {
		if !gm[w] {
			missing = append(missing, w)
		}
	}
	o.Detail = "reject conditions differ from the documented set: "
	if len(extra) > 0 {
		o.Detail += "rejects more (" + strings.Join(extra, ", ") + ") "
	}
	if len(missing) > 0 {
		o.Detail += "accepts more — missing (" + strings.Join(missing, ", ") + ")"
	}
	return o
}
