package guards

import (
	"fmt"
	"go/token"
	"go/types"
	"regexp"
	"sort"
	"strings"

	"golang.org/x/tools/go/ssa"

	"verif/checker/effects"
	"verif/checker/load"
	"verif/checker/report"
)

type Engine struct {
	P        *load.Program
	A        *effects.Analysis
	G        *load.GuardSem
	cdg      map[*ssa.Function]*CDG
	gmemo    map[gkey]int // 0 unknown, 1 computing, 2 true, 3 false
	Problems []string
}

type gkey struct {
	f *ssa.Function
	r effects.Root
}

func New(a *effects.Analysis) *Engine {
	return &Engine{P: a.P, A: a, G: a.P.Guards(), cdg: map[*ssa.Function]*CDG{}, gmemo: map[gkey]int{}}
}

func (e *Engine) CDG(f *ssa.Function) *CDG {
	if c, ok := e.cdg[f]; ok {
		return c
	}
	c := NewCDG(f)
	e.cdg[f] = c
	return c
}

func (e *Engine) cfg() string { return e.P.Config.Name }

func isPointPtr(t types.Type) bool { return load.IsPointPtr(t) }

// pointRoots lists the Point-typed positions of f: *Point params (receiver
// included) and the elements of []*Point params.
func pointRoots(f *ssa.Function) []effects.Root {
	var out []effects.Root
	for i, p := range f.Params {
		if isPointPtr(p.Type()) {
			out = append(out, effects.Root{Kind: effects.KParam, Index: i})
		} else if s, ok := p.Type().Underlying().(*types.Slice); ok && isPointPtr(s.Elem()) {
			out = append(out, effects.Root{Kind: effects.KElem, Index: i})
		}
	}
	return out
}

func subjOf(r effects.Root) load.GSubject {
	return load.GSubject{Param: r.Index, Elem: r.Kind == effects.KElem}
}

// zrun: what f can still do when the Point at position r has the zero pattern
// (x and y both the zero Element) — the guard semantics of load/guardsem.go.
func (e *Engine) zrun(f *ssa.Function, r effects.Root) *load.GRun {
	return e.G.Run(f, subjOf(r), load.GZero)
}

// calleeRootsFor returns the callee roots that map to caller root r at call c.
func (e *Engine) calleeRootsFor(fi *effects.FuncInfo, c *ssa.Call, h *ssa.Function, r effects.Root) []effects.Root {
	var out []effects.Root
	for _, hr := range pointRoots(h) {
		for _, l := range fi.Translate(c, effects.Loc{Root: hr}) {
			if l.Root == r && l.Path == "" {
				out = append(out, hr)
			}
		}
	}
	return out
}

// Checks: f cannot return normally when the Point at r has the zero pattern
// (the guard is applied on every path to a normal return).
func (e *Engine) Checks(f *ssa.Function, r effects.Root) bool {
	return !e.zrun(f, r).MayReturn
}

// inspection: the instruction only compares the x or y coordinate of a Point
// with the zero Element (the guard's own look at the point).
func (e *Engine) inspection(run *load.GRun, in ssa.Instruction) bool {
	switch x := in.(type) {
	case *ssa.UnOp:
		if x.Op != token.MUL {
			return false
		}
		fa, ok := x.X.(*ssa.FieldAddr)
		if !ok || !isPointPtr(fa.X.Type()) {
			return false
		}
		if n := load.FieldName(fa.X.Type().Underlying().(*types.Pointer).Elem(), fa.Field); n != "x" && n != "y" {
			return false
		}
		for _, ref := range *x.Referrers() {
			switch u := ref.(type) {
			case *ssa.DebugRef:
			case *ssa.BinOp:
				if u.Op != token.EQL && u.Op != token.NEQ {
					return false
				}
				// the comparison must be the atom itself: this coordinate against the zero Element (a comparison with
				// another point's coordinate is a use of the value, not the guard's look at it)
				if isZeroAggregate(u.X) || isZeroAggregate(u.Y) {
					continue
				}
				if _, det := run.Val(u); !det {
					return false
				}
			default:
				return false
			}
		}
		return true
	case *ssa.Call:
		// p.x.Equal(&zero): decided by the guard semantics as an atom
		if h := x.Common().StaticCallee(); h != nil && load.ShortName(h) == "field.(*Element).Equal" {
			if _, det := run.Val(x); det {
				return true
			}
		}
	}
	return false
}

type unguarded struct {
	ev  effects.Event
	why string
}

// Unguarded returns the initial-value reads of r in f that can still happen
// when the Point at r has the zero pattern.
func (e *Engine) Unguarded(f *ssa.Function, r effects.Root) []unguarded {
	fi := e.A.Info[f]
	run := e.zrun(f, r)
	var out []unguarded
	seen := map[ssa.Instruction]bool{}
	for _, b := range f.Blocks {
		for _, in := range b.Instrs {
			for _, ev := range fi.Events[in] {
				if ev.Op != effects.OpReadInit || ev.Loc.Root != r || seen[in] {
					continue
				}
				// only reads of the incoming value count
				if !fi.Sum.ReadsInitial.Has(ev.Loc) {
					continue
				}
				ok := !run.Reachable(in) || e.inspection(run, in)
				if !ok && ev.Via != nil {
					if c, isCall := in.(*ssa.Call); isCall {
						h := c.Common().StaticCallee()
						if h != nil && e.P.InRepo(h) {
							hrs := e.calleeRootsFor(fi, c, h, r)
							all := len(hrs) > 0
							for _, hr := range hrs {
								if e.A.Info[h].Sum.ReadsInitial.HasRoot(hr) && !e.Guarded(h, hr) {
									all = false
								}
							}
							ok = all
						}
					}
				}
				if !ok {
					seen[in] = true
					out = append(out, unguarded{ev: ev})
				}
			}
		}
	}
	return out
}

func (e *Engine) Guarded(f *ssa.Function, r effects.Root) bool {
	k := gkey{f, r}
	switch e.gmemo[k] {
	case 1:
		return false
	case 2:
		return true
	case 3:
		return false
	}
	e.gmemo[k] = 1
	ok := len(e.Unguarded(f, r)) == 0
	if ok {
		e.gmemo[k] = 2
	} else {
		e.gmemo[k] = 3
	}
	return ok
}

// readsBeyondGuard: is the incoming value of r read by anything other than
// the guard's own inspection?
func (e *Engine) readsBeyondGuard(f *ssa.Function, r effects.Root, depth int) bool {
	fi := e.A.Info[f]
	if !fi.Sum.ReadsInitial.HasRoot(r) {
		return false
	}
	if depth > 10 {
		return true
	}
	run := e.zrun(f, r)
	for _, b := range f.Blocks {
		for _, in := range b.Instrs {
			for _, ev := range fi.Events[in] {
				if ev.Op != effects.OpReadInit || ev.Loc.Root != r || !fi.Sum.ReadsInitial.Has(ev.Loc) {
					continue
				}
				if e.inspection(run, in) {
					continue
				}
				if ev.Via == nil {
					return true
				}
				c, ok := in.(*ssa.Call)
				if !ok {
					return true
				}
				h := c.Common().StaticCallee()
				if h == nil || !e.P.InRepo(h) {
					return true
				}
				if e.G.InGuardFamily(h) {
					continue
				}
				hrs := e.calleeRootsFor(fi, c, h, r)
				if len(hrs) == 0 {
					return true // interior or non-Point position: a real read
				}
				for _, hr := range hrs {
					if e.readsBeyondGuard(h, hr, depth+1) {
						return true
					}
				}
			}
		}
	}
	return false
}

func rootName(f *ssa.Function, r effects.Root) string {
	n := f.Params[r.Index].Name()
	if r.Kind == effects.KElem {
		return n + "[i]"
	}
	return n
}

// distinguishes: does f behave differently (panic) for a Point at r with the zero pattern?
func (e *Engine) distinguishes(f *ssa.Function, r effects.Root) (ssa.Instruction, bool) {
	z := e.zrun(f, r)
	n := e.G.Run(f, subjOf(r), load.GAssign{})
	if z.MayReturn == n.MayReturn && len(z.Reach) == len(n.Reach) && len(z.Panics) == len(n.Panics) {
		return nil, false
	}
	for _, p := range z.Panics {
		found := false
		for _, q := range n.Panics {
			if p == q {
				found = true
			}
		}
		if !found {
			return p, true
		}
	}
	return nil, true
}

// GInit: every Point-typed input position of every API root is guarded;
// pure receivers are not.
func (e *Engine) GInit() []report.Obligation {
	var out []report.Obligation
	for _, f := range e.P.APIRoots() {
		fi := e.A.Info[f]
		for _, r := range pointRoots(f) {
			name := rootName(f, r)
			isInput := e.readsBeyondGuard(f, r, 0)
			if isInput {
				o := report.Obligation{Rule: "G-INIT", Key: "G-INIT/" + load.ShortName(f) + "/" + name, Config: e.cfg(), Pos: e.P.Rel(f.Pos()), OK: true,
					Detail: "with x and y of this Point input both the zero Element (never set), no read of it and no normal return is reachable: the initialisation guard panics first"}
				if load.ShortName(f) == "(*Point).Set" {
					o.Detail = "plain copy: exempt by the property (\"plain copying (Set) is exempt\")"
					o.Exception = "Set is exempt by the property statement"
					out = append(out, o)
					continue
				}
				run := e.zrun(f, r)
				if run.MayReturn {
					o.OK = false
					o.Detail = "some path reaches a normal return without the initialisation guard having been applied to " + name + ": a zero-value Point is accepted as input on that path"
					for _, rs := range fi.Sum.Returns {
						if rs.Instr != nil && run.Reachable(rs.Instr) {
							o.Pos = e.P.Rel(rs.Instr.Pos())
						}
					}
				}
				if ug := e.Unguarded(f, r); len(ug) > 0 {
					o.OK = false
					o.Pos = e.P.Rel(ug[0].ev.Instr.Pos())
					var ds []string
					for i, u := range ug {
						if i < 3 {
							ds = append(ds, fi.EventString(u.ev))
						}
					}
					o.Detail = fmt.Sprintf("Point input %s is read although it may be a zero-value Point: no initialisation guard excludes it before the read (%d unguarded reads; first: %s)", name, len(ug), strings.Join(ds, "; "))
				}
				out = append(out, o)
			} else {
				o := report.Obligation{Rule: "G-PURE", Key: "G-PURE/" + load.ShortName(f) + "/" + name, Config: e.cfg(), Pos: e.P.Rel(f.Pos()), OK: true,
					Detail: "pure receiver: its incoming value is never read and no guard is applied to it (a zero-value Point is acceptable)"}
				if at, d := e.distinguishes(f, r); d {
					o.OK = false
					if at != nil {
						o.Pos = e.P.Rel(at.Pos())
					}
					o.Detail = "the initialisation guard is applied to " + name + " although its incoming value is never read: a zero-value receiver would panic"
				}
				out = append(out, o)
			}
		}
	}
	return out
}

// ---- G-GUARD -------------------------------------------------------------------

// GGuard checks the guard itself, wherever it is written: (a) every loop over a
// []*Point parameter whose body takes decisions on the element's x/y atoms is
// exactly the guard (panics iff both are zero, otherwise goes on to the next
// element, no other exit, indices 0,1,2,…,len-1); (b) every panic (or call
// that cannot return) whose reachability depends on the atoms of a *Point
// parameter is reachable exactly when both are zero — never for x alone, y
// alone, or for an initialised point.
func (e *Engine) GGuard() []report.Obligation {
	var out []report.Obligation
	for _, f := range e.P.Funcs {
		if f.Pkg != e.P.Root || len(f.Blocks) == 0 {
			continue
		}
		name := load.ShortName(f)
		for _, b := range f.Blocks {
			ifi, ok := b.Instrs[len(b.Instrs)-1].(*ssa.If)
			if !ok {
				continue
			}
			li := e.G.GuardLoop(f, ifi)
			if !li.IsLoop || !li.Candidate {
				continue
			}
			o := report.Obligation{Rule: "G-GUARD", Key: "G-GUARD/" + name, Config: e.cfg(), Pos: e.P.Rel(f.Pos()), OK: li.OK}
			if li.OK {
				o.Detail = "loop visits indices 0..len-1 in steps of 1; each element panics exactly when x == zero ∧ y == zero, otherwise the loop goes on; the only other exit is the end of the loop"
			} else {
				o.Pos = e.P.Rel(ifi.Cond.Pos())
				o.Detail = "loop over the points takes decisions on an element's x/y but is not the initialisation guard: " + li.Why
			}
			out = append(out, o)
		}
		for _, r := range pointRoots(f) {
			if r.Kind != effects.KParam {
				continue
			}
			reach := map[ssa.Instruction]map[load.GAssign]bool{}
			var order []ssa.Instruction
			for _, a := range load.GAll {
				for _, p := range e.G.Run(f, subjOf(r), a).Panics {
					if reach[p] == nil {
						reach[p] = map[load.GAssign]bool{}
						order = append(order, p)
					}
					reach[p][a] = true
				}
			}
			dep := false
			bad := ""
			var badAt ssa.Instruction
			for _, p := range order {
				s := reach[p]
				rest := 0
				for _, a := range load.GAll[1:] {
					if s[a] {
						rest++
					}
				}
				if len(s) != 4 {
					dep = true
				}
				if rest != 0 && rest != 3 {
					var on []string
					for _, a := range load.GAll {
						if s[a] {
							on = append(on, fmt.Sprintf("(x zero=%v, y zero=%v)", a.X0, a.Y0))
						}
					}
					bad = "a panic is reachable for " + strings.Join(on, ", ") + " only: it separates initialised points (a Point is uninitialised only when x and y are BOTH zero)"
					badAt = p
				}
			}
			if !dep {
				continue
			}
			o := report.Obligation{Rule: "G-GUARD", Key: "G-GUARD/" + name + "/" + rootName(f, r), Config: e.cfg(), Pos: e.P.Rel(f.Pos()), OK: bad == "",
				Detail: "every panic that depends on this Point's x/y is reachable exactly when both are the zero Element"}
			if bad != "" {
				o.Detail = bad
				o.Pos = e.P.Rel(badAt.Pos())
			}
			out = append(out, o)
		}
	}
	if len(out) == 0 {
		out = append(out, report.Obligation{Rule: "G-GUARD", Key: "G-GUARD/checkInitialized", Config: e.cfg(), OK: false,
			Detail: "no initialisation guard found: no function of the package panics exactly when a Point's x and y are both the zero Element"})
	}
	return out
}

func isZeroAggregate(v ssa.Value) bool {
	c, ok := v.(*ssa.Const)
	return ok && c.Value == nil
}

func induction(v ssa.Value) (int64, int64, bool) { return load.Induction(v) }

// ---- G-LEN -----------------------------------------------------------------------

func (e *Engine) GLen() []report.Obligation {
	var out []report.Obligation
	for _, f := range e.P.APIRoots() {
		var si, pi = -1, -1
		for i, p := range f.Params {
			if s, ok := p.Type().Underlying().(*types.Slice); ok {
				if isPointPtr(s.Elem()) {
					pi = i
				} else if pe, ok := s.Elem().Underlying().(*types.Pointer); ok {
					if n, ok := pe.Elem().(*types.Named); ok && n.Obj().Name() == "Scalar" {
						si = i
					}
				}
			}
		}
		if si < 0 || pi < 0 {
			continue
		}
		o := report.Obligation{Rule: "G-LEN", Key: "G-LEN/" + load.ShortName(f), Config: e.cfg(), Pos: e.P.Rel(f.Pos()), OK: false}
		sp, pp := ssa.Value(f.Params[si]), ssa.Value(f.Params[pi])
		isLenOf := func(v ssa.Value, p ssa.Value) bool {
			c, ok := v.(*ssa.Call)
			if !ok {
				return false
			}
			b, ok := c.Common().Value.(*ssa.Builtin)
			return ok && b.Name() == "len" && c.Common().Args[0] == p
		}
		var guardIf *ssa.If
		var okSucc *ssa.BasicBlock
		var lenCalls = map[ssa.Instruction]bool{}
		for _, b := range f.Blocks {
			ifi, ok := b.Instrs[len(b.Instrs)-1].(*ssa.If)
			if !ok {
				continue
			}
			bo, ok := ifi.Cond.(*ssa.BinOp)
			if !ok || (bo.Op != token.NEQ && bo.Op != token.EQL) {
				continue
			}
			if !((isLenOf(bo.X, sp) && isLenOf(bo.Y, pp)) || (isLenOf(bo.X, pp) && isLenOf(bo.Y, sp))) {
				continue
			}
			neSide := 0
			if bo.Op == token.EQL {
				neSide = 1
			}
			ne := b.Succs[neSide]
			if _, isPanic := ne.Instrs[len(ne.Instrs)-1].(*ssa.Panic); !isPanic {
				continue
			}
			guardIf = ifi
			okSucc = b.Succs[1-neSide]
			lenCalls[bo.X.(ssa.Instruction)] = true
			lenCalls[bo.Y.(ssa.Instruction)] = true
		}
		if guardIf == nil {
			// the comparison may sit in a helper both slices (or both lengths) are handed to
			if call := e.lenGuardCall(f, sp, pp); call != nil {
				o.OK = true
				o.Detail = "len(scalars) != len(points) panics (inside " + load.ShortName(call.Common().StaticCallee()) + ", which is handed both) before either slice is otherwise touched"
				for _, p := range []ssa.Value{sp, pp} {
					for _, ref := range *p.Referrers() {
						if ref == ssa.Instruction(call) {
							continue
						}
						if c, isCall := ref.(*ssa.Call); isCall {
							if b, isB := c.Common().Value.(*ssa.Builtin); isB && (b.Name() == "len" || b.Name() == "cap") {
								continue
							}
						}
						if !dominates(call, ref) {
							o.OK = false
							o.Pos = e.P.Rel(ref.Pos())
							o.Detail = "a slice is used before (or without) the length check: " + ref.String()
						}
					}
				}
				out = append(out, o)
				continue
			}
			o.Detail = "no comparison of len(scalars) with len(points) whose unequal side panics"
			out = append(out, o)
			continue
		}
		o.OK = true
		o.Detail = "len(scalars) != len(points) panics before either slice is otherwise touched"
		for _, p := range []ssa.Value{sp, pp} {
			for _, ref := range *p.Referrers() {
				if lenCalls[ref] {
					continue
				}
				if c, isCall := ref.(*ssa.Call); isCall {
					if b, isB := c.Common().Value.(*ssa.Builtin); isB && (b.Name() == "len" || b.Name() == "cap") {
						continue // taking a length touches no element (e.g. to format the panic message)
					}
				}
				if !(ref.Block() == okSucc || okSucc.Dominates(ref.Block())) {
					o.OK = false
					o.Pos = e.P.Rel(ref.Pos())
					o.Detail = "a slice is used before (or without) the length check: " + ref.String()
				}
			}
		}
		out = append(out, o)
	}
	return out
}

// ---- G-ACCEPT ----------------------------------------------------------------------

// classify renders the condition under which an error site is taken.
func (e *Engine) classify(f *ssa.Function, d CtrlDep, depth int) []string {
	cond := d.If.Cond
	neg := !d.True // error taken when cond is false
	for {
		u, ok := cond.(*ssa.UnOp)
		if ok && u.Op == token.NOT {
			cond = u.X
			neg = !neg
			continue
		}
		break
	}
	lenOfParam := func(v ssa.Value) (string, bool) {
		c, ok := v.(*ssa.Call)
		if !ok {
			return "", false
		}
		b, ok := c.Common().Value.(*ssa.Builtin)
		if !ok || b.Name() != "len" {
			return "", false
		}
		if p, ok := c.Common().Args[0].(*ssa.Parameter); ok {
			return "len(" + p.Name() + ")", true
		}
		if p := load.SpilledParam(c.Common().Args[0]); p != nil {
			// a parameter that lives in a cell because a closure reads it
			return "len(" + p.Name() + ")", true
		}
		// len of something derived from a fixed-size local: constant
		return "len(local)", true
	}
	callResult := func(v ssa.Value) (*ssa.Function, int, bool) {
		switch x := v.(type) {
		case *ssa.Call:
			if h := x.Common().StaticCallee(); h != nil {
				g, j := e.P.ResultOrigin(h, 0)
				return g, j, true
			}
		case *ssa.Extract:
			if c, ok := x.Tuple.(*ssa.Call); ok {
				if h := c.Common().StaticCallee(); h != nil {
					g, j := e.P.ResultOrigin(h, x.Index)
					return g, j, true
				}
			}
		}
		return nil, 0, false
	}
	if bo, ok := cond.(*ssa.BinOp); ok {
		op := bo.Op
		if neg {
			switch op {
			case token.EQL:
				op = token.NEQ
			case token.NEQ:
				op = token.EQL
			case token.LSS:
				op = token.GEQ
			case token.GEQ:
				op = token.LSS
			case token.GTR:
				op = token.LEQ
			case token.LEQ:
				op = token.GTR
			}
		}
		x, y := bo.X, bo.Y
		if _, isC := x.(*ssa.Const); isC {
			x, y = y, x
			switch op {
			case token.LSS:
				op = token.GTR
			case token.GTR:
				op = token.LSS
			case token.LEQ:
				op = token.GEQ
			case token.GEQ:
				op = token.LEQ
			}
		}
		if c, ok := y.(*ssa.Const); ok {
			cs := "nil"
			if c.Value != nil {
				cs = c.Value.ExactString()
			}
			if l, ok := lenOfParam(x); ok {
				return []string{fmt.Sprintf("LEN[%s %s %s]", l, op, cs)}
			}
			if h, k, ok := callResult(x); ok {
				if isErr(x.Type()) && c.Value == nil && op == token.NEQ && e.P.InRepo(h) && depth < 6 {
					// error propagated from a callee: inherit its error-site classes — except those that cannot
					// occur at this call because the slice it is handed has a constant length (x[:32], x[32:64])
					return e.feasibleAt(x, h, e.errorClasses(h, depth+1))
				}
				return []string{fmt.Sprintf("PRED[%s#%d %s %s]", load.ShortName(h), k, op, cs)}
			}
		}
		return []string{"OTHER[" + e.P.Rel(bo.Pos()) + " " + bo.String() + "]"}
	}
	if h, k, ok := callResult(cond); ok {
		return []string{fmt.Sprintf("PRED[%s#%d == %v]", load.ShortName(h), k, !neg)}
	}
	return []string{"OTHER[" + cond.String() + "]"}
}

// a validity literal: the result of a field equality test, of SqrtRatio's wasSquare, or of an unexported
// predicate/helper of the root package (isOnCurve, isReduced, a recoverX split off the decoder, …)
type site2 struct {
	conj []string
	fwd  *ssa.Function
}

var validityLit = regexp.MustCompile(`^PRED\[(field\.\(\*Element\)\.Equal#0|field\.\(\*Element\)\.SqrtRatio#1|\(?\*?[A-Za-z0-9_]*\)?\.?[a-z][A-Za-z0-9_]*#\d+) (==|!=) (0|1|true|false)\]$`)

func isErr(t types.Type) bool {
	return types.Identical(t, types.Universe.Lookup("error").Type())
}

// errorClasses returns the sorted set of condition classes controlling the
// error sites of f. Each error site is the conjunction of its controlling
// branches; a literal that is the negation of another site's whole (single
// literal) condition only says "the earlier check passed" and is dropped.
func (e *Engine) errorClasses(f *ssa.Function, depth int) []string {
	set := map[string]bool{}
	fi := e.A.Info[f]
	if fi == nil {
		return nil
	}
	cdg := e.CDG(f)
	type site struct {
		lits []CtrlDep
		fwd  *ssa.Function
	}
	var sites []site
	// the conditions under which a return site is reached; for one incoming path of a merging return block
	// (named results, single return) these are the conditions of the block the path comes from, plus the
	// branch it takes there
	ctrl := func(rs effects.ReturnSite) []CtrlDep {
		if rs.Pred == nil {
			return cdg.Closure(rs.Instr.Block())
		}
		lits := cdg.Closure(rs.Pred)
		if ifi, ok := rs.Pred.Instrs[len(rs.Pred.Instrs)-1].(*ssa.If); ok && rs.Pred.Succs[0] != rs.Pred.Succs[1] {
			lits = append(lits, CtrlDep{If: ifi, True: rs.Pred.Succs[0] == rs.To})
		}
		return lits
	}
	for _, rs := range fi.Sum.Returns {
		if rs.Forwarded != nil && depth < 6 {
			sites = append(sites, site{lits: ctrl(rs), fwd: rs.Forwarded})
			continue
		}
		if rs.Err != 1 {
			continue
		}
		sites = append(sites, site{lits: ctrl(rs)})
	}
	// iterate: a site whose remaining condition is a single literal makes the
	// negation of that literal redundant in the other sites
	single := map[CtrlDep]bool{}
	for changed := true; changed; {
		changed = false
		for i := range sites {
			var rest []CtrlDep
			for _, d := range sites[i].lits {
				if !single[CtrlDep{If: d.If, True: !d.True}] {
					rest = append(rest, d)
				}
			}
			if len(rest) != len(sites[i].lits) {
				sites[i].lits = rest
				changed = true
			}
			if len(rest) == 1 && sites[i].fwd == nil && !single[rest[0]] {
				single[rest[0]] = true
				changed = true
			}
		}
	}
	// a condition that can hold in several ways (an error inherited from a callee that has several reject sites)
	// makes several sites: distribute the alternatives
	var expanded []site2
	for _, s := range sites {
		alts := [][]string{{}}
		infeasible := false
		for _, d := range s.lits {
			cs := e.classify(f, d, depth)
			if len(cs) == 0 {
				infeasible = true // every way this condition could hold is decided false here
				break
			}
			var next [][]string
			for _, a := range alts {
				for _, c := range cs {
					next = append(next, append(append([]string{}, a...), c))
				}
			}
			if len(next) > 64 {
				next = next[:64]
			}
			alts = next
		}
		if infeasible {
			continue
		}
		for _, a := range alts {
			expanded = append(expanded, site2{conj: a, fwd: s.fwd})
		}
	}
	for _, s := range expanded {
		conj := s.conj
		sort.Strings(conj)
		if s.fwd != nil {
			for _, c := range e.errorClasses(s.fwd, depth+1) {
				all := append(append([]string{}, conj...), "via "+load.ShortName(s.fwd)+": "+c)
				set[strings.Join(all, " ∧ ")] = true
			}
			continue
		}
		if len(conj) == 0 {
			set["ALWAYS"] = true
			continue
		}
		set[strings.Join(conj, " ∧ ")] = true
	}
	var out []string
	for c := range set {
		out = append(out, c)
	}
	sort.Strings(out)
	return out
}

// GAccept compares the accept/reject structure of a decoder with the expected set.
func (e *Engine) GAccept(fname string, want []string) report.Obligation {
	o := report.Obligation{Rule: "G-ACCEPT", Key: "G-ACCEPT/" + fname, Config: e.cfg(), OK: false}
	f := e.P.ByName[fname]
	if f == nil {
		o.Detail = "ANCHOR " + fname + " not found"
		return o
	}
	o.Pos = e.P.Rel(f.Pos())
	got := e.errorClasses(f, 0)
	// "VALID" in the specification stands for the validity decision of a coordinate decoder, however it is
	// written: any rejection that depends only on results of field equality tests (in the decoder, or in a
	// predicate private to it). What those tests say is decided by the accept-set rule of the value domain (E9);
	// here only the structure matters: nothing else (a length, a limb, a flag) takes part in the decision.
	wantsValid := false
	for _, w := range want {
		if w == "VALID" {
			wantsValid = true
		}
	}
	if wantsValid {
		var g2 []string
		seenValid := false
		for _, g := range got {
			all := true
			for _, lit := range strings.Split(g, " ∧ ") {
				if !validityLit.MatchString(lit) {
					all = false
				}
			}
			if all {
				if !seenValid {
					g2 = append(g2, "VALID")
					seenValid = true
				}
				continue
			}
			g2 = append(g2, g)
		}
		sort.Strings(g2)
		got = g2
	}
	// entries starting with "?" are optional: allowed, not required
	gotSet := map[string]bool{}
	for _, g := range got {
		gotSet[g] = true
	}
	var w2 []string
	for _, w := range want {
		if strings.HasPrefix(w, "?") {
			if gotSet[w[1:]] {
				w2 = append(w2, w[1:])
			}
			continue
		}
		w2 = append(w2, w)
	}
	want = w2
	sort.Strings(want)
	gs, ws := strings.Join(got, " ∨ "), strings.Join(want, " ∨ ")
	if gs == ws {
		o.OK = true
		o.Detail = "rejects exactly when " + gs
		return o
	}
	var extra, missing []string
	wm := map[string]bool{}
	for _, w := range want {
		wm[w] = true
	}
	gm := map[string]bool{}
	for _, g := range got {
		gm[g] = true
		if !wm[g] {
			extra = append(extra, g)
		}
	}
	for _, w := range want {
		if !gm[w] {
			missing = append(missing, w)
		}
	}
	o.Detail = "reject conditions differ from the documented set: "
	if len(extra) > 0 {
		o.Detail += "rejects more (" + strings.Join(extra, ", ") + ") "
	}
	if len(missing) > 0 {
		o.Detail += "accepts more — missing (" + strings.Join(missing, ", ") + ")"
	}
	return o
}

var lenLit = regexp.MustCompile(`^LEN\[len\((\w+)\) (==|!=|<|<=|>|>=) (\d+)\]$`)

// feasibleAt drops the inherited reject classes of callee h that are decided false at the call v comes
// from: a length literal on a parameter whose argument here is a slice expression with constant bounds.
func (e *Engine) feasibleAt(v ssa.Value, h *ssa.Function, classes []string) []string {
	var call *ssa.Call
	switch x := v.(type) {
	case *ssa.Call:
		call = x
	case *ssa.Extract:
		call, _ = x.Tuple.(*ssa.Call)
	}
	if call == nil {
		return classes
	}
	constLen := map[string]int64{}
	for i, a := range call.Common().Args {
		sl, ok := a.(*ssa.Slice)
		if !ok || i >= len(h.Params) {
			continue
		}
		lo := int64(0)
		if sl.Low != nil {
			c, ok := sl.Low.(*ssa.Const)
			if !ok || c.Value == nil {
				continue
			}
			lo = c.Int64()
		}
		var hi int64
		if sl.High != nil {
			c, ok := sl.High.(*ssa.Const)
			if !ok || c.Value == nil {
				continue
			}
			hi = c.Int64()
		} else if pt, ok := sl.X.Type().Underlying().(*types.Pointer); ok {
			arr, ok := pt.Elem().Underlying().(*types.Array)
			if !ok {
				continue
			}
			hi = arr.Len()
		} else if k, ok := guardedLen(sl.X, call.Block()); ok {
			hi = k // x[lo:] below a dominating `if len(x) != K { reject }`
		} else {
			continue
		}
		constLen[h.Params[i].Name()] = hi - lo
	}
	if len(constLen) == 0 {
		return classes
	}
	var out []string
	for _, cl := range classes {
		feasible := true
		for _, lit := range strings.Split(cl, " ∧ ") {
			m := lenLit.FindStringSubmatch(lit)
			if m == nil {
				continue
			}
			n, known := constLen[m[1]]
			if !known {
				continue
			}
			var k int64
			fmt.Sscan(m[3], &k)
			holds := map[string]bool{"==": n == k, "!=": n != k, "<": n < k, "<=": n <= k, ">": n > k, ">=": n >= k}[m[2]]
			if !holds {
				feasible = false
			}
		}
		if feasible {
			out = append(out, cl)
		}
	}
	return out
}

// guardedLen: the slice value x has length K in block b because b is dominated by the equal side of a
// comparison of len(x) with the constant K.
func guardedLen(x ssa.Value, b *ssa.BasicBlock) (int64, bool) {
	refs := x.Referrers()
	if refs == nil {
		return 0, false
	}
	for _, ref := range *refs {
		c, ok := ref.(*ssa.Call)
		if !ok {
			continue
		}
		if bi, isB := c.Common().Value.(*ssa.Builtin); !isB || bi.Name() != "len" {
			continue
		}
		for _, r2 := range *c.Referrers() {
			bo, ok := r2.(*ssa.BinOp)
			if !ok || (bo.Op != token.EQL && bo.Op != token.NEQ) {
				continue
			}
			other := bo.Y
			if bo.Y == ssa.Value(c) {
				other = bo.X
			}
			k, isC := other.(*ssa.Const)
			if !isC || k.Value == nil {
				continue
			}
			for _, r3 := range *bo.Referrers() {
				ifi, ok := r3.(*ssa.If)
				if !ok {
					continue
				}
				eqSide := 0
				if bo.Op == token.NEQ {
					eqSide = 1
				}
				succ := ifi.Block().Succs[eqSide]
				if len(succ.Preds) == 1 && (succ == b || succ.Dominates(b)) {
					return k.Int64(), true
				}
			}
		}
	}
	return 0, false
}

// lenGuardCall finds a call in f of an in-repo helper that receives both slices — or both of their lengths — and
// panics when the two lengths differ.
func (e *Engine) lenGuardCall(f *ssa.Function, sp, pp ssa.Value) *ssa.Call {
	isLenOf := func(v ssa.Value, p ssa.Value) bool {
		c, ok := v.(*ssa.Call)
		if !ok {
			return false
		}
		b, ok := c.Common().Value.(*ssa.Builtin)
		return ok && b.Name() == "len" && c.Common().Args[0] == p
	}
	for _, b := range f.Blocks {
		for _, in := range b.Instrs {
			call, ok := in.(*ssa.Call)
			if !ok {
				continue
			}
			h := call.Common().StaticCallee()
			if h == nil || !e.P.InRepo(h) || len(h.Blocks) == 0 || len(call.Common().Args) != len(h.Params) {
				continue
			}
			si, pi := -1, -1
			byLen := false
			for k, a := range call.Common().Args {
				switch {
				case a == sp:
					si = k
				case a == pp:
					pi = k
				case isLenOf(a, sp):
					si, byLen = k, true
				case isLenOf(a, pp):
					pi, byLen = k, true
				}
			}
			if si < 0 || pi < 0 {
				continue
			}
			// inside h: a comparison of the two (lengths) whose unequal side panics, on every path (entry block)
			val := func(v ssa.Value, k int) bool {
				if byLen {
					return v == ssa.Value(h.Params[k])
				}
				return isLenOf(v, h.Params[k])
			}
			for _, hb := range h.Blocks {
				ifi, ok := hb.Instrs[len(hb.Instrs)-1].(*ssa.If)
				if !ok {
					continue
				}
				bo, ok := ifi.Cond.(*ssa.BinOp)
				if !ok || (bo.Op != token.NEQ && bo.Op != token.EQL) {
					continue
				}
				if !((val(bo.X, si) && val(bo.Y, pi)) || (val(bo.X, pi) && val(bo.Y, si))) {
					continue
				}
				neSide := 0
				if bo.Op == token.EQL {
					neSide = 1
				}
				ne := hb.Succs[neSide]
				if _, isPanic := ne.Instrs[len(ne.Instrs)-1].(*ssa.Panic); !isPanic {
					continue
				}
				// the comparison is reached on every path through h: its block dominates every return
				all := true
				for _, rb := range h.Blocks {
					if _, isRet := rb.Instrs[len(rb.Instrs)-1].(*ssa.Return); isRet && !(hb == rb || hb.Dominates(rb)) {
						all = false
					}
				}
				if all {
					return call
				}
			}
		}
	}
	return nil
}

// dominates: instruction x executes before y on every path to y.
func dominates(x, y ssa.Instruction) bool {
	bx, by := x.Block(), y.Block()
	if bx == by {
		for _, in := range bx.Instrs {
			if in == x {
				return x != y
			}
			if in == y {
				return false
			}
		}
		return false
	}
	return bx.Dominates(by)
}
