// Package guards is engine E3: dominance / control-dependence rules
// (G-INIT, G-GUARD, G-LEN, G-ACCEPT). See DESIGN §3 E3.
package guards

import (
	"golang.org/x/tools/go/ssa"
)

// CtrlDep is one controlling branch: the If at the end of Block, taken on side True.
type CtrlDep struct {
	If   *ssa.If
	True bool
}

// CDG computes control dependence for one function, with Return and Panic
// blocks as exits.
type CDG struct {
	Fn   *ssa.Function
	pdom []map[int]bool // pdom[b] = set of blocks that post-dominate b (including b); virtual exit = len(blocks)
	deps map[*ssa.BasicBlock][]CtrlDep
}

func NewCDG(f *ssa.Function) *CDG {
	n := len(f.Blocks)
	c := &CDG{Fn: f, deps: map[*ssa.BasicBlock][]CtrlDep{}}
	exit := n
	succs := make([][]int, n+1)
	for _, b := range f.Blocks {
		if len(b.Succs) == 0 {
			succs[b.Index] = []int{exit}
		}
		for _, s := range b.Succs {
			succs[b.Index] = append(succs[b.Index], s.Index)
		}
	}
	all := map[int]bool{}
	for i := 0; i <= n; i++ {
		all[i] = true
	}
	pd := make([]map[int]bool, n+1)
	for i := 0; i < n; i++ {
		m := map[int]bool{}
		for k := range all {
			m[k] = true
		}
		pd[i] = m
	}
	pd[exit] = map[int]bool{exit: true}
	changed := true
	for changed {
		changed = false
		for i := n - 1; i >= 0; i-- {
			var inter map[int]bool
			for _, s := range succs[i] {
				if inter == nil {
					inter = map[int]bool{}
					for k := range pd[s] {
						inter[k] = true
					}
				} else {
					for k := range inter {
						if !pd[s][k] {
							delete(inter, k)
						}
					}
				}
			}
			if inter == nil {
				inter = map[int]bool{}
			}
			inter[i] = true
			if len(inter) != len(pd[i]) {
				pd[i] = inter
				changed = true
			}
		}
	}
	c.pdom = pd
	for _, a := range f.Blocks {
		if len(a.Succs) != 2 {
			continue
		}
		ifi, ok := a.Instrs[len(a.Instrs)-1].(*ssa.If)
		if !ok {
			continue
		}
		for side, s := range a.Succs {
			for _, b := range f.Blocks {
				// b control dependent on (a -> s): b postdominates s, b does not strictly postdominate a
				if !pd[s.Index][b.Index] {
					continue
				}
				if b != a && pd[a.Index][b.Index] {
					continue
				}
				c.deps[b] = append(c.deps[b], CtrlDep{If: ifi, True: side == 0})
			}
		}
	}
	return c
}

// Direct returns the branches block b is directly control dependent on.
func (c *CDG) Direct(b *ssa.BasicBlock) []CtrlDep { return c.deps[b] }

// Closure returns the transitive control dependences of b.
func (c *CDG) Closure(b *ssa.BasicBlock) []CtrlDep {
	seen := map[CtrlDep]bool{}
	var out []CtrlDep
	var work []*ssa.BasicBlock
	work = append(work, b)
	visited := map[*ssa.BasicBlock]bool{}
	for len(work) > 0 {
		x := work[len(work)-1]
		work = work[:len(work)-1]
		if visited[x] {
			continue
		}
		visited[x] = true
		for _, d := range c.deps[x] {
			if !seen[d] {
				seen[d] = true
				out = append(out, d)
			}
			work = append(work, d.If.Block())
		}
	}
	return out
}

// ClosureUntil is Closure that does not expand through branches for which stop holds.
func (c *CDG) ClosureUntil(b *ssa.BasicBlock, stop func(*ssa.If) bool) []CtrlDep {
	seen := map[CtrlDep]bool{}
	var out []CtrlDep
	work := []*ssa.BasicBlock{b}
	visited := map[*ssa.BasicBlock]bool{}
	for len(work) > 0 {
		x := work[len(work)-1]
		work = work[:len(work)-1]
		if visited[x] {
			continue
		}
		visited[x] = true
		for _, d := range c.deps[x] {
			if !seen[d] {
				seen[d] = true
				out = append(out, d)
			}
			if !stop(d.If) {
				work = append(work, d.If.Block())
			}
		}
	}
	return out
}
