// Package poly implements sparse multivariate polynomials with big.Int
// coefficients, optionally reduced modulo a prime. It is the normal form used
// by the abstract domains E5 (limb polynomials), E9 (field expressions) and the
// scalar ring domain: two values are equal iff their normal forms are.
package poly

import (
	"fmt"
	"math/big"
	"sort"
	"strings"
)

// Ring fixes the coefficient modulus (nil = integers) and names variables.
type Ring struct {
	Mod   *big.Int
	names []string
	ids   map[string]int
	idem  map[int]bool // variables with x² = x ({0,1}-valued)
}

// BitVar declares a {0,1}-valued variable: its powers collapse (x² = x).
func (r *Ring) BitVar(name string) *Poly {
	id := r.VarID(name)
	if r.idem == nil {
		r.idem = map[int]bool{}
	}
	r.idem[id] = true
	return r.Var(name)
}

func NewRing(mod *big.Int) *Ring { return &Ring{Mod: mod, ids: map[string]int{}} }

func (r *Ring) VarID(name string) int {
	if id, ok := r.ids[name]; ok {
		return id
	}
	id := len(r.names)
	r.names = append(r.names, name)
	r.ids[name] = id
	return id
}

func (r *Ring) VarName(id int) string { return r.names[id] }

// mono is a canonical monomial key: "id^e,id^e" sorted by id; "" is 1.
type mono string

type factor struct{ id, exp int }

func parseMono(m mono) []factor {
	if m == "" {
		return nil
	}
	parts := strings.Split(string(m), ",")
	out := make([]factor, len(parts))
	for i, p := range parts {
		var f factor
		fmt.Sscanf(p, "%d^%d", &f.id, &f.exp)
		out[i] = f
	}
	return out
}

func makeMono(fs []factor) mono {
	sort.Slice(fs, func(i, j int) bool { return fs[i].id < fs[j].id })
	var sb strings.Builder
	for i, f := range fs {
		if f.exp == 0 {
			continue
		}
		if sb.Len() > 0 && i > 0 {
			sb.WriteByte(',')
		}
		fmt.Fprintf(&sb, "%d^%d", f.id, f.exp)
	}
	return mono(strings.TrimPrefix(sb.String(), ","))
}

func (r *Ring) mulMono(a, b mono) mono {
	if a == "" {
		return b
	}
	if b == "" {
		return a
	}
	fa, fb := parseMono(a), parseMono(b)
	m := map[int]int{}
	for _, f := range fa {
		m[f.id] += f.exp
	}
	for _, f := range fb {
		m[f.id] += f.exp
	}
	fs := make([]factor, 0, len(m))
	for id, e := range m {
		if r.idem[id] && e > 1 {
			e = 1
		}
		fs = append(fs, factor{id, e})
	}
	return makeMono(fs)
}

type Poly struct {
	R     *Ring
	terms map[mono]*big.Int
}

func (r *Ring) norm(c *big.Int) *big.Int {
	if r.Mod != nil {
		c.Mod(c, r.Mod)
	}
	return c
}

func (r *Ring) Zero() *Poly { return &Poly{R: r, terms: map[mono]*big.Int{}} }

func (r *Ring) Const(c *big.Int) *Poly {
	p := r.Zero()
	v := r.norm(new(big.Int).Set(c))
	if v.Sign() != 0 {
		p.terms[""] = v
	}
	return p
}

func (r *Ring) Int(c int64) *Poly { return r.Const(big.NewInt(c)) }

func (r *Ring) Var(name string) *Poly {
	p := r.Zero()
	p.terms[makeMono([]factor{{r.VarID(name), 1}})] = big.NewInt(1)
	return p
}

func (p *Poly) IsZero() bool { return len(p.terms) == 0 }

func (p *Poly) NumTerms() int { return len(p.terms) }

// IsConst reports whether p is a constant and returns it.
func (p *Poly) IsConst() (*big.Int, bool) {
	switch len(p.terms) {
	case 0:
		return big.NewInt(0), true
	case 1:
		if c, ok := p.terms[""]; ok {
			return new(big.Int).Set(c), true
		}
	}
	return nil, false
}

func (p *Poly) Clone() *Poly {
	q := p.R.Zero()
	for m, c := range p.terms {
		q.terms[m] = new(big.Int).Set(c)
	}
	return q
}

func (p *Poly) addTerm(m mono, c *big.Int) {
	if old, ok := p.terms[m]; ok {
		old.Add(old, c)
		p.R.norm(old)
		if old.Sign() == 0 {
			delete(p.terms, m)
		}
		return
	}
	v := p.R.norm(new(big.Int).Set(c))
	if v.Sign() != 0 {
		p.terms[m] = v
	}
}

func (p *Poly) Add(q *Poly) *Poly {
	r := p.Clone()
	for m, c := range q.terms {
		r.addTerm(m, c)
	}
	return r
}

func (p *Poly) Neg() *Poly {
	r := p.R.Zero()
	for m, c := range p.terms {
		r.addTerm(m, new(big.Int).Neg(c))
	}
	return r
}

func (p *Poly) Sub(q *Poly) *Poly { return p.Add(q.Neg()) }

func (p *Poly) Mul(q *Poly) *Poly {
	r := p.R.Zero()
	for m1, c1 := range p.terms {
		for m2, c2 := range q.terms {
			r.addTerm(p.R.mulMono(m1, m2), new(big.Int).Mul(c1, c2))
		}
	}
	return r
}

func (p *Poly) Scale(c *big.Int) *Poly {
	r := p.R.Zero()
	for m, c1 := range p.terms {
		r.addTerm(m, new(big.Int).Mul(c1, c))
	}
	return r
}

func (p *Poly) Equal(q *Poly) bool {
	if len(p.terms) != len(q.terms) {
		return false
	}
	for m, c := range p.terms {
		d, ok := q.terms[m]
		if !ok || c.Cmp(d) != 0 {
			return false
		}
	}
	return true
}

// Subst replaces variable name by q.
func (p *Poly) Subst(name string, q *Poly) *Poly {
	id, ok := p.R.ids[name]
	if !ok {
		return p.Clone()
	}
	out := p.R.Zero()
	pows := []*Poly{p.R.Int(1)}
	for m, c := range p.terms {
		fs := parseMono(m)
		e := 0
		var rest []factor
		for _, f := range fs {
			if f.id == id {
				e = f.exp
			} else {
				rest = append(rest, f)
			}
		}
		for len(pows) <= e {
			pows = append(pows, pows[len(pows)-1].Mul(q))
		}
		t := p.R.Zero()
		t.terms[makeMono(rest)] = new(big.Int).Set(c)
		for m2, c2 := range t.Mul(pows[e]).terms {
			out.addTerm(m2, c2)
		}
	}
	return out
}

// Vars returns the names of the variables occurring in p.
func (p *Poly) Vars() []string {
	seen := map[int]bool{}
	for m := range p.terms {
		for _, f := range parseMono(m) {
			seen[f.id] = true
		}
	}
	var out []string
	for id := range seen {
		out = append(out, p.R.names[id])
	}
	sort.Strings(out)
	return out
}

// Degree in one variable.
func (p *Poly) Degree(name string) int {
	id, ok := p.R.ids[name]
	if !ok {
		return 0
	}
	d := 0
	for m := range p.terms {
		for _, f := range parseMono(m) {
			if f.id == id && f.exp > d {
				d = f.exp
			}
		}
	}
	return d
}

// Terms iterates in canonical order.
func (p *Poly) Terms(fn func(vars map[string]int, coeff *big.Int)) {
	var ms []string
	for m := range p.terms {
		ms = append(ms, string(m))
	}
	sort.Strings(ms)
	for _, m := range ms {
		v := map[string]int{}
		for _, f := range parseMono(mono(m)) {
			v[p.R.names[f.id]] = f.exp
		}
		fn(v, p.terms[mono(m)])
	}
}

// Key is a canonical string of the normal form (used to name opaque terms).
func (p *Poly) Key() string { return p.render(false) }

func (p *Poly) String() string { return p.render(true) }

func (p *Poly) render(trunc bool) string {
	if len(p.terms) == 0 {
		return "0"
	}
	// The rendering is canonical: it depends on the variables' NAMES only, never on the order in which a ring
	// happened to create them (two computations of the same polynomial that introduce their carry symbols in a
	// different order must print — and digest — identically).
	var ts []string
	for m, c := range p.terms {
		cs := c.String()
		if p.R.Mod != nil {
			// print small negatives readably
			half := new(big.Int).Rsh(p.R.Mod, 1)
			if c.Cmp(half) > 0 {
				cs = new(big.Int).Sub(c, p.R.Mod).String()
			}
		}
		var vs []string
		for _, f := range parseMono(m) {
			if f.exp == 1 {
				vs = append(vs, p.R.names[f.id])
			} else {
				vs = append(vs, fmt.Sprintf("%s^%d", p.R.names[f.id], f.exp))
			}
		}
		sort.Strings(vs)
		switch {
		case len(vs) == 0:
			ts = append(ts, "\x00"+cs) // the constant term first
		case cs == "1":
			ts = append(ts, strings.Join(vs, "·")+"\x01")
		default:
			ts = append(ts, strings.Join(vs, "·")+"\x01"+cs)
		}
	}
	sort.Strings(ts)
	var sb strings.Builder
	for i, t := range ts {
		if i > 0 {
			sb.WriteString(" + ")
		}
		switch {
		case strings.HasPrefix(t, "\x00"):
			sb.WriteString(t[1:])
		default:
			k := strings.Index(t, "\x01")
			vars, cs := t[:k], t[k+1:]
			if cs == "" {
				sb.WriteString(vars)
			} else {
				sb.WriteString(cs + "·" + vars)
			}
		}
	}
	s := sb.String()
	if trunc && len(s) > 400 {
		s = s[:400] + "…"
	}
	return s
}

// Monic scales p so that its first term (in canonical order) has coefficient 1
// (only with a prime modulus); the zero polynomial is returned unchanged.
func (p *Poly) Monic() *Poly {
	if p.IsZero() || p.R.Mod == nil {
		return p.Clone()
	}
	var ms []string
	for m := range p.terms {
		ms = append(ms, string(m))
	}
	sort.Strings(ms)
	lead := p.terms[mono(ms[0])]
	inv := new(big.Int).ModInverse(lead, p.R.Mod)
	return p.Scale(inv)
}

// ReduceByRule rewrites name^deg -> repl until no term has name to a power >= deg.
func (p *Poly) ReduceByRule(name string, deg int, repl *Poly) *Poly {
	id, ok := p.R.ids[name]
	if !ok {
		return p.Clone()
	}
	cur := p
	for iter := 0; iter < 10000; iter++ {
		out := p.R.Zero()
		changed := false
		for m, c := range cur.terms {
			fs := parseMono(m)
			e := 0
			var rest []factor
			for _, f := range fs {
				if f.id == id {
					e = f.exp
				} else {
					rest = append(rest, f)
				}
			}
			if e < deg {
				out.addTerm(m, c)
				continue
			}
			changed = true
			rest = append(rest, factor{id, e - deg})
			t := p.R.Zero()
			t.terms[makeMono(rest)] = new(big.Int).Set(c)
			out = out.Add(t.Mul(repl))
		}
		cur = out
		if !changed {
			return cur
		}
	}
	return cur
}

// WithoutVars returns p with every variable in zero set to 0 (terms containing it vanish).
func (p *Poly) WithoutVars(zero map[string]bool) *Poly {
	ids := map[int]bool{}
	for v := range zero {
		if id, ok := p.R.ids[v]; ok {
			ids[id] = true
		}
	}
	out := p.R.Zero()
	for m, c := range p.terms {
		drop := false
		for _, f := range parseMono(m) {
			if ids[f.id] {
				drop = true
				break
			}
		}
		if !drop {
			out.terms[m] = new(big.Int).Set(c)
		}
	}
	return out
}
