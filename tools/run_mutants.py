#!/usr/bin/env python3
"""Apply every patch of /verif/mutants (or /verif/seeded) to a scratch copy of /repo's
current tree and run the claimed checks against it. Prints which checks fire.
usage: run_mutants.py [--class survivors|killed|benign|seeded|all] [--only ID] [--props C01,C02]"""
import json, os, subprocess, sys, tempfile, shutil, concurrent.futures as cf
here = os.path.dirname(os.path.dirname(os.path.abspath(__file__)))
VERIF = os.environ.get('VERIF_BIN', here+'/bin/verif')
args = sys.argv[1:]
klass = 'all'; only = None; props = None
i = 0
while i < len(args):
    if args[i] == '--class': klass = args[i+1]; i += 2
    elif args[i] == '--only': only = args[i+1]; i += 2
    elif args[i] == '--props': props = args[i+1].split(','); i += 2
    else: i += 1
claimed = [l.split()[0] for l in subprocess.run([VERIF,'list'],capture_output=True,text=True).stdout.splitlines()]
if props: claimed = [p for p in claimed if p in props]
index = json.load(open(here+'/mutants/index.json'))
items = []
for e in index:
    d = {'benign':'benign','killed':'killed','survivors':'survivors','survivor':'survivors'}[e['class']]
    items.append((e['id'], d, e['property'], here+f"/mutants/{d}/{e['id']}.patch", e.get('expected_rule')))
sd = here+'/seeded'
if os.path.isdir(sd):
    for name in sorted(os.listdir(sd)):
        mp = os.path.join(sd, name, 'meta.json')
        if os.path.exists(mp):
            m = json.load(open(mp))
            items.append((name, 'seeded', m.get('property','?'), os.path.join(sd,name,'patch.diff'), m.get('expected_rule')))
bd = here+'/benign_agents'
if os.path.isdir(bd):
    for name in sorted(os.listdir(bd)):
        if os.path.exists(os.path.join(bd,name,'patch.diff')):
            items.append((name, 'benign', '-', os.path.join(bd,name,'patch.diff'), None))
if klass != 'all': items = [x for x in items if x[1] == klass]
if only: items = [x for x in items if x[0] == only or (only.endswith('*') and x[0].startswith(only[:-1]))]

def run(item):
    mid, d, prop, patch, exp = item
    tmp = tempfile.mkdtemp(prefix='mut-')
    try:
        subprocess.run(['git','-C','/repo','worktree','list'],capture_output=True)
        dst = os.path.join(tmp,'repo')
        shutil.copytree('/repo', dst, ignore=shutil.ignore_patterns('.git'))
        r = subprocess.run(['git','apply','--whitespace=nowarn',patch],cwd=dst,capture_output=True,text=True)
        if r.returncode != 0:
            return (mid,d,prop,'SKIP(apply)',[],r.stderr.strip()[:100])
        fired = []; detail = []
        env = dict(os.environ, VERIF_REPO=dst, VERIF_DIR=tmp)
        shutil.copy(here+'/known_findings.json', tmp)
        shutil.copy(here+'/properties.jsonl', tmp)
        for p in (claimed if '--own' not in args else [q for q in claimed if q == prop]):
            r = subprocess.run([VERIF,'check',p,'--tier','quick','--no-evidence'],capture_output=True,text=True,errors='replace',env=env)
            if r.returncode != 0:
                fired.append(p)
                for l in r.stdout.splitlines():
                    if l.startswith('FAIL'):
                        detail.append(p+': '+l[:230]); break
        return (mid,d,prop,'ok',fired,detail)
    finally:
        shutil.rmtree(tmp, ignore_errors=True)

with cf.ThreadPoolExecutor(max_workers=14) as ex:
    res = list(ex.map(run, items))
stats = {}
for mid,d,prop,st,fired,detail in res:
    hit = prop in fired
    any_hit = bool(fired)
    tag = {'benign': 'FALSE-ALARM' if any_hit else 'quiet'}.get(d, ('DETECTED' if hit else ('detected-by-other' if any_hit else 'MISSED')))
    if st != 'ok': tag = st
    stats.setdefault(d,{}).setdefault(tag,0); stats[d][tag]+=1
    print(f"{d:9} {mid:28} {prop} {tag:18} fired={','.join(fired)}")
    if '-v' in args or tag in ('FALSE-ALARM',):
        for x in (detail if isinstance(detail,list) else [detail]): print('      ', x)
print(json.dumps(stats))
if '--write-expect' in args:
    exp = {}
    if only and os.path.exists(here+'/mutants/expect.json'):
        exp = json.load(open(here+'/mutants/expect.json'))  # a partial run updates its own entries only
    for (mid,d,prop,patch,_e),(mid2,d2,prop2,st,fired,detail) in zip(items,res):
        if st != 'ok': continue
        exp[mid] = {"class": d, "property": prop, "patch": os.path.relpath(patch, here), "fires": sorted(fired)}
    json.dump(exp, open(here+'/mutants/expect.json','w'), indent=1, sort_keys=True)
    print("wrote mutants/expect.json with", len(exp), "entries")
