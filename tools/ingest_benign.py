#!/usr/bin/env python3
"""Validate behaviour-preserving edits from sub-agents (build, vet, full suite default+purego) and file them
under /verif/benign_agents/<id>/ ; usage: ingest_benign.py <tag> <worktree>"""
import json, os, shutil, subprocess, sys, tempfile
tag, wt = sys.argv[1], sys.argv[2]
here = os.path.dirname(os.path.dirname(os.path.abspath(__file__)))
env = dict(os.environ, GOFLAGS='-mod=mod', GOPROXY='off', GOSUMDB='off', GOTOOLCHAIN='local'); env.pop('GOWORK', None)
def sh(cmd, cwd):
    r = subprocess.run(cmd, cwd=cwd, env=env, shell=True, capture_output=True, text=True); return r.returncode, r.stdout + r.stderr
for i in sorted(os.listdir(os.path.join(wt, '_out'))):
    d = os.path.join(wt, '_out', i); patch = os.path.join(d, 'patch.diff')
    if not os.path.exists(patch): continue
    tmp = tempfile.mkdtemp(prefix='ben-'); dst = os.path.join(tmp, 'repo')
    try:
        subprocess.run(['git','-C','/repo','worktree','add','--detach',dst,'HEAD'],capture_output=True,check=True)
        rc,o = sh(f"git apply --whitespace=nowarn {patch}", dst)
        if rc: print(tag,i,'REJECT apply',o[:150]); continue
        rcb,_ = sh("go build ./... && go vet ./...", dst); rct,ot = sh("go test -count=1 ./...", dst); rcp,_ = sh("go test -count=1 -tags purego ./...", dst)
        ok = rcb==0 and rct==0 and rcp==0
        print(tag,i,'KEEP' if ok else 'REJECT', rcb,rct,rcp)
        if not ok: continue
        sd = os.path.join(here,'benign_agents',f"{tag}-{i}"); os.makedirs(sd,exist_ok=True)
        shutil.copy(patch, os.path.join(sd,'patch.diff'))
        if os.path.exists(os.path.join(d,'notes.md')): shutil.copy(os.path.join(d,'notes.md'), os.path.join(sd,'notes.md'))
        json.dump({"id":f"{tag}-{i}","class":"benign","source":"independent sub-agent asked for strictly behaviour-preserving refactorings","validated":["build+vet rc=0","suite rc=0","suite purego rc=0"]}, open(os.path.join(sd,'meta.json'),'w'), indent=1)
    finally:
        subprocess.run(['git','-C','/repo','worktree','remove','--force',dst],capture_output=True); shutil.rmtree(tmp,ignore_errors=True)
