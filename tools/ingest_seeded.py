#!/usr/bin/env python3
"""Validate sub-agent seeded defects and store them under /verif/seeded/<id>/.
usage: ingest_seeded.py <Cxx> <worktree>   (reads <worktree>/_out/<i>/{patch.diff,demo_test.go,notes.md})
For each: scratch copy of /repo HEAD -> demo passes without patch; apply patch -> build, vet, full suite
(default + purego) pass; demo fails with patch. Only then kept."""
import json, os, re, shutil, subprocess, sys, tempfile
prop, wt = sys.argv[1], sys.argv[2]
sfx = sys.argv[3] if len(sys.argv) > 3 else 's'
here = os.path.dirname(os.path.dirname(os.path.abspath(__file__)))
env = dict(os.environ, GOFLAGS='-mod=mod', GOPROXY='off', GOSUMDB='off', GOTOOLCHAIN='local')
env.pop('GOWORK', None)
def sh(cmd, cwd):
    r = subprocess.run(cmd, cwd=cwd, env=env, shell=True, capture_output=True, text=True)
    return r.returncode, (r.stdout + r.stderr)
outdir = os.path.join(wt, '_out')
for i in sorted(os.listdir(outdir)):
    d = os.path.join(outdir, i)
    patch = os.path.join(d, 'patch.diff'); demo = os.path.join(d, 'demo_test.go')
    if not (os.path.exists(patch) and os.path.exists(demo)):
        print(prop, i, 'INCOMPLETE'); continue
    if sys.argv[1] == 'auto':
        nt = os.path.join(d, 'notes.md')
        mm = re.search(r'property:\s*(C\d\d)', open(nt).read()) if os.path.exists(nt) else None
        if not mm: print('auto', i, 'REJECT: no property line in notes.md'); continue
        prop = mm.group(1)
    first = open(demo).readline()
    m = re.search(r'dir:\s*(\S+)', first)
    sub = m.group(1) if m else '.'
    tmp = tempfile.mkdtemp(prefix='seed-')
    try:
        dst = os.path.join(tmp, 'repo')
        subprocess.run(['git', '-C', '/repo', 'worktree', 'add', '--detach', dst, 'HEAD'], capture_output=True, check=True)
        ran = []
        demodst = os.path.join(dst, sub, 'zz_seed_demo_test.go')
        shutil.copy(demo, demodst)
        names = re.findall(r'^func (Test\w+)\(', open(demo).read(), re.M)
        runre = '^(' + '|'.join(names) + ')$'
        pkg = './' + sub if sub != '.' else '.'
        rc0, o0 = sh(f"go test -count=1 -run '{runre}' {pkg}", dst)
        ran.append(f"unpatched demo: rc={rc0}")
        os.remove(demodst)
        rc, o = sh(f"git apply --whitespace=nowarn {patch}", dst)
        if rc != 0: print(prop, i, 'REJECT: patch does not apply', o[:200]); continue
        rcb, ob = sh("go build ./... && go vet ./...", dst)
        rct, ot = sh("go test -count=1 ./...", dst)
        rcp, op = sh("go test -count=1 -tags purego ./...", dst)
        ran += [f"patched build+vet: rc={rcb}", f"patched suite: rc={rct}", f"patched suite purego: rc={rcp}"]
        shutil.copy(demo, demodst)
        rc1, o1 = sh(f"go test -count=1 -run '{runre}' {pkg}", dst)
        ran.append(f"patched demo: rc={rc1}")
        if rc1 == 0:
            # a change that breaks one build configuration only (C20): try the portable build
            rc1, o1 = sh(f"go test -count=1 -tags purego -run '{runre}' {pkg}", dst)
            ran.append(f"patched demo (purego): rc={rc1}")
        ok = rc0 == 0 and rcb == 0 and rct == 0 and rcp == 0 and rc1 != 0
        print(prop, i, 'KEEP' if ok else 'REJECT', ran)
        if not ok:
            print((o0 if rc0 else '') + (ob if rcb else '') + (ot if rct else '')[-600:] + (op if rcp else '')[-300:] + (o1[-300:] if rc1 == 0 else ''))
            continue
        sid = f"{prop}-{sfx}{i}"
        k = 0
        while os.path.exists(os.path.join(here, 'seeded', sid)):
            k += 1
            sid = f"{prop}-{sfx}{i}{chr(ord('a')+k)}"   # never overwrite an earlier change with the same id
        print('filed as', sid)
        sd = os.path.join(here, 'seeded', sid)
        os.makedirs(sd, exist_ok=True)
        shutil.copy(patch, os.path.join(sd, 'patch.diff'))
        shutil.copy(demo, os.path.join(sd, 'demo_test.go'))
        notes = os.path.join(d, 'notes.md')
        if os.path.exists(notes): shutil.copy(notes, os.path.join(sd, 'notes.md'))
        needs = ''
        if os.path.exists(notes):
            txt = open(notes).read()
            needs = txt[:1500]
        meta = {"id": sid, "property": prop, "source": "independent sub-agent given only the property text and a scratch worktree",
                "needs_to_manifest": needs, "demo_dir": sub, "validated": ran,
                "base_commit": subprocess.run(['git','-C','/repo','rev-parse','--short','HEAD'],capture_output=True,text=True).stdout.strip()}
        json.dump(meta, open(os.path.join(sd, 'meta.json'), 'w'), indent=1)
    finally:
        subprocess.run(['git', '-C', '/repo', 'worktree', 'remove', '--force', os.path.join(tmp, 'repo')], capture_output=True)
        shutil.rmtree(tmp, ignore_errors=True)
