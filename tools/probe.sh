#!/bin/bash
# usage: probe.sh <id> <python-edit-file>  — apply edit script in a scratch worktree, validate suite, file as benign_agents/<id>, run all checks
id=$1; edit=$2
export GOFLAGS=-mod=mod GOPROXY=off GOSUMDB=off GOTOOLCHAIN=local
rm -rf /tmp/adh && mkdir /tmp/adh && git -C /repo worktree add --detach /tmp/adh/repo HEAD >/dev/null 2>&1
cd /tmp/adh/repo && python3 $edit && gofmt -w *.go field/*.go && go build ./... && go vet ./... && go test -count=1 ./... 2>&1 | tail -2 && go test -count=1 -tags purego ./... 2>&1 | tail -2 || { echo "EDIT INVALID"; cd /verif; git -C /repo worktree remove --force /tmp/adh/repo; exit 1; }
mkdir -p /verif/benign_agents/$id && git add -N . && git diff > /verif/benign_agents/$id/patch.diff
echo "{\"id\":\"$id\",\"class\":\"benign\",\"source\":\"written while building the checker (probe)\",\"validated\":[\"build+vet rc=0\",\"suite rc=0\",\"suite purego rc=0\"]}" > /verif/benign_agents/$id/meta.json
cd /verif; git -C /repo worktree remove --force /tmp/adh/repo; rm -rf /tmp/adh
python3 tools/run_mutants.py --only $id | cut -c1-400
