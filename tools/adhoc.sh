#!/bin/bash
# usage: adhoc.sh <prop> <file> <sed-expr>   — apply a sed edit to a scratch copy of /repo and run one check
set -e
tmp=$(mktemp -d)
cp -r /repo $tmp/repo && rm -rf $tmp/repo/.git
sed -i "$3" $tmp/repo/$2
(cd $tmp/repo && diff -r /repo . -x .git | head -8; export GOFLAGS=-mod=mod GOPROXY=off; go build ./... && go vet ./... >/dev/null 2>&1 && go test -count=1 ./... 2>&1 | tail -2)
VERIF_REPO=$tmp/repo VERIF_DIR=$tmp /verif/bin/verif check $1 --no-evidence | grep -E "^(FAIL|PASS)" | cut -c1-400
rm -rf $tmp
