#!/bin/bash
# run every claimed check (quick by default) in parallel, validate MANIFEST and evidence against the schemas
tier=${1:-quick}
cd /verif
ids=$(bin/verif list | cut -d' ' -f1)
for p in $ids; do ( bin/verif check $p --tier $tier > /tmp/runall_$p.log 2>&1; echo "$p exit=$? $(tail -1 /tmp/runall_$p.log | cut -c1-80)" ) & done; wait
python3-vt - <<'PY'
import json,jsonschema,glob
jsonschema.validate(json.load(open('/verif/MANIFEST.json')),json.load(open('/root/.vp/MANIFEST.schema.json')))
sch=json.load(open('/root/.vp/EVIDENCE.schema.json'))
m=json.load(open('/verif/MANIFEST.json'))
for c in m['checks']:
    f=c['evidence_file']; e=json.load(open(f)); jsonschema.validate(e,sch)
    assert e['level']==c['level_claimed']['category'], (f, e['level'])
    if e['level']=='proof': assert e['coverage']['obligations']==e['coverage']['discharged'], f
    print(f[-8:], e['level'], e['tier'], e['coverage']['obligations'], e['coverage']['discharged'], round(e['wall_s'],2))
print('manifest+evidence valid')
PY
