#!/usr/bin/env python3
"""Regenerates /verif/MANIFEST.json from the checker's registry (bin/verif list)
and the per-property notes below. Run after changing which properties are claimed."""
import json, subprocess, os, sys
here = os.path.dirname(os.path.dirname(os.path.abspath(__file__)))
props = [json.loads(l) for l in open(os.path.join(here, 'properties.jsonl'))]
out = subprocess.run([os.path.join(here, 'bin/verif'), 'list'], capture_output=True, text=True, check=True).stdout
claimed = {}
for line in out.splitlines():
    pid, level, _, tech = line.split(' ', 3)
    claimed[pid] = (level, tech)

notes = json.load(open(os.path.join(here, 'tools/manifest_notes.json')))
checks, na = [], []
for p in props:
    pid = p['id']
    if pid in claimed:
        level, tech = claimed[pid]
        n = notes[pid]
        checks.append({
            "property_id": pid,
            "quick_cmd": f"bin/verif check {pid} --tier quick",
            "thorough_cmd": f"bin/verif check {pid} --tier thorough",
            "evidence_file": f"/verif/evidence/{pid}.json",
            "replay_cmd_template": f"bin/verif check {pid} --tier quick --no-evidence --replay {{path}}",
            "engine": "verif-static",
            "level_claimed": {"category": level, "text": n["text"], "design_ref": n.get("design_ref", "DESIGN.md §4 " + pid)},
            "level_note": n["note"],
            "technique": tech,
        })
    else:
        na.append({"property_id": pid, "reason": notes.get(pid, {}).get("na", "no statically decidable clause delivered yet; see DESIGN.md §4/§8")})
m = {
    "version": 1,
    "setup_cmd": "cd checker && env -u GOWORK GOFLAGS=-mod=mod GOPROXY=off GOSUMDB=off GOTOOLCHAIN=local go build -o ../bin/verif ./cmd/verif",
    "hooks": {"guard": "verif", "enable": "none: there are no hooks; every check analyses /repo's source as it is (go/packages + go/ssa + the .s files)",
              "baseline_off_cmd": "cd /repo && go test -count=1 ./...", "source_commits": [], "add_only": True},
    "engines": [{"name": "verif-static", "path": "checker/", "serves_properties": sorted(claimed),
                 "kind_free_text": "repository-specific static analyser: effect summaries, taint, dominance/control-dependence rules, abstract interpretation over go/ssa and the Go assembler sources"}],
    "checks": checks,
    "not_applicable": na,
    "notes": "Static analysis only: no code of /repo is executed by any check. known_findings.json lists recorded genuine findings (status known) and repaired ones (status fixed, suppress nothing).",
}
json.dump(m, open(os.path.join(here, 'MANIFEST.json'), 'w'), indent=1)
print("claimed", sorted(claimed), "not_applicable", [x['property_id'] for x in na])
