#!/bin/bash
# usage: ingest_round.sh <worktree> <suffix>  — validate and file a seeding agent's changes, run every claimed check against each, remove the worktree
wt=$1; sfx=$2
cd /verif
python3 tools/ingest_seeded.py auto $wt $sfx 2>&1 | grep -E "KEEP|REJECT|INCOMPLETE" | cut -c1-200
for d in $(ls $wt/_out); do
  prop=$(grep -o -m1 'property: *C[0-9][0-9]' $wt/_out/$d/notes.md | grep -o 'C[0-9][0-9]')
  id=$prop-$sfx$d
  [ -d seeded/$id ] && python3 tools/run_mutants.py --only $id -v 2>&1 | grep -v "^{" | cut -c1-300 | head -8
done
git -C /repo worktree remove --force $wt; git -C /repo worktree prune
