#!/bin/bash
# usage: ingest_round.sh <worktree> <suffix>  — validate and file a seeding agent's changes, run every claimed check against each, remove the worktree
wt=$1; sfx=$2
cd /verif
python3 tools/ingest_seeded.py auto $wt $sfx 2>&1 | grep -E "KEEP|REJECT|INCOMPLETE|filed as" | cut -c1-200 | tee /tmp/ingest_round.$$
for id in $(grep "filed as" /tmp/ingest_round.$$ | awk '{print $3}'); do
  python3 tools/run_mutants.py --only $id -v 2>&1 | grep -v "^{" | cut -c1-300 | head -8
done
if grep -q "REJECT\|INCOMPLETE" /tmp/ingest_round.$$; then
  echo "NOTE: $wt kept (a change was rejected by the automatic validation: it may need a special configuration; validate it by hand, then remove the worktree)"
else
  git -C /repo worktree remove --force $wt; git -C /repo worktree prune
fi
rm -f /tmp/ingest_round.$$
